"""Generic machinery shared by every property check.

Pipeline of one check (see DESIGN.md section 2.5):
  build (make, full .vo) -> hygiene gate -> recompile Properties_Cxx.v and read the
  Print Assumptions blocks -> correspondence (implementation from /repo/src vs the Coq
  model evaluated with vm_compute inside coqc) -> known-finding replays -> oracle search
  -> evidence file -> verdict.
"""
from __future__ import annotations

import fcntl
import hashlib
import json
import os
import random
import re
import shutil
import subprocess
import sys
import tempfile
import time
from concurrent.futures import ThreadPoolExecutor
from pathlib import Path

VERIF = Path(__file__).resolve().parent.parent
COQ = VERIF / "coq"
THEORIES = COQ / "theories"
REPO = Path("/repo")
SCRATCH = VERIF / ".scratch"

# theory directories a property needs besides its own (build + hygiene scope)
PROP_DIRS = {"C05": ["Common", "C11", "C05"], "C12": ["Common", "C11", "C12"]}


def dirs_of(prop: str) -> list[str]:
    return PROP_DIRS.get(prop, ["Common", prop])


ALLOWED_AXIOMS: set[str] = set()  # none: every property theorem must be closed under the global context

FORBIDDEN = re.compile(
    r"\b(Admitted|admit|Axiom|Axioms|Parameter|Parameters|Conjecture|Conjectures|Admit Obligations|"
    r"Unset Guard Checking|Unset Positivity Checking|Unset Universe Checking|bypass_check|type-in-type|impredicative-set)\b"
)


# ----------------------------------------------------------------------------------------
# Coq term rendering
# ----------------------------------------------------------------------------------------
def cN(n: int) -> str:
    assert n >= 0
    return f"{n}%N"


def cZ(n: int) -> str:
    return f"({n})%Z"


def cnat(n: int) -> str:
    assert 0 <= n < 5000
    return f"{n}%nat"


def cbool(b: bool) -> str:
    return "true" if b else "false"


def cstr(s: str | bytes) -> str:
    if isinstance(s, bytes):
        cps = list(s)
    else:
        cps = [ord(c) for c in s]
    if not cps:
        return "(@nil N)"
    return "[" + ";".join(str(c) for c in cps) + "]%N"


def clist(items, ty: str | None = None) -> str:
    items = list(items)
    if not items:
        return f"(@nil {ty})" if ty else "[]"
    return "[" + "; ".join(items) + "]"


def ctuple(*items: str) -> str:
    return "(" + ", ".join(items) + ")"


def copt(x: str | None, ty: str | None = None) -> str:
    if x is None:
        return f"(@None {ty})" if ty else "None"
    return f"(Some {x})"


def capp(fn: str, *args: str) -> str:
    return "(" + " ".join((fn,) + args) + ")"


def cjson(v) -> str:
    """Render a Python JSON value as a Verif.Common.Json.json term (no floats)."""
    if v is None:
        return "JNull"
    if v is True:
        return "(JBool true)"
    if v is False:
        return "(JBool false)"
    if isinstance(v, int):
        return f"(JInt {cZ(v)})"
    if isinstance(v, str):
        return f"(JStr {cstr(v)})"
    if isinstance(v, (list, tuple)):
        return f"(JArr {clist([cjson(x) for x in v], 'json')})"
    if isinstance(v, dict):
        return "(JObj " + clist([ctuple(cstr(str(k)), cjson(x)) for k, x in v.items()], "(str * json)") + ")"
    raise TypeError(f"not a model JSON value: {v!r}")


# ----------------------------------------------------------------------------------------
# Parsing what `Eval vm_compute` prints
# ----------------------------------------------------------------------------------------
_TOK = re.compile(r"\s*(\{\||\|\}|:=|[\[\]\(\);,]|-?\d+|%[A-Za-z_]+|[A-Za-z_][A-Za-z_0-9'.]*)")


def _tokens(s: str):
    pos = 0
    out = []
    while pos < len(s):
        m = _TOK.match(s, pos)
        if not m:
            if s[pos:].strip() == "":
                break
            raise ValueError(f"cannot tokenise Coq output at {s[pos:pos+40]!r}")
        tok = m.group(1)
        pos = m.end()
        if tok.startswith("%"):
            continue  # scope delimiters carry no information for us
        out.append(tok)
    return out


class _P:
    def __init__(self, toks):
        self.t = toks
        self.i = 0

    def peek(self):
        return self.t[self.i] if self.i < len(self.t) else None

    def next(self):
        tok = self.t[self.i]
        self.i += 1
        return tok

    def expect(self, tok):
        got = self.next()
        if got != tok:
            raise ValueError(f"expected {tok!r} got {got!r}")

    def atom(self):
        tok = self.next()
        if tok == "[":
            items = []
            if self.peek() == "]":
                self.next()
                return items
            while True:
                items.append(self.term())
                nxt = self.next()
                if nxt == "]":
                    return items
                if nxt != ";":
                    raise ValueError(f"bad list separator {nxt!r}")
        if tok == "(":
            first = self.term()
            if self.peek() == ",":
                items = [first]
                while self.peek() == ",":
                    self.next()
                    items.append(self.term())
                self.expect(")")
                return tuple(items)
            self.expect(")")
            return first
        if tok == "{|":
            rec = {}
            if self.peek() == "|}":
                self.next()
                return rec
            while True:
                name = self.next()
                self.expect(":=")
                rec[name] = self.term()
                nxt = self.next()
                if nxt == "|}":
                    return rec
                if nxt != ";":
                    raise ValueError(f"bad record separator {nxt!r}")
        if re.fullmatch(r"-?\d+", tok):
            return int(tok)
        if tok == "true":
            return True
        if tok == "false":
            return False
        return Sym(tok)

    def term(self):
        head = self.atom()
        if isinstance(head, Sym):
            args = []
            while self.peek() not in (None, "]", ")", ";", ",", "|}", ":="):
                a = self.atom()
                if isinstance(a, Sym):  # nullary constructor used as an argument
                    a = None if a.name == "None" else a.name
                args.append(a)
            if args:
                return (head.name, *args)
            if head.name == "None":
                return None
            return head.name
        return head


class Sym:
    def __init__(self, name):
        self.name = name


def parse_coq_value(s: str):
    p = _P(_tokens(s))
    v = p.term()
    if p.peek() is not None:
        raise ValueError(f"trailing tokens in Coq output: {p.t[p.i:p.i+5]}")
    return v


def pstr(v) -> str:
    """Model string (list of code points) -> Python str."""
    return "".join(chr(c) for c in v)


def popt(v):
    """Parsed `option`: None | ('Some', x) -> None | x."""
    if v is None:
        return None
    assert v[0] == "Some", v
    return v[1]


# ----------------------------------------------------------------------------------------
# Running coqc
# ----------------------------------------------------------------------------------------
def _run(cmd, timeout, cwd=None):
    try:
        p = subprocess.run(cmd, cwd=cwd, capture_output=True, text=True, timeout=timeout)
        return p.returncode, p.stdout + p.stderr
    except subprocess.TimeoutExpired as e:
        return 124, f"TIMEOUT after {timeout}s: {' '.join(map(str, cmd))}\n{e.stdout or ''}"


def gen_coqproject() -> None:
    """_CoqProject is derived from the directory listing (never edited by hand)."""
    files = sorted(str(f.relative_to(COQ)) for f in THEORIES.rglob("*.v") if not f.name.startswith("_"))
    text = "-Q theories Verif\n-arg -w -arg -notation-overridden,-deprecated-hint-without-locality,-deprecated-instance-without-locality\n" + "\n".join(files) + "\n"
    cp = COQ / "_CoqProject"
    if not cp.exists() or cp.read_text() != text:
        cp.write_text(text)


def make_all(jobs: int = 16, clean: bool = False, prop: str | None = None, dirs: list[str] | None = None, keep_going: bool = False) -> tuple[bool, str]:
    """Full .vo build (incremental).  Without `prop`: every theory file (MANIFEST.setup_cmd).  With `prop`: Common/ plus that
    property's directory through its own generated Makefile, so that a check depends on nothing else.  Serialised by a file lock
    so that several checks started at once do not race on the same .vo files."""
    SCRATCH.mkdir(exist_ok=True)
    with open(SCRATCH / "make.lock", "w") as lock:
        fcntl.flock(lock, fcntl.LOCK_EX)
        gen_coqproject()
        if prop is None:
            cp, mk = "_CoqProject", "Makefile"
        else:
            cp, mk = f"_CoqProject.{prop}", f"Makefile.{prop}"
            files = sorted(
                str(f.relative_to(COQ)) for d in (dirs or ["Common", prop]) for f in (THEORIES / d).glob("*.v") if not f.name.startswith("_")
            )
            text = (COQ / "_CoqProject").read_text().splitlines()[:2] + files
            text = "\n".join(text) + "\n"
            if not (COQ / cp).exists() or (COQ / cp).read_text() != text:
                (COQ / cp).write_text(text)
        if not (COQ / mk).exists() or (COQ / cp).stat().st_mtime > (COQ / mk).stat().st_mtime:
            rc, out = _run(["coq_makefile", "-f", cp, "-o", mk], 120, cwd=COQ)
            if rc != 0:
                return False, out
        if clean:
            _run(["make", "-f", mk, "clean"], 300, cwd=COQ)
        rc, out = _run(["timeout", "1500", "make", "-f", mk, f"-j{jobs}"] + (["-k"] if keep_going else []), 1600, cwd=COQ)
        return rc == 0, out


def hygiene(dirs: list[str]) -> list[str]:
    """Forbidden vernacular anywhere in the listed theory directories."""
    bad = []
    for d in dirs:
        for f in sorted((THEORIES / d).glob("*.v")):
            text = f.read_text()
            # strip comments (non-nested is enough: we never nest)
            stripped = re.sub(r"\(\*.*?\*\)", "", text, flags=re.S)
            for i, line in enumerate(stripped.splitlines(), 1):
                if FORBIDDEN.search(line):
                    bad.append(f"{f.relative_to(VERIF)}:{i}: {line.strip()[:100]}")
            # Variable/Hypothesis outside a section
            depth = 0
            for i, line in enumerate(stripped.splitlines(), 1):
                if re.match(r"\s*Section\b", line):
                    depth += 1
                elif re.match(r"\s*End\b", line) and depth:
                    depth -= 1
                elif depth == 0 and re.match(r"\s*(Variable|Variables|Hypothesis|Hypotheses|Context)\b", line):
                    bad.append(f"{f.relative_to(VERIF)}:{i}: {line.strip()[:100]} (outside a section)")
    return bad


def check_properties_file(prop: str, relpath: str | None = None) -> dict:
    """Recompile Properties_<prop>.v and pair every Theorem with its Print Assumptions block."""
    rel = relpath or f"{prop}/Properties_{prop}.v"
    src = THEORIES / rel
    text = src.read_text()
    theorems = re.findall(r"^\s*Theorem\s+([A-Za-z0-9_']+)", text, flags=re.M)
    printed = re.findall(r"^\s*Print Assumptions\s+([A-Za-z0-9_']+)\s*\.", text, flags=re.M)
    res = {"file": str(src.relative_to(VERIF)), "theorems": theorems, "closed": [], "open": {}, "error": None}
    bad_close = []
    # every theorem must be closed by `exact <lemma>` (possibly after exists/split) and Qed
    for m in re.finditer(r"Theorem\s+([A-Za-z0-9_']+).*?Proof\.(.*?)(Qed|Defined|Admitted|Abort)\.", text, flags=re.S):
        if m.group(3) != "Qed":
            bad_close.append(m.group(1))
    if bad_close:
        res["error"] = f"theorems not closed by Qed: {bad_close}"
        return res
    missing = [t for t in theorems if t not in printed]
    if missing:
        res["error"] = f"theorems without Print Assumptions: {missing}"
        return res
    with tempfile.TemporaryDirectory(dir=_scratch()) as td:
        # compile a copy so that concurrent checks never fight over the .vo
        tmp = Path(td) / src.name
        shutil.copy(src, tmp)
        rc, out = _run(["timeout", "600", "coqc", "-Q", str(THEORIES), "Verif", str(tmp)], 700, cwd=td)
    res["log"] = out[-4000:]
    if rc != 0:
        res["error"] = f"coqc failed on {rel}: {out[-1500:]}"
        return res
    blocks = re.split(r"(?=Closed under the global context|Axioms:)", out)
    blocks = [b for b in blocks if b.startswith("Closed under") or b.startswith("Axioms:")]
    if len(blocks) != len(printed):
        res["error"] = f"{len(printed)} Print Assumptions commands but {len(blocks)} blocks in output"
        return res
    for name, blk in zip(printed, blocks):
        if blk.startswith("Closed under"):
            res["closed"].append(name)
        else:
            axioms = re.findall(r"^([A-Za-z0-9_.']+)\s*:", blk, flags=re.M)
            if axioms and all(a in ALLOWED_AXIOMS for a in axioms):
                res["closed"].append(name)
            else:
                res["open"][name] = axioms
    return res


def _scratch() -> Path:
    SCRATCH.mkdir(exist_ok=True)
    return SCRATCH


def coq_eval(imports: list[str], exprs: list[str], shard: int = 300, jobs: int = 8, timeout: int = 600) -> list:
    """Evaluate Coq expressions (all of one type) with vm_compute inside coqc and return
    the parsed values in order.  `imports` are module paths below Verif."""
    if not exprs:
        return []
    header = "From Coq Require Import List NArith ZArith Bool.\n"
    header += "".join(f"From Verif Require Import {m}.\n" for m in imports)
    header += "Import ListNotations.\nSet Printing Width 2000000000.\nSet Printing Depth 100000000.\n"
    shards = [exprs[i : i + shard] for i in range(0, len(exprs), shard)]
    td = tempfile.mkdtemp(dir=_scratch(), prefix="eval_")
    try:
        def one(idx_chunk):
            idx, chunk = idx_chunk
            f = Path(td) / f"cases_{idx}.v"
            body = header + "Eval vm_compute in [\n  " + ";\n  ".join(chunk) + "\n].\n"
            f.write_text(body)
            rc, out = _run(["timeout", str(timeout), "coqc", "-Q", str(THEORIES), "Verif", str(f)], timeout + 30, cwd=td)
            if rc != 0:
                raise RuntimeError(f"coqc failed while evaluating the model ({f.name}): {out[-2000:]}")
            m = re.search(r"^\s*=\s*(.*?)\n\s*:\s", out, flags=re.S | re.M)
            if not m:
                raise RuntimeError(f"no value in coqc output: {out[-500:]}")
            vals = parse_coq_value(m.group(1))
            if len(vals) != len(chunk):
                raise RuntimeError(f"model returned {len(vals)} values for {len(chunk)} cases")
            return vals

        with ThreadPoolExecutor(max_workers=jobs) as ex:
            parts = list(ex.map(one, enumerate(shards)))
        return [v for part in parts for v in part]
    finally:
        shutil.rmtree(td, ignore_errors=True)


# ----------------------------------------------------------------------------------------
# Known findings
# ----------------------------------------------------------------------------------------
def load_findings(prop: str) -> list[dict]:
    path = VERIF / "known_findings.jsonl"
    out = []
    if path.exists():
        for line in path.read_text().splitlines():
            line = line.strip()
            if line and not line.startswith("#"):
                rec = json.loads(line)
                if rec.get("property") == prop:
                    out.append(rec)
    return out


# ----------------------------------------------------------------------------------------
# The check context: counters, verdict, evidence
# ----------------------------------------------------------------------------------------
class Check:
    def __init__(self, prop: str, tier: str, seed: int, level: str = "proof"):
        self.prop = prop
        self.tier = tier
        self.seed = seed
        self.level = level
        self.rng = random.Random(seed)
        self.t0 = time.time()
        self.obligations: list[str] = []
        self.discharged: list[str] = []
        self.broken: list[dict] = []  # broken obligations / correspondence
        self.failures: list[dict] = []  # property failures on the implementation (outside listed regions)
        self.known_hits: dict[str, int] = {}
        self.known_lines: list[str] = []
        self.evaluations = 0
        self.nontrivial: set[str] = set()
        self.samples: list = []
        self.hist: dict[str, int] = {}
        self.stages: dict[str, dict] = {}
        self.trusted: list[str] = []
        self.assumptions: list[str] = []
        self.notes: list[str] = []
        self.findings = load_findings(prop)
        self.checker_cmd = ""
        self.rule = ""

    # ---- stage 1: proofs
    def proofs(self, dirs: list[str], extra_property_files: list[str] | None = None, gen_lemmas: list[str] | None = None):
        # models regenerated from the Python source (harness/props/<id>_gen.py), fail closed: a source that no longer fits the
        # translated subset is a broken tie; a semantic edit makes the Gen*_eq theorems of the property fail to check
        if "regenerated_model" not in self.stages:
            import importlib

            try:
                gen = importlib.import_module(f"harness.props.{self.prop.lower()}_gen")
            except ModuleNotFoundError:
                gen = None
            if gen is not None:
                try:
                    self.stages["regenerated_model"] = gen.regenerate()
                except Exception as exc:
                    self.broken.append({"kind": "translator", "what": f"the source no longer fits the translated subset ({self.prop.lower()}_gen)",
                                        "detail": f"{type(exc).__name__}: {exc}"})
        ok, out = make_all(clean=(self.tier == 'thorough' and os.environ.get('VERIF_CLEAN') == '1'), prop=self.prop, dirs=dirs)
        self.checker_cmd = (
            f"cd /verif/coq && coq_makefile -f _CoqProject -o Makefile && make -j16 (full .vo build); "
            f"coqc -Q theories Verif theories/{self.prop}/Properties_{self.prop}.v (Print Assumptions under every Theorem)"
        )
        if not ok:
            self.broken.append({"kind": "build", "what": "make failed", "detail": out[-3000:]})
        bad = hygiene(dirs)
        if bad:
            self.broken.append({"kind": "hygiene", "what": "forbidden vernacular", "detail": bad})
        files = [None] + (extra_property_files or [])
        gen_props = f"{self.prop}/GenProperties_{self.prop}.v"      # theorems tying regenerated kernels to the hand-written model
        if (THEORIES / gen_props).exists() and gen_props not in files:
            files.append(gen_props)
        for rel in files:
            res = check_properties_file(self.prop, rel)
            self.obligations += res["theorems"]
            if res["error"]:
                self.broken.append({"kind": "theorem", "what": res["file"], "detail": res["error"]})
                continue
            if not ok:
                continue
            self.discharged += res["closed"]
            for name, ax in res["open"].items():
                self.broken.append({"kind": "axioms", "what": name, "detail": ax})
        self.stages["proofs"] = {
            "build_ok": ok,
            "theorems": list(self.obligations),
            "closed_under_global_context": list(self.discharged),
        }

    # ---- counting
    def count(self, key: str, n: int = 1):
        self.hist[key] = self.hist.get(key, 0) + n

    def seen(self, canonical, nontrivial: bool = True):
        self.evaluations += 1
        if nontrivial:
            self.nontrivial.add(hashlib.sha1(json.dumps(canonical, sort_keys=True, default=str).encode()).hexdigest())

    def sample(self, s):
        if len(self.samples) < 6:
            self.samples.append(s)

    # ---- verdict inputs
    def disagree(self, stage: str, case, impl, model):
        self.broken.append({"kind": "correspondence", "what": stage, "input": case, "implementation": impl, "model": model})

    def fail(self, what: str, case, detail=None, region: str | None = None):
        """A concrete input on which the PROPERTY fails on the implementation."""
        if region is not None:
            for f in self.findings:
                if f.get("status") == "known" and f.get("region") == region:
                    self.known_hits[f["id"]] = self.known_hits.get(f["id"], 0) + 1
                    return
        self.failures.append({"what": what, "input": case, "detail": detail, "region": region})

    def known(self, finding: dict, still_fails: bool):
        """Result of replaying the canonical witness of a listed finding."""
        if finding.get("status") == "known":
            if still_fails:
                self.known_lines.append(f"KNOWN-FINDING: property={self.prop} {finding['id']}: {finding['what']}")
            else:
                self.notes.append(f"listed finding {finding['id']} no longer reproduces (witness passes)")
        elif finding.get("status") == "fixed":
            if still_fails:
                self.failures.append({"what": f"fixed finding {finding['id']} is back", "input": finding.get("witness"), "region": None})

    # ---- finish
    def finish(self) -> int:
        wall = time.time() - self.t0
        violated = bool(self.broken or self.failures)
        replay_path = None
        if violated:
            rdir = VERIF / "replays" / self.prop
            rdir.mkdir(parents=True, exist_ok=True)
            payload = {
                "property": self.prop,
                "seed": self.seed,
                "tier": self.tier,
                "failing_inputs": self.failures[:20],
                "broken_obligations_or_correspondence": self.broken[:20],
                "how_to_replay": f"./check {self.prop} --replay <this file>",
            }
            blob = json.dumps(payload, indent=1, default=str, sort_keys=True)
            replay_path = rdir / (hashlib.sha1(blob.encode()).hexdigest()[:16] + ".json")
            replay_path.write_text(blob)
        cov = {
            "obligations": len(self.obligations),
            "discharged": len(self.discharged),
            "checker_cmd": self.checker_cmd,
            "trusted_base": self.trusted,
            "evaluations": self.evaluations,
            "distinct_nontrivial": len(self.nontrivial),
            "rule": self.rule,
            "samples": self.samples,
            "input_distribution": dict(sorted(self.hist.items())),
            "stages": self.stages,
            "known_findings_reproduced": self.known_lines,
            "failing_inputs_inside_listed_regions": self.known_hits,
            "notes": self.notes,
            "explanation": "machine-checked Coq theorems about a model of the code + per-run correspondence "
            "of that model (vm_compute inside coqc) against the implementation imported from /repo/src, "
            "+ oracle search on the implementation (testing, supports the tie, never replaces a theorem)",
        }
        ev = {
            "property_id": self.prop,
            "tier": self.tier,
            "seed": self.seed,
            "level": self.level,
            "coverage": cov,
            "assumptions": self.assumptions,
            "wall_s": round(wall, 2),
            "violations": len(self.failures) + len(self.broken),
        }
        # trials against a scratch worktree (VERIF_REPO: seeded regressions, mutation trials) must not overwrite the evidence of /repo
        evdir = (SCRATCH / "trial_evidence") if os.environ.get("VERIF_REPO") else (VERIF / "evidence")
        evdir.mkdir(parents=True, exist_ok=True)
        (evdir / f"{self.prop}.json").write_text(json.dumps(ev, indent=1, default=str))
        for line in self.known_lines:
            print(line)
        print(
            f"[{self.prop}] tier={self.tier} seed={self.seed} theorems={len(self.discharged)}/{len(self.obligations)} "
            f"evaluations={self.evaluations} distinct_nontrivial={len(self.nontrivial)} "
            f"failing_inputs={len(self.failures)} broken={len(self.broken)} wall={wall:.1f}s"
        )
        if violated:
            for b in self.broken[:5]:
                print(f"  broken: {b['kind']} {b['what']}: {str(b.get('detail', b.get('input')))[:300]}")
            for f in self.failures[:5]:
                print(f"  failing input: {f['what']}: {str(f['input'])[:300]}")
            suffix = "" if self.failures else " no-failing-input-found"
            print(f"VIOLATION property={self.prop} replay={replay_path}{suffix}")
            return 1
        return 0


def assert_repo_import():
    import schemathesis

    f = os.path.realpath(schemathesis.__file__)
    allow = os.environ.get("VERIF_ALLOW_SRC")  # mutation trials on a scratch worktree only
    if allow and f.startswith(os.path.realpath(allow) + "/"):
        return
    if not f.startswith("/repo/src/"):
        raise SystemExit(f"schemathesis imported from {f}, not from /repo/src: refusing to check a stale copy")


def shrink_list(xs: list, still_fails) -> list:
    """Greedy delta-debugging on a list."""
    xs = list(xs)
    n = 2
    while len(xs) >= 2:
        chunk = max(1, len(xs) // n)
        reduced = False
        for i in range(0, len(xs), chunk):
            cand = xs[:i] + xs[i + chunk :]
            if cand and still_fails(cand):
                xs = cand
                n = max(n - 1, 2)
                reduced = True
                break
        if not reduced:
            if chunk == 1:
                break
            n = min(n * 2, len(xs))
    return xs
