"""A loopback HTTP server that records exactly what it receives."""
from __future__ import annotations

import threading
import time
from http.server import BaseHTTPRequestHandler, ThreadingHTTPServer


class Recorder:
    def __init__(self, responder=None):
        self.requests: list[dict] = []
        self.lock = threading.Lock()
        self.responder = responder
        rec = self

        class H(BaseHTTPRequestHandler):
            protocol_version = "HTTP/1.1"

            def log_message(self, *a):
                pass

            def _handle(self):
                n = int(self.headers.get("Content-Length") or 0)
                body = self.rfile.read(n) if n else b""
                if self.headers.get("Transfer-Encoding", "").lower() == "chunked":
                    body = b""
                    while True:
                        size = int(self.rfile.readline().strip() or b"0", 16)
                        if size == 0:
                            self.rfile.readline()
                            break
                        body += self.rfile.read(size)
                        self.rfile.readline()
                item = {
                    "method": self.command,
                    "target": self.raw_requestline.split()[1].decode("latin-1"),
                    "headers": [(k, v) for k, v in self.headers.items()],
                    "body": body,
                    "t": time.monotonic(),
                }
                with rec.lock:
                    rec.requests.append(item)
                status, headers, payload = (200, [("Content-Type", "application/json")], b"{}")
                if rec.responder is not None:
                    status, headers, payload = rec.responder(item)
                self.send_response(status)
                for k, v in headers:
                    self.send_header(k, v)
                self.send_header("Content-Length", str(len(payload)))
                self.end_headers()
                if self.command != "HEAD":
                    self.wfile.write(payload)

            def handle_one_request(self):
                try:
                    self.raw_requestline = self.rfile.readline(65537)
                    if not self.raw_requestline:
                        self.close_connection = True
                        return
                    if not self.parse_request():
                        return
                    self._handle()
                    self.wfile.flush()
                except (TimeoutError, ConnectionError):
                    self.close_connection = True

        self.server = ThreadingHTTPServer(("127.0.0.1", 0), H)
        self.server.daemon_threads = True
        self.port = self.server.server_address[1]
        self.thread = threading.Thread(target=self.server.serve_forever, daemon=True)
        self.thread.start()

    @property
    def url(self) -> str:
        return f"http://127.0.0.1:{self.port}"

    def take(self) -> list[dict]:
        with self.lock:
            out, self.requests = self.requests, []
        return out

    def close(self):
        self.server.shutdown()
        self.server.server_close()
