"""Run `st run` in-process (click.testing) against a loopback API; returns (exit_code, output, requests, events)."""
from __future__ import annotations

import json
import shutil
import tempfile
from pathlib import Path

from harness import core
from harness.loopback import Recorder


def run_cli(raw: dict, responder, args: list[str], *, rec: Recorder | None = None, capture_events: bool = True, yaml: bool = False):
    from click.testing import CliRunner

    import schemathesis.cli
    from schemathesis.cli.commands.run import executor as cli_executor
    from schemathesis.cli.commands.run.handlers.base import EventHandler

    own = rec is None
    rec = rec or Recorder(responder)
    core.SCRATCH.mkdir(exist_ok=True)
    td = tempfile.mkdtemp(dir=core.SCRATCH, prefix="cli_")
    events = []

    class Capture(EventHandler):
        def __init__(self, *a, **k):
            pass

        def handle_event(self, ctx, event):
            events.append(event)

    try:
        path = Path(td) / "schema.json"
        path.write_text(json.dumps(raw))
        if capture_events:
            cli_executor.CUSTOM_HANDLERS.append(Capture)
        try:
            result = CliRunner().invoke(
                schemathesis.cli.schemathesis,
                ["run", str(path), "--url", rec.url, "--generation-database=none", "--suppress-health-check=all", "--no-color", *args],
                catch_exceptions=True,
            )
        finally:
            if capture_events and Capture in cli_executor.CUSTOM_HANDLERS:
                cli_executor.CUSTOM_HANDLERS.remove(Capture)
        return {"exit_code": result.exit_code, "output": result.output, "requests": rec.take(), "events": events,
                "exception": result.exception if not isinstance(result.exception, SystemExit) else None, "dir": td}
    finally:
        if own:
            rec.close()
        shutil.rmtree(td, ignore_errors=True)
