"""Forced thread schedules and fault injection for the real engine (through the guarded
hooks of schemathesis.core._verif).  A schedule is a list of labels 'C', 'W0'.., 'Stop'."""
from __future__ import annotations

import threading
import time
from collections import Counter

BLOCKING = {"c_get", "c_post", "c_alive", "c_empty", "c_islive", "c_done", "w_loop", "w_fetch", "w_put", "w_check", "w_send",
            "s_get", "s_alive", "s_put"}


_ORIG_IS_ALIVE = threading.Thread.is_alive


class Controller:
    def __init__(self, fault=None, consumer_thread=None):
        self.cv = threading.Condition()
        self.at: dict[str, str] = {}
        self.arrivals: Counter = Counter()
        self.released: set[str] = set()
        self.free = False
        self.fault = fault  # callable(name, ctx, visit_no) -> exception instance or None
        self.visits: Counter = Counter()
        self.consumer_thread = consumer_thread or threading.current_thread()
        self.log: list[tuple[str, str]] = []
        self.arm_islive = False  # also stop the consumer between its emptiness test and its liveness test
        self._islive_pending = False

    @staticmethod
    def tid_of(thread: threading.Thread, consumer) -> str:
        name = thread.name
        if name.startswith("schemathesis_unit_tests_"):
            return "W" + name.rsplit("_", 1)[1]
        if name == "schemathesis_stateful_tests":
            return "S"
        if thread is consumer:
            return "C"
        return "?" + name

    def point(self, name: str, ctx: dict) -> None:
        with self.cv:
            self.visits[name] += 1
            n = self.visits[name]
        if self.fault is not None:
            exc = self.fault(name, ctx, n)
            if exc is not None:
                raise exc
        if name not in BLOCKING or self.free:
            return
        t = self.tid_of(threading.current_thread(), self.consumer_thread)
        if t.startswith("?"):
            return
        if name in ("c_alive", "c_empty"):
            self._islive_pending = True
        with self.cv:
            self.at[t] = name
            self.arrivals[t] += 1
            self.log.append((t, name))
            self.cv.notify_all()
            while t not in self.released and not self.free:
                self.cv.wait(0.5)
            self.released.discard(t)
            self.at.pop(t, None)

    # ---- controller side (called from the scheduling thread)
    def _thread(self, t: str):
        if t == "C":
            return self.consumer_thread
        for th in threading.enumerate():
            if self.tid_of(th, self.consumer_thread) == t:
                return th
        return None

    def wait_ready(self, tids: list[str], timeout: float = 20.0) -> bool:
        end = time.time() + timeout
        with self.cv:
            while not all(t in self.at for t in tids):
                if time.time() > end:
                    return False
                self.cv.wait(0.05)
        return True

    def step(self, t: str, timeout: float = 30.0) -> str:
        """Let thread t perform one step.  Returns the point it arrived at, 'dead', or 'stutter'."""
        with self.cv:
            if t not in self.at or self.at[t] == "c_done":
                return "stutter"
            gen = self.arrivals[t]
            self.released.add(t)
            self.cv.notify_all()
            end = time.time() + timeout
            while True:
                if self.arrivals[t] != gen and t in self.at:
                    return self.at[t]
                th = self._thread(t)
                if t not in self.released and t not in self.at and (th is None or not _ORIG_IS_ALIVE(th)):
                    return "dead"
                if time.time() > end:
                    return "timeout"
                self.cv.wait(0.02)

    def release_all(self) -> None:
        with self.cv:
            self.free = True
            self.cv.notify_all()


class _StdlibPoints:
    """Harness-side instrumentation (no change to /repo): the consumer's calls to Queue.empty() and to Thread.is_alive()
    on worker threads become points, so a schedule can interleave between the two tests of the consumer's exit condition."""

    def __init__(self, ctl: Controller):
        import queue

        self.ctl = ctl
        self.queue = queue
        self.orig_empty = queue.Queue.empty
        self.orig_alive = threading.Thread.is_alive

    def __enter__(self):
        ctl, orig_empty, orig_alive = self.ctl, self.orig_empty, self.orig_alive

        def empty(q):
            if threading.current_thread() is ctl.consumer_thread and not ctl.free:
                ctl.point("c_empty", {})
            return orig_empty(q)

        def is_alive(th):
            if (ctl.arm_islive and ctl._islive_pending and not ctl.free and threading.current_thread() is ctl.consumer_thread
                    and th.name.startswith("schemathesis_")):
                ctl._islive_pending = False
                ctl.point("c_islive", {})
            return orig_alive(th)

        self.queue.Queue.empty = empty
        threading.Thread.is_alive = is_alive
        return self

    def __exit__(self, *a):
        self.queue.Queue.empty = self.orig_empty
        threading.Thread.is_alive = self.orig_alive


def run_forced(raw, responder, schedule, *, workers, phase="fuzzing", max_examples=2, max_failures=None,
               continue_on_failure=False, fault=None, seed=1, stop_cb=None, unique_inputs=False, checks=None, arm_islive=False, tids=None):
    """Runs the real engine with one enabled unit phase under the forced schedule.
    Returns dict(prefix=events seen when the schedule ended, events=all events, requests_at_end=..., arrivals=[...])."""
    from schemathesis.core import _verif

    from harness.engine_util import run_engine
    from harness.loopback import Recorder

    assert _verif.ENABLED, "SCHEMATHESIS_VERIF=1 must be set before schemathesis is imported"
    main = threading.current_thread()
    ctl = Controller(fault=fault, consumer_thread=main)
    ctl.arm_islive = arm_islive
    _verif.set_controller(ctl)
    rec = Recorder(responder)
    result: dict = {"arrivals": []}
    evs: list = []
    stream_box: list = []

    def on_event(ev, stream):
        evs.append(ev)
        if not stream_box:
            stream_box.append(stream)

    def scheduler():
        ready = tids or (["C"] + [f"W{i}" for i in range(workers)])
        if not ctl.wait_ready(ready):
            result["error"] = f"threads not ready: at={dict(ctl.at)}"
            ctl.release_all()
            return
        try:
            for lab in schedule:
                if lab == "Stop":
                    stream_box[0].stop()
                    result["arrivals"].append("stop")
                    result.setdefault("requests_at_stop", len(rec.requests))
                    result.setdefault("events_at_stop", len(evs))
                    continue
                result["arrivals"].append(ctl.step(lab))
            result["prefix_len"] = len(evs)
            result["requests_at_end"] = len(rec.requests)
            result["at"] = dict(ctl.at)
        finally:
            ctl.release_all()

    th = threading.Thread(target=scheduler, daemon=True)
    th.start()
    try:
        with _StdlibPoints(ctl):
            all_events, reqs = run_engine(raw, phases=[phase], workers=workers, max_examples=max_examples, seed=seed,
                                          max_failures=max_failures, continue_on_failure=continue_on_failure,
                                          on_event=on_event, rec=rec, unique_inputs=unique_inputs, checks=checks)
    finally:
        ctl.release_all()
        th.join(timeout=30)
        _verif.set_controller(None)
        rec.close()
    result["events"] = all_events
    result["prefix"] = all_events[: result.get("prefix_len", 0)]
    result["requests"] = reqs
    return result
