"""Run the real schemathesis engine against a scripted loopback API."""
from __future__ import annotations

import json
from typing import Callable

from harness.loopback import Recorder


def demo_schema(extra_paths: dict | None = None, links: bool = True) -> dict:
    raw = {
        "openapi": "3.0.2",
        "info": {"title": "demo", "version": "1"},
        "paths": {
            "/users": {
                "post": {
                    "operationId": "createUser",
                    "requestBody": {
                        "required": True,
                        "content": {"application/json": {"schema": {"type": "object", "properties": {"name": {"type": "string", "example": "bob"}}, "required": ["name"], "additionalProperties": False}}},
                    },
                    "responses": {
                        "201": {
                            "description": "created",
                            "content": {"application/json": {"schema": {"type": "object", "properties": {"id": {"type": "integer"}}, "required": ["id"]}}},
                            **({"links": {"get": {"operationId": "getUser", "parameters": {"id": "$response.body#/id"}}}} if links else {}),
                        }
                    },
                }
            },
            "/users/{id}": {
                "get": {
                    "operationId": "getUser",
                    "parameters": [{"name": "id", "in": "path", "required": True, "schema": {"type": "integer", "minimum": 1, "maximum": 100}}],
                    "responses": {"200": {"description": "ok", "content": {"application/json": {"schema": {"type": "object"}}}}, "404": {"description": "nf"}},
                }
            },
        },
    }
    if extra_paths:
        raw["paths"].update(extra_paths)
    return raw


def default_responder(item):
    path = item["target"].split("?")[0]
    if item["method"] == "POST" and path == "/users":
        return 201, [("Content-Type", "application/json")], b'{"id": 1}'
    if path.startswith("/users/"):
        return 200, [("Content-Type", "application/json")], b"{}"
    return 200, [("Content-Type", "application/json")], b"{}"


def run_engine(raw: dict, responder: Callable | None = None, *, phases=None, workers=1, max_examples=3, seed=1,
               max_failures=None, continue_on_failure=False, unique_inputs=False, checks=None, headers=None,
               on_event=None, rec: Recorder | None = None, modes=None, override=None, auth=None, step_count=None, rate_limit=None,
               configure=None):
    """Returns (events, requests seen by the API)."""
    import hypothesis

    import schemathesis
    from schemathesis.engine import from_schema
    from schemathesis.engine.config import EngineConfig, ExecutionConfig, NetworkConfig
    from schemathesis.engine.phases import PhaseName
    from schemathesis.generation import GenerationConfig

    own = rec is None
    rec = rec or Recorder(responder or default_responder)
    if not own and responder is not None:
        rec.responder = responder
    try:
        schema = schemathesis.openapi.from_dict(raw)
        schema.configure(base_url=rec.url)
        if rate_limit is not None:
            schema.configure(rate_limit=rate_limit)
        if configure is not None:
            configure(schema)
        kw = {}
        if step_count is not None:
            kw["stateful_step_count"] = step_count
        settings = hypothesis.settings(max_examples=max_examples, deadline=None, database=None, derandomize=False,
                                       suppress_health_check=list(hypothesis.HealthCheck), **kw)
        gen = GenerationConfig(modes=modes) if modes is not None else GenerationConfig()
        exe = ExecutionConfig(
            phases=[PhaseName.from_str(p) if not isinstance(p, PhaseName) else p for p in phases] if phases is not None else PhaseName.defaults(),
            hypothesis_settings=settings,
            generation=gen,
            max_failures=max_failures,
            unique_inputs=unique_inputs,
            continue_on_failure=continue_on_failure,
            seed=seed,
            workers_num=workers,
            **({"checks": checks} if checks is not None else {}),
        )
        config = EngineConfig(execution=exe, network=NetworkConfig(headers=headers or {}, auth=auth), override=override)
        stream = from_schema(schema, config=config).execute()
        evs = []
        for ev in stream:
            evs.append(ev)
            if on_event is not None:
                on_event(ev, stream)
        return evs, rec.take()
    finally:
        if own:
            rec.close()


def event_kind(ev) -> str:
    return type(ev).__name__
