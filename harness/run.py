"""./check Cxx [--tier quick|thorough] [--replay FILE]"""
from __future__ import annotations

import argparse
import importlib
import json
import os
import sys
import traceback

from harness import core


def main() -> int:
    ap = argparse.ArgumentParser()
    ap.add_argument("prop")
    ap.add_argument("--tier", default=os.environ.get("VERIF_TIER") or "quick", choices=["quick", "thorough"])
    ap.add_argument("--replay", default=None)
    args = ap.parse_args()
    tier = os.environ.get("VERIF_TIER") or args.tier
    if tier not in ("quick", "thorough"):
        tier = "quick"
    try:
        seed = int(os.environ.get("VERIF_SEED", "0") or 0)
    except ValueError:
        seed = 0
    prop = args.prop.upper()
    core.assert_repo_import()
    mod = importlib.import_module(f"harness.props.{prop.lower()}")
    if args.replay:
        return mod.replay(json.load(open(args.replay)))
    chk = core.Check(prop, tier, seed, level=getattr(mod, "LEVEL", "proof"))
    try:
        mod.run(chk)
    except Exception as exc:  # a crash of the machinery is a broken tie, never a silent pass
        chk.broken.append({"kind": "harness", "what": f"{type(exc).__name__}: {exc}", "detail": traceback.format_exc()[-3000:]})
    return chk.finish()


if __name__ == "__main__":
    sys.exit(main())
