"""Fail-closed Python-ast -> Gallina translator for a tiny imperative subset (DESIGN.md 2.4).

Supported: methods whose body consists of `if`/`elif`/`else`, assignments and augmented assignments (+=, -=) to `self.<field>`
or locals, `return <expr>`, expressions over int/bool/None constants, names, `self.<field>`, + - *, comparisons
(== != < <= > >=), `is None` / `is not None`, `and` / `or` / `not`.  Fields and parameters are typed by a signature table
(nat | bool | optnat).  The generated function takes the fields read and returns the tuple of the fields written
(state-passing).  Anything else raises Untranslatable: the check then reports a broken tie instead of guessing.
Also: a module-level dict literal from enum members to ints (`_STATUS_ORDER`) -> a `match`.
"""
from __future__ import annotations

import ast
import hashlib
from pathlib import Path


class Untranslatable(Exception):
    pass


class MethodTranslator:
    def __init__(self, fields: dict[str, str], name: str):
        self.fields = fields  # field -> type
        self.name = name

    # expressions -------------------------------------------------------------
    def expr(self, e, env) -> tuple[str, str]:
        """returns (coq term, type)"""
        if isinstance(e, ast.Constant):
            if e.value is True:
                return "true", "bool"
            if e.value is False:
                return "false", "bool"
            if isinstance(e.value, int):
                return f"{e.value}", "nat"
            raise Untranslatable(f"constant {e.value!r}")
        if isinstance(e, ast.Attribute) and isinstance(e.value, ast.Name) and e.value.id == "self":
            if e.attr not in self.fields:
                raise Untranslatable(f"unknown field self.{e.attr}")
            return env[e.attr], self.fields[e.attr] if env[e.attr] == e.attr else env.get("__ty_" + e.attr, self.fields[e.attr])
        if isinstance(e, ast.BinOp) and isinstance(e.op, (ast.Add, ast.Sub, ast.Mult)):
            (a, ta), (b, tb) = self.expr(e.left, env), self.expr(e.right, env)
            if ta != "nat" or tb != "nat":
                raise Untranslatable("arithmetic on non-nat")
            op = {ast.Add: "+", ast.Sub: "-", ast.Mult: "*"}[type(e.op)]
            return f"({a} {op} {b})", "nat"
        if isinstance(e, ast.Compare) and len(e.ops) == 1:
            op, right = e.ops[0], e.comparators[0]
            if isinstance(op, (ast.Is, ast.IsNot)) and isinstance(right, ast.Constant) and right.value is None:
                raise Untranslatable("`is None` is only supported as an `if` test")
            (a, ta), (b, tb) = self.expr(e.left, env), self.expr(right, env)
            if ta != "nat" or tb != "nat":
                raise Untranslatable("comparison on non-nat")
            table = {ast.Eq: f"Nat.eqb {a} {b}", ast.NotEq: f"negb (Nat.eqb {a} {b})", ast.Lt: f"Nat.ltb {a} {b}",
                     ast.LtE: f"Nat.leb {a} {b}", ast.Gt: f"Nat.ltb {b} {a}", ast.GtE: f"Nat.leb {b} {a}"}
            if type(op) not in table:
                raise Untranslatable(f"comparison {type(op).__name__}")
            return f"({table[type(op)]})", "bool"
        if isinstance(e, ast.BoolOp):
            parts = [self.expr(v, env) for v in e.values]
            if any(t != "bool" for _, t in parts):
                raise Untranslatable("and/or on non-bool (Python truthiness is not guessed)")
            op = " && " if isinstance(e.op, ast.And) else " || "
            return "(" + op.join(p for p, _ in parts) + ")", "bool"
        if isinstance(e, ast.UnaryOp) and isinstance(e.op, ast.Not):
            a, ta = self.expr(e.operand, env)
            if ta != "bool":
                raise Untranslatable("not on non-bool")
            return f"(negb {a})", "bool"
        raise Untranslatable(ast.dump(e)[:80])

    # statements -> continuation-passing over the tuple of written fields -------
    def block(self, stmts, env, written, k) -> str:
        if not stmts:
            return k(env)
        s, rest = stmts[0], stmts[1:]
        if isinstance(s, ast.Expr) and isinstance(s.value, ast.Constant) and isinstance(s.value.value, str):
            return self.block(rest, env, written, k)  # docstring
        if isinstance(s, ast.AugAssign) and isinstance(s.op, (ast.Add, ast.Sub)):
            tgt = s.target
            if not (isinstance(tgt, ast.Attribute) and isinstance(tgt.value, ast.Name) and tgt.value.id == "self" and tgt.attr in written):
                raise Untranslatable("augmented assignment to something else than a written field")
            v, tv = self.expr(s.value, env)
            cur = env[tgt.attr]
            op = "+" if isinstance(s.op, ast.Add) else "-"
            name = tgt.attr
            body = self.block(rest, {**env, name: name}, written, k)
            return f"let {name} := ({cur} {op} {v}) in\n  {body}"
        if isinstance(s, ast.Assign) and len(s.targets) == 1:
            tgt = s.targets[0]
            if not (isinstance(tgt, ast.Attribute) and isinstance(tgt.value, ast.Name) and tgt.value.id == "self" and tgt.attr in written):
                raise Untranslatable("assignment to something else than a written field")
            v, tv = self.expr(s.value, env)
            name = tgt.attr
            body = self.block(rest, {**env, name: name}, written, k)
            return f"let {name} := {v} in\n  {body}"
        if isinstance(s, ast.If):
            # join point: the rest of the block continues with the fields as updated by either branch
            fields = sorted(written)
            join = lambda e: "(" + ", ".join(e[f] for f in fields) + ")" if len(fields) > 1 else e[fields[0]]
            test = s.test
            if (isinstance(test, ast.Compare) and len(test.ops) == 1 and isinstance(test.ops[0], (ast.Is, ast.IsNot))
                    and isinstance(test.comparators[0], ast.Constant) and test.comparators[0].value is None):
                subj = test.left
                if not (isinstance(subj, ast.Attribute) and isinstance(subj.value, ast.Name) and subj.value.id == "self"
                        and self.fields.get(subj.attr) == "optnat"):
                    raise Untranslatable("`is None` on something else than an optnat field")
                fname = subj.attr
                inner_env = {**env, fname: fname + "_v"}
                if isinstance(test.ops[0], ast.IsNot):
                    then_ = self.block(s.body, {**inner_env, "__ty_" + fname: "nat"}, written, join)
                    else_ = self.block(s.orelse, env, written, join)
                    cond = f"match {env[fname]} with\n  | Some {fname}_v => {then_}\n  | None => {else_}\n  end"
                else:
                    then_ = self.block(s.body, env, written, join)
                    else_ = self.block(s.orelse, {**inner_env, "__ty_" + fname: "nat"}, written, join)
                    cond = f"match {env[fname]} with\n  | None => {then_}\n  | Some {fname}_v => {else_}\n  end"
            else:
                c, tc = self.expr(test, env)
                if tc != "bool":
                    raise Untranslatable("if on non-bool (Python truthiness is not guessed)")
                then_ = self.block(s.body, env, written, join)
                else_ = self.block(s.orelse, env, written, join)
                cond = f"if {c} then {then_} else {else_}"
            pat = "'(" + ", ".join(fields) + ")" if len(fields) > 1 else fields[0]
            body = self.block(rest, {**env, **{f: f for f in fields}}, written, k)
            return f"let {pat} := ({cond}) in\n  {body}"
        if isinstance(s, ast.Return) and s.value is not None and not rest:
            v, _ = self.expr(s.value, env)
            return v
        raise Untranslatable(type(s).__name__)


def translate_method(src: str, cls: str, method: str, fields: dict[str, str], reads: list[str], writes: list[str], coq_name: str,
                     returns_value: bool = False) -> str:
    tree = ast.parse(src)
    fn = None
    for node in ast.walk(tree):
        if isinstance(node, ast.ClassDef) and node.name == cls:
            for item in node.body:
                if isinstance(item, ast.FunctionDef) and item.name == method:
                    fn = item
    if fn is None:
        raise Untranslatable(f"{cls}.{method} not found")
    tr = MethodTranslator(fields, coq_name)
    ty = {"nat": "nat", "bool": "bool", "optnat": "option nat"}
    params = " ".join(f"({f} : {ty[fields[f]]})" for f in reads)
    env = {f: f for f in fields}
    if returns_value:
        body = tr.block(fn.body, env, set(writes), lambda e: "tt")
    else:
        ws = sorted(writes)
        body = tr.block(fn.body, env, set(writes), lambda e: "(" + ", ".join(e[f] for f in ws) + ")" if len(ws) > 1 else e[ws[0]])
    return f"Definition {coq_name} {params} :=\n  {body}.\n"


def translate_enum_rank(src: str, dict_name: str, enum_name: str, coq_name: str, coq_type: str) -> str:
    tree = ast.parse(src)
    for node in tree.body:
        if isinstance(node, ast.Assign) and len(node.targets) == 1 and isinstance(node.targets[0], ast.Name) and node.targets[0].id == dict_name:
            d = node.value
            if not isinstance(d, ast.Dict):
                raise Untranslatable(f"{dict_name} is not a dict literal")
            arms = []
            for k, v in zip(d.keys, d.values):
                if not (isinstance(k, ast.Attribute) and isinstance(k.value, ast.Name) and k.value.id == enum_name
                        and isinstance(v, ast.Constant) and isinstance(v.value, int)):
                    raise Untranslatable(f"unexpected entry in {dict_name}")
                arms.append(f"  | {k.attr} => {v.value}")
            return f"Definition {coq_name} (s : {coq_type}) : nat :=\n  match s with\n" + "\n".join(arms) + "\n  end.\n"
    raise Untranslatable(f"{dict_name} not found")


def write_if_changed(path: Path, text: str) -> bool:
    if path.exists() and path.read_text() == text:
        return False
    path.write_text(text)
    return True


def source_hash(path: Path) -> str:
    return hashlib.sha256(path.read_bytes()).hexdigest()[:16]
