"""Fail-closed Python-ast -> Gallina translator for a tiny imperative subset (DESIGN.md 2.4).

Supported: methods whose body consists of `if`/`elif`/`else`, assignments and augmented assignments (+=, -=) to `self.<field>`
or locals, `return <expr>`, expressions over int/bool/None constants, names, `self.<field>`, + - *, comparisons
(== != < <= > >=), `is None` / `is not None`, `and` / `or` / `not`.  Fields and parameters are typed by a signature table
(nat | bool | optnat).  The generated function takes the fields read and returns the tuple of the fields written
(state-passing).  Anything else raises Untranslatable: the check then reports a broken tie instead of guessing.
Also: a module-level dict literal from enum members to ints (`_STATUS_ORDER`) -> a `match`.
"""
from __future__ import annotations

import ast
import hashlib
from pathlib import Path


class Untranslatable(Exception):
    pass


class MethodTranslator:
    def __init__(self, fields: dict[str, str], name: str):
        self.fields = fields  # field -> type
        self.name = name

    # expressions -------------------------------------------------------------
    def expr(self, e, env) -> tuple[str, str]:
        """returns (coq term, type)"""
        if isinstance(e, ast.Constant):
            if e.value is True:
                return "true", "bool"
            if e.value is False:
                return "false", "bool"
            if isinstance(e.value, int):
                return f"{e.value}", "nat"
            raise Untranslatable(f"constant {e.value!r}")
        if isinstance(e, ast.Attribute) and isinstance(e.value, ast.Name) and e.value.id == "self":
            if e.attr not in self.fields:
                raise Untranslatable(f"unknown field self.{e.attr}")
            return env[e.attr], self.fields[e.attr] if env[e.attr] == e.attr else env.get("__ty_" + e.attr, self.fields[e.attr])
        if isinstance(e, ast.BinOp) and isinstance(e.op, (ast.Add, ast.Sub, ast.Mult)):
            (a, ta), (b, tb) = self.expr(e.left, env), self.expr(e.right, env)
            if ta != "nat" or tb != "nat":
                raise Untranslatable("arithmetic on non-nat")
            op = {ast.Add: "+", ast.Sub: "-", ast.Mult: "*"}[type(e.op)]
            return f"({a} {op} {b})", "nat"
        if isinstance(e, ast.Compare) and len(e.ops) == 1:
            op, right = e.ops[0], e.comparators[0]
            if isinstance(op, (ast.Is, ast.IsNot)) and isinstance(right, ast.Constant) and right.value is None:
                raise Untranslatable("`is None` is only supported as an `if` test")
            (a, ta), (b, tb) = self.expr(e.left, env), self.expr(right, env)
            if ta != "nat" or tb != "nat":
                raise Untranslatable("comparison on non-nat")
            table = {ast.Eq: f"Nat.eqb {a} {b}", ast.NotEq: f"negb (Nat.eqb {a} {b})", ast.Lt: f"Nat.ltb {a} {b}",
                     ast.LtE: f"Nat.leb {a} {b}", ast.Gt: f"Nat.ltb {b} {a}", ast.GtE: f"Nat.leb {b} {a}"}
            if type(op) not in table:
                raise Untranslatable(f"comparison {type(op).__name__}")
            return f"({table[type(op)]})", "bool"
        if isinstance(e, ast.BoolOp):
            parts = [self.expr(v, env) for v in e.values]
            if any(t != "bool" for _, t in parts):
                raise Untranslatable("and/or on non-bool (Python truthiness is not guessed)")
            op = " && " if isinstance(e.op, ast.And) else " || "
            return "(" + op.join(p for p, _ in parts) + ")", "bool"
        if isinstance(e, ast.UnaryOp) and isinstance(e.op, ast.Not):
            a, ta = self.expr(e.operand, env)
            if ta != "bool":
                raise Untranslatable("not on non-bool")
            return f"(negb {a})", "bool"
        raise Untranslatable(ast.dump(e)[:80])

    # statements -> continuation-passing over the tuple of written fields -------
    def block(self, stmts, env, written, k) -> str:
        if not stmts:
            return k(env)
        s, rest = stmts[0], stmts[1:]
        if isinstance(s, ast.Expr) and isinstance(s.value, ast.Constant) and isinstance(s.value.value, str):
            return self.block(rest, env, written, k)  # docstring
        if isinstance(s, ast.AugAssign) and isinstance(s.op, (ast.Add, ast.Sub)):
            tgt = s.target
            if not (isinstance(tgt, ast.Attribute) and isinstance(tgt.value, ast.Name) and tgt.value.id == "self" and tgt.attr in written):
                raise Untranslatable("augmented assignment to something else than a written field")
            v, tv = self.expr(s.value, env)
            cur = env[tgt.attr]
            op = "+" if isinstance(s.op, ast.Add) else "-"
            name = tgt.attr
            body = self.block(rest, {**env, name: name}, written, k)
            return f"let {name} := ({cur} {op} {v}) in\n  {body}"
        if isinstance(s, ast.Assign) and len(s.targets) == 1:
            tgt = s.targets[0]
            if not (isinstance(tgt, ast.Attribute) and isinstance(tgt.value, ast.Name) and tgt.value.id == "self" and tgt.attr in written):
                raise Untranslatable("assignment to something else than a written field")
            v, tv = self.expr(s.value, env)
            name = tgt.attr
            body = self.block(rest, {**env, name: name}, written, k)
            return f"let {name} := {v} in\n  {body}"
        if isinstance(s, ast.If):
            # join point: the rest of the block continues with the fields as updated by either branch
            fields = sorted(written)
            join = lambda e: "(" + ", ".join(e[f] for f in fields) + ")" if len(fields) > 1 else e[fields[0]]
            test = s.test
            if (isinstance(test, ast.Compare) and len(test.ops) == 1 and isinstance(test.ops[0], (ast.Is, ast.IsNot))
                    and isinstance(test.comparators[0], ast.Constant) and test.comparators[0].value is None):
                subj = test.left
                if not (isinstance(subj, ast.Attribute) and isinstance(subj.value, ast.Name) and subj.value.id == "self"
                        and self.fields.get(subj.attr) == "optnat"):
                    raise Untranslatable("`is None` on something else than an optnat field")
                fname = subj.attr
                inner_env = {**env, fname: fname + "_v"}
                if isinstance(test.ops[0], ast.IsNot):
                    then_ = self.block(s.body, {**inner_env, "__ty_" + fname: "nat"}, written, join)
                    else_ = self.block(s.orelse, env, written, join)
                    cond = f"match {env[fname]} with\n  | Some {fname}_v => {then_}\n  | None => {else_}\n  end"
                else:
                    then_ = self.block(s.body, env, written, join)
                    else_ = self.block(s.orelse, {**inner_env, "__ty_" + fname: "nat"}, written, join)
                    cond = f"match {env[fname]} with\n  | None => {then_}\n  | Some {fname}_v => {else_}\n  end"
            else:
                c, tc = self.expr(test, env)
                if tc != "bool":
                    raise Untranslatable("if on non-bool (Python truthiness is not guessed)")
                then_ = self.block(s.body, env, written, join)
                else_ = self.block(s.orelse, env, written, join)
                cond = f"if {c} then {then_} else {else_}"
            pat = "'(" + ", ".join(fields) + ")" if len(fields) > 1 else fields[0]
            body = self.block(rest, {**env, **{f: f for f in fields}}, written, k)
            return f"let {pat} := ({cond}) in\n  {body}"
        if isinstance(s, ast.Return) and s.value is not None and not rest:
            v, _ = self.expr(s.value, env)
            return v
        raise Untranslatable(type(s).__name__)


def translate_method(src: str, cls: str, method: str, fields: dict[str, str], reads: list[str], writes: list[str], coq_name: str,
                     returns_value: bool = False) -> str:
    tree = ast.parse(src)
    fn = None
    for node in ast.walk(tree):
        if isinstance(node, ast.ClassDef) and node.name == cls:
            for item in node.body:
                if isinstance(item, ast.FunctionDef) and item.name == method:
                    fn = item
    if fn is None:
        raise Untranslatable(f"{cls}.{method} not found")
    tr = MethodTranslator(fields, coq_name)
    ty = {"nat": "nat", "bool": "bool", "optnat": "option nat"}
    params = " ".join(f"({f} : {ty[fields[f]]})" for f in reads)
    env = {f: f for f in fields}
    if returns_value:
        body = tr.block(fn.body, env, set(writes), lambda e: "tt")
    else:
        ws = sorted(writes)
        body = tr.block(fn.body, env, set(writes), lambda e: "(" + ", ".join(e[f] for f in ws) + ")" if len(ws) > 1 else e[ws[0]])
    return f"Definition {coq_name} {params} :=\n  {body}.\n"


MAP_PRELUDE = """(* Python dict as an association list, newest binding first: d[k] = v is a cons, d.get(k, default) the first match *)
Fixpoint gen_assoc_get {K V : Type} (eqb : K -> K -> bool) (k : K) (d : list (K * V)) : option V :=
  match d with
  | nil => None
  | cons (k', v) r => if eqb k k' then Some v else gen_assoc_get eqb k r
  end.
"""


def translate_map_method(src: str, cls: str, method: str, dict_field: str, key_param: str, value_param: str | None, coq_name: str) -> str:
    """A method of `cls` that only works on the dict `self.<dict_field>` keyed by hash(<key_param>):
    statements `self.d[hash(key)] = value`, `self.d.clear()`, `if len(self.d) <cmp> <int constant or module-level int>: ...`,
    `return self.d.get(hash(key), NOT_SET)` (NOT_SET -> None).  Anything else: Untranslatable."""
    tree = ast.parse(src)
    consts = {}
    for node in tree.body:
        if isinstance(node, ast.Assign) and len(node.targets) == 1 and isinstance(node.targets[0], ast.Name) and isinstance(node.value, ast.Constant) \
                and isinstance(node.value.value, int) and not isinstance(node.value.value, bool):
            consts[node.targets[0].id] = node.value.value
    fn = None
    for node in ast.walk(tree):
        if isinstance(node, ast.ClassDef) and node.name == cls:
            for item in node.body:
                if isinstance(item, ast.FunctionDef) and item.name == method:
                    fn = item
    if fn is None:
        raise Untranslatable(f"{cls}.{method} not found")
    args = [a.arg for a in fn.args.args]
    want = ["self", key_param] + ([value_param] if value_param else [])
    if args != want or fn.args.vararg or fn.args.kwarg or fn.args.kwonlyargs or fn.args.defaults:
        raise Untranslatable(f"{cls}.{method}: parameters {args}, expected {want}")

    def is_dict(e):
        return isinstance(e, ast.Attribute) and isinstance(e.value, ast.Name) and e.value.id == "self" and e.attr == dict_field

    def is_key(e):
        return isinstance(e, ast.Call) and isinstance(e.func, ast.Name) and e.func.id == "hash" and len(e.args) == 1 and not e.keywords \
            and isinstance(e.args[0], ast.Name) and e.args[0].id == key_param

    def nat(e):
        if isinstance(e, ast.Constant) and isinstance(e.value, int) and not isinstance(e.value, bool) and e.value >= 0:
            return str(e.value)
        if isinstance(e, ast.Name) and e.id in consts and consts[e.id] >= 0:
            return str(consts[e.id])
        if isinstance(e, ast.Call) and isinstance(e.func, ast.Name) and e.func.id == "len" and len(e.args) == 1 and is_dict(e.args[0]):
            return "(length d)"
        raise Untranslatable(f"{cls}.{method}: number {ast.dump(e)[:80]}")

    def test(e):
        if isinstance(e, ast.Compare) and len(e.ops) == 1:
            a, b = nat(e.left), nat(e.comparators[0])
            table = {ast.Eq: f"Nat.eqb {a} {b}", ast.NotEq: f"negb (Nat.eqb {a} {b})", ast.Lt: f"Nat.ltb {a} {b}", ast.LtE: f"Nat.leb {a} {b}",
                     ast.Gt: f"Nat.ltb {b} {a}", ast.GtE: f"Nat.leb {b} {a}"}
            if type(e.ops[0]) in table:
                return "(" + table[type(e.ops[0])] + ")"
        raise Untranslatable(f"{cls}.{method}: test {ast.dump(e)[:80]}")

    def block(stmts, returns: bool) -> str:
        """A term of type `list (K * V)` (state after the block) or, for a getter, `option V`."""
        if not stmts:
            if returns:
                raise Untranslatable(f"{cls}.{method}: a path without return")
            return "d"
        s, rest = stmts[0], stmts[1:]
        if isinstance(s, ast.Expr) and isinstance(s.value, ast.Constant) and isinstance(s.value.value, str):
            return block(rest, returns)
        if isinstance(s, ast.Assign) and len(s.targets) == 1 and isinstance(s.targets[0], ast.Subscript) and is_dict(s.targets[0].value) \
                and is_key(s.targets[0].slice) and value_param and isinstance(s.value, ast.Name) and s.value.id == value_param:
            return f"let d := cons (k, v) d in\n  {block(rest, returns)}"
        if isinstance(s, ast.Expr) and isinstance(s.value, ast.Call) and isinstance(s.value.func, ast.Attribute) and s.value.func.attr == "clear" \
                and is_dict(s.value.func.value) and not s.value.args and not s.value.keywords:
            return f"let d := nil in\n  {block(rest, returns)}"
        if isinstance(s, ast.If):
            if returns:
                raise Untranslatable(f"{cls}.{method}: `if` in a getter")
            return (f"let d := (if {test(s.test)} then {block(s.body, False)} else {block(s.orelse, False)}) in\n  {block(rest, returns)}")
        if isinstance(s, ast.Return) and returns and not rest and isinstance(s.value, ast.Call) and isinstance(s.value.func, ast.Attribute) \
                and s.value.func.attr == "get" and is_dict(s.value.func.value) and len(s.value.args) == 2 and is_key(s.value.args[0]) \
                and isinstance(s.value.args[1], ast.Name) and s.value.args[1].id == "NOT_SET" and not s.value.keywords:
            return "gen_assoc_get eqb k d"
        raise Untranslatable(f"{cls}.{method}: statement {ast.dump(s)[:100]}")

    if value_param:
        return (f"Definition {coq_name} {{K V : Type}} (d : list (K * V)) (k : K) (v : V) : list (K * V) :=\n  {block(fn.body, False)}.\n")
    return (f"Definition {coq_name} {{K V : Type}} (eqb : K -> K -> bool) (d : list (K * V)) (k : K) : option V :=\n  {block(fn.body, True)}.\n")


def translate_enum_rank(src: str, dict_name: str, enum_name: str, coq_name: str, coq_type: str) -> str:
    tree = ast.parse(src)
    for node in tree.body:
        if isinstance(node, ast.Assign) and len(node.targets) == 1 and isinstance(node.targets[0], ast.Name) and node.targets[0].id == dict_name:
            d = node.value
            if not isinstance(d, ast.Dict):
                raise Untranslatable(f"{dict_name} is not a dict literal")
            arms = []
            for k, v in zip(d.keys, d.values):
                if not (isinstance(k, ast.Attribute) and isinstance(k.value, ast.Name) and k.value.id == enum_name
                        and isinstance(v, ast.Constant) and isinstance(v.value, int)):
                    raise Untranslatable(f"unexpected entry in {dict_name}")
                arms.append(f"  | {k.attr} => {v.value}")
            return f"Definition {coq_name} (s : {coq_type}) : nat :=\n  match s with\n" + "\n".join(arms) + "\n  end.\n"
    raise Untranslatable(f"{dict_name} not found")


def write_if_changed(path: Path, text: str) -> bool:
    if path.exists() and path.read_text() == text:
        return False
    path.write_text(text)
    return True


def source_hash(path: Path) -> str:
    return hashlib.sha256(path.read_bytes()).hexdigest()[:16]


# ---------------------------------------------------------------------------------------------------------------------
# Pure integer functions (module level): Z / option Z / bool parameters and locals.

class FunctionTranslator:
    """`def f(a, b, ...)` whose body uses: docstring, `if/elif/else`, assignments to local names (also `q, r = divmod(a, b)`),
    `return e` / `return e1, e2`; expressions over int constants, names, named module constants (`consts`), + - * // %, unary -,
    `min(a, b)` / `max(a, b)`, comparisons, `x is None` / `x is not None` as an `if` test on an option-typed name (inside the
    not-None branch the name denotes the payload), `and` / `or` / `not`.  `//` and `%` are Python's floor division / modulo =
    Coq's Z.div / Z.modulo (divisor 0: Python raises, Coq yields 0 - callers state the precondition).  Anything else: Untranslatable."""

    def __init__(self, name: str, types: dict[str, str], consts: dict[str, str]):
        self.name, self.types, self.consts = name, dict(types), consts

    def expr(self, e, env: dict[str, str], ty: dict[str, str]) -> tuple[str, str]:
        if isinstance(e, ast.Constant):
            if e.value is True or e.value is False:
                return ("true" if e.value else "false"), "bool"
            if isinstance(e.value, int):
                return f"({e.value})%Z", "Z"
            raise Untranslatable(f"{self.name}: constant {e.value!r}")
        if isinstance(e, ast.Name):
            if e.id in env:
                return env[e.id], ty[e.id]
            if e.id in self.consts:
                return self.consts[e.id], "Z"
            raise Untranslatable(f"{self.name}: unknown name {e.id}")
        if isinstance(e, ast.UnaryOp) and isinstance(e.op, ast.USub):
            a, ta = self.expr(e.operand, env, ty)
            if ta != "Z":
                raise Untranslatable(f"{self.name}: unary minus on {ta}")
            return f"(Z.opp {a})", "Z"
        if isinstance(e, ast.UnaryOp) and isinstance(e.op, ast.Not):
            a, ta = self.expr(e.operand, env, ty)
            if ta != "bool":
                raise Untranslatable(f"{self.name}: `not` on {ta} (Python truthiness is not translated)")
            return f"(negb {a})", "bool"
        if isinstance(e, ast.BinOp):
            ops = {ast.Add: "Z.add", ast.Sub: "Z.sub", ast.Mult: "Z.mul", ast.FloorDiv: "Z.div", ast.Mod: "Z.modulo"}
            if type(e.op) not in ops:
                raise Untranslatable(f"{self.name}: operator {type(e.op).__name__}")
            (a, ta), (b, tb) = self.expr(e.left, env, ty), self.expr(e.right, env, ty)
            if ta != "Z" or tb != "Z":
                raise Untranslatable(f"{self.name}: arithmetic on {ta}, {tb}")
            return f"({ops[type(e.op)]} {a} {b})", "Z"
        if isinstance(e, ast.Call) and isinstance(e.func, ast.Name) and e.func.id in ("min", "max") and len(e.args) == 2 and not e.keywords:
            (a, ta), (b, tb) = self.expr(e.args[0], env, ty), self.expr(e.args[1], env, ty)
            if ta != "Z" or tb != "Z":
                raise Untranslatable(f"{self.name}: {e.func.id} on {ta}, {tb}")
            return f"(Z.{e.func.id} {a} {b})", "Z"
        if isinstance(e, ast.Compare) and len(e.ops) == 1:
            op, right = e.ops[0], e.comparators[0]
            (a, ta), (b, tb) = self.expr(e.left, env, ty), self.expr(right, env, ty)
            if ta != "Z" or tb != "Z":
                raise Untranslatable(f"{self.name}: comparison on {ta}, {tb}")
            table = {ast.Eq: f"Z.eqb {a} {b}", ast.NotEq: f"negb (Z.eqb {a} {b})", ast.Lt: f"Z.ltb {a} {b}", ast.LtE: f"Z.leb {a} {b}",
                     ast.Gt: f"Z.ltb {b} {a}", ast.GtE: f"Z.leb {b} {a}"}
            if type(op) not in table:
                raise Untranslatable(f"{self.name}: comparison {type(op).__name__}")
            return f"({table[type(op)]})", "bool"
        if isinstance(e, ast.BoolOp):
            parts = [self.expr(v, env, ty) for v in e.values]
            if any(t != "bool" for _, t in parts):
                raise Untranslatable(f"{self.name}: and/or on non-bool (Python truthiness is not translated)")
            op = " && " if isinstance(e.op, ast.And) else " || "
            return "(" + op.join(p for p, _ in parts) + ")", "bool"
        raise Untranslatable(f"{self.name}: expression {ast.dump(e)[:80]}")

    @staticmethod
    def assigned(stmts) -> list[str]:
        out: list[str] = []
        for s in stmts:
            if isinstance(s, ast.Assign):
                for t in s.targets:
                    for n in (t.elts if isinstance(t, ast.Tuple) else [t]):
                        if isinstance(n, ast.Name) and n.id not in out:
                            out.append(n.id)
            elif isinstance(s, ast.If):
                for n in FunctionTranslator.assigned(s.body) + FunctionTranslator.assigned(s.orelse):
                    if n not in out:
                        out.append(n)
        return out

    @staticmethod
    def returns(stmts) -> bool:
        return any(isinstance(s, ast.Return) or (isinstance(s, ast.If) and (FunctionTranslator.returns(s.body) or FunctionTranslator.returns(s.orelse)))
                   for s in stmts)

    def none_test(self, t, ty):
        """(name, positive?) for `x is None` / `x is not None` on an option-typed name"""
        if isinstance(t, ast.Compare) and len(t.ops) == 1 and isinstance(t.ops[0], (ast.Is, ast.IsNot)) and isinstance(t.left, ast.Name) \
                and isinstance(t.comparators[0], ast.Constant) and t.comparators[0].value is None and ty.get(t.left.id) == "optZ":
            return t.left.id, isinstance(t.ops[0], ast.IsNot)
        return None

    def block(self, stmts, env, ty, k) -> str:
        """k(env, ty) gives the term when the block falls through (None: falling through is an error = every path must return)"""
        if not stmts:
            if k is None:
                raise Untranslatable(f"{self.name}: a path without return")
            return k(env, ty)
        s, rest = stmts[0], stmts[1:]
        if isinstance(s, ast.Expr) and isinstance(s.value, ast.Constant) and isinstance(s.value.value, str):
            return self.block(rest, env, ty, k)
        if isinstance(s, ast.Return):
            if s.value is None:
                raise Untranslatable(f"{self.name}: bare return")
            if isinstance(s.value, ast.Tuple):
                return "(" + ", ".join(self.expr(x, env, ty)[0] for x in s.value.elts) + ")"
            return self.expr(s.value, env, ty)[0]
        if isinstance(s, ast.Assign) and len(s.targets) == 1:
            t = s.targets[0]
            if isinstance(t, ast.Name):
                v, tv = self.expr(s.value, env, ty)
                fresh = t.id
                return f"let {fresh} := {v} in\n  " + self.block(rest, {**env, t.id: fresh}, {**ty, t.id: tv}, k)
            if isinstance(t, ast.Tuple) and len(t.elts) == 2 and all(isinstance(n, ast.Name) for n in t.elts) and isinstance(s.value, ast.Call) \
                    and isinstance(s.value.func, ast.Name) and s.value.func.id == "divmod" and len(s.value.args) == 2:
                (a, ta), (b, tb) = self.expr(s.value.args[0], env, ty), self.expr(s.value.args[1], env, ty)
                if ta != "Z" or tb != "Z":
                    raise Untranslatable(f"{self.name}: divmod on {ta}, {tb}")
                q, r = t.elts[0].id, t.elts[1].id
                return (f"let {q} := (Z.div {a} {b}) in\n  let {r} := (Z.modulo {a} {b}) in\n  "
                        + self.block(rest, {**env, q: q, r: r}, {**ty, q: "Z", r: "Z"}, k))
        if isinstance(s, ast.If):
            nt = self.none_test(s.test, ty)

            def branches(body_then, body_else, kk):
                if nt is not None:
                    name, positive = nt
                    some_body, none_body = (body_then, body_else) if positive else (body_else, body_then)
                    payload = f"{name}_v"
                    a = self.block(some_body, {**env, name: payload}, {**ty, name: "Z"}, kk(True, name, payload))
                    b = self.block(none_body, env, ty, kk(False, name, payload))
                    return f"(match {env[name]} with\n  | Some {payload} => {a}\n  | None => {b}\n  end)"
                c, tc = self.expr(s.test, env, ty)
                if tc != "bool":
                    raise Untranslatable(f"{self.name}: `if` on {tc} (Python truthiness is not translated)")
                return f"(if {c} then {self.block(body_then, env, ty, kk(None, None, None))} else {self.block(body_else, env, ty, kk(None, None, None))})"

            if self.returns([s]):
                # some path returns: the rest of the function is the continuation of the paths that fall through
                def kk(_some, _name, _payload):
                    return lambda e2, t2: self.block(rest, {**env, **{n: e2[n] for n in e2 if n in env or n in self.assigned([s])}}, t2, k)
                return branches(s.body, s.orelse, kk)
            ws = self.assigned([s])
            for w in ws:
                if w not in env:
                    raise Untranslatable(f"{self.name}: {w} assigned only inside an `if`")

            def kk(some, name, payload):
                def fin(e2, t2):
                    vals = []
                    for w in ws:
                        v = e2[w]
                        # inside a not-None branch the tested name is the payload: give back an option if it was not re-assigned
                        if some and w == name and v == payload:
                            v = f"(Some {payload})"
                        vals.append(v)
                    return "(" + ", ".join(vals) + ")" if len(vals) > 1 else vals[0]
                return fin
            cond = branches(s.body, s.orelse, kk)
            pat = "'(" + ", ".join(ws) + ")" if len(ws) > 1 else ws[0]
            return f"let {pat} := {cond} in\n  " + self.block(rest, {**env, **{w: w for w in ws}}, ty, k)
        raise Untranslatable(f"{self.name}: statement {type(s).__name__}")


def translate_function(src: str, func: str, params: list[tuple[str, str]], coq_name: str, consts: dict[str, str] | None = None) -> str:
    """params: [(python name, 'Z' | 'optZ' | 'bool')] in order; must be exactly the function's parameters."""
    tree = ast.parse(src)
    fn = next((n for n in tree.body if isinstance(n, ast.FunctionDef) and n.name == func), None)
    if fn is None:
        raise Untranslatable(f"{func} not found")
    if [a.arg for a in fn.args.args] != [p for p, _ in params] or fn.args.vararg or fn.args.kwarg or fn.args.kwonlyargs or fn.args.defaults:
        raise Untranslatable(f"{func}: parameters {[a.arg for a in fn.args.args]}, expected {[p for p, _ in params]}")
    tr = FunctionTranslator(func, dict(params), consts or {})
    cty = {"Z": "Z", "optZ": "option Z", "bool": "bool"}
    body = tr.block(fn.body, {p: p for p, _ in params}, dict(params), None)
    sig = " ".join(f"({p} : {cty[t]})" for p, t in params)
    return f"Definition {coq_name} {sig} :=\n  {body}.\n"
