"""MANIFEST.setup_cmd: regenerate the translated model files from /repo/src, then a full .vo build of the theories of every
claimed property, from files on disk only."""
import importlib
import json
import os
import sys

sys.path.insert(0, "/repo/src")
os.environ.setdefault("SCHEMATHESIS_VERIF", "1")

from harness import core

manifest = json.load(open(core.VERIF / "MANIFEST.json"))
failed = []
for check in manifest["checks"]:
    prop = check["property_id"]
    try:
        gen = importlib.import_module(f"harness.props.{prop.lower()}_gen")
    except ModuleNotFoundError:
        continue
    try:
        print(f"[setup] {prop}: regenerated {gen.regenerate()}")
    except Exception as exc:  # the check itself reports this as a broken tie
        print(f"[setup] {prop}: translator failed: {type(exc).__name__}: {exc}")
# one parallel build of everything (the per-property builds below then only confirm that each property's own closure is complete)
ok, out = core.make_all(jobs=16, keep_going=True)
print(f"[setup] all theories in one make -j16 -k: {'ok' if ok else 'some targets failed'}")
for check in manifest["checks"]:
    prop = check["property_id"]
    ok, out = core.make_all(prop=prop, dirs=core.dirs_of(prop))
    print(f"[setup] {prop}: {'ok' if ok else 'FAILED'}")
    if not ok:
        print(out[-3000:])
        failed.append(prop)
sys.exit(1 if failed else 0)
