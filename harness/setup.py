"""MANIFEST.setup_cmd: full .vo build of every theory file, from files on disk only."""
import sys

from harness import core

ok, out = core.make_all()
print(out[-3000:])
sys.exit(0 if ok else 1)
