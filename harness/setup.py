"""MANIFEST.setup_cmd: full .vo build of the theories of every claimed property, from files on disk only."""
import json
import sys

from harness import core

manifest = json.load(open(core.VERIF / "MANIFEST.json"))
failed = []
for check in manifest["checks"]:
    prop = check["property_id"]
    ok, out = core.make_all(prop=prop, dirs=core.dirs_of(prop))
    print(f"[setup] {prop}: {'ok' if ok else 'FAILED'}")
    if not ok:
        print(out[-3000:])
        failed.append(prop)
sys.exit(1 if failed else 0)
