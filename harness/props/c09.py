"""C09 - the printed curl command re-sends the same request.

Stages: proofs (Properties_C09.v) -> correspondence of curl.generate with the Coq model
(generate / argv_of / sh_words / curl_sem, evaluated by vm_compute) -> validation of the
model's foreign parts against real dash and real curl -> end-to-end oracle search
(Case -> requests -> loopback  vs  as_curl_command -> sh -> curl -> loopback).
"""
from __future__ import annotations

import json
import subprocess

from harness import core
from harness.core import cbool, clist, copt, cstr, ctuple, pstr
from harness.loopback import Recorder

LEVEL = "proof"
IMPORTS = ["Common.Str", "C09.Model_C09"]

SPECIAL = list("'\"\\ $`!*?[]{}()<>|&;#~\n\t=:%@+,-./") + ["é", "中", "\U0001f600", "\x7f", "\x01"]
METHODS = ["GET", "POST", "PUT", "DELETE", "PATCH", "OPTIONS", "HEAD", "TRACE", "QUERY"]
AUTO = ["Content-Length", "Transfer-Encoding", "X-Schemathesis-TestCaseId", "User-Agent", "Accept-Encoding", "Accept", "Connection"]


def rand_text(rng, maxlen=12, alphabet=None, nul=False):
    n = rng.choice([0, 1, 1, 2, 3, 5, maxlen])
    out = []
    for _ in range(n):
        k = rng.random()
        if k < 0.45:
            out.append(rng.choice("abcXYZ019_"))
        elif k < 0.97 or not nul:
            out.append(rng.choice(alphabet or SPECIAL))
        else:
            out.append("\x00")
    return "".join(out)


def rand_name(rng):
    if rng.random() < 0.35:
        name = rng.choice(AUTO)
        return rng.choice([name, name.lower(), name.upper()])
    return rng.choice(["X-A", "X-Token", "Authorization", "Cookie", "Content-Type", "x_b", "A.b", "If-Match"])


def gen_request(rng, for_model_only=True):
    headers = {}
    for _ in range(rng.choice([0, 1, 2, 3, 4])):
        name = rand_name(rng)
        if name.lower() == "content-type" and rng.random() < 0.6:
            headers[name] = rng.choice(["application/x-www-form-urlencoded", "application/json", "text/plain", "multipart/form-data; boundary=x",
                                        "application/x-www-form-urlencoded; charset=utf-8"])
            continue
        headers[name] = rng.choice(["", " ", "v"]) if rng.random() < 0.15 else rand_text(rng, nul=for_model_only)
    known = {k: headers[k] for k in headers if rng.random() < 0.3}
    if rng.random() < 0.2:
        known[rand_name(rng)] = "z"
    kind = rng.random()
    if kind < 0.3:
        body = None
    elif kind < 0.38:
        body = rng.choice(["", b""])
    elif kind < 0.5:
        body = "@" + rand_text(rng)
    elif kind < 0.6:
        body = rng.choice([b"", b"", b"\xef\xbb\xbf", b"\xef\xbb\xbf\xef\xbb\xbf"]) + rand_text(rng, 20).encode("utf-8", "surrogatepass") + rng.choice([b"", b"\xff\xfe", b"\xc3"])
    else:
        body = rng.choice(['{"a": "', "", "x="]) + rand_text(rng, 20, nul=for_model_only)
    url = "http://127.0.0.1/" + rand_text(rng, 10, nul=False)
    if rng.random() < 0.05:
        url = rng.choice(["", "-x", "--insecure", "a b"])
    return {
        "method": rng.choice(METHODS),
        "url": url,
        "body": body,
        "verify": rng.random() < 0.7,
        "headers": headers,
        "known": known,
    }


def body_text(body):
    if body is None:
        return None
    if isinstance(body, bytes):
        return body.decode("utf-8", errors="replace")
    return body


def c_req(r) -> tuple[str, str]:
    known = clist([cstr(k) for k in r["known"]], "str")
    b = body_text(r["body"])
    req = (
        "{| method := %s; url := %s; body := %s; verify := %s; headers := %s |}"
        % (
            cstr(r["method"]),
            cstr(r["url"]),
            copt(None if b is None else cstr(b), "str"),
            cbool(r["verify"]),
            clist([ctuple(cstr(k), cstr(str(v))) for k, v in r["headers"].items()], "(str * str)"),
        )
    )
    return known, req


def impl_generate(r) -> str:
    from schemathesis.core import curl

    return curl.generate(
        method=r["method"],
        url=r["url"],
        body=r["body"],
        verify=r["verify"],
        headers=dict(r["headers"]),
        known_generated_headers=dict(r["known"]),
    )


def dash_words(cmd: str):
    """What a POSIX shell makes of the command line (argv after the command name)."""
    script = 'curl() { printf "%s\\0" "$@"; }; ' + cmd
    try:
        p = subprocess.run(["dash", "-c", script.encode("utf-8")], capture_output=True, stdin=subprocess.DEVNULL, timeout=10)
    except (ValueError, UnicodeEncodeError):
        return None
    if p.returncode != 0:
        return ("error", p.stderr.decode("utf-8", "replace")[:200])
    parts = p.stdout.split(b"\0")
    assert parts[-1] == b""
    return [x.decode("utf-8", "replace") for x in parts[:-1]]


def canonical_model_sent(v):
    """Parsed curl_res -> canonical python value."""
    if isinstance(v, tuple) and v[0] == "CurlSends":
        s = v[1]
        return {
            "method": pstr(s["s_method"]),
            "url": pstr(s["s_url"]),
            "body": None if s["s_body"] is None else pstr(s["s_body"][1]),
            "headers": [(pstr(k), pstr(val)) for k, val in s["s_headers"]],
        }
    if isinstance(v, tuple) and v[0] == "CurlReadsFile":
        return {"reads_file": pstr(v[1])}
    return {"bad": str(v)}


NOISE = {"host", "user-agent", "accept", "content-length", "accept-encoding", "connection", "transfer-encoding", "x-schemathesis-testcaseid"}


def canonical_received(item, given_names):
    hs = []
    for k, v in item["headers"]:
        lk = k.lower()
        if lk in NOISE and lk not in given_names:
            continue
        if lk == "content-type" and "content-type" not in given_names:
            continue
        hs.append((lk, v.strip()))
    return {
        "method": item["method"],
        "target": item["target"],
        "headers": sorted(hs),
        "body": item["body"].decode("utf-8", "replace"),
    }


def region_of(r, known_names) -> str | None:
    """Python mirror of the model's region predicates (also evaluated in Coq on every failing input)."""
    from schemathesis.core.curl import get_excluded_headers

    for k, v in r["headers"].items():
        if k not in known_names and k in get_excluded_headers():
            continue
        if str(v) != "" and str(v).strip(" \t\n\x0b\x0c\r") == "":
            return "blank_header_value"
    b = body_text(r["body"])
    if b and b.startswith("@"):
        return "at_body"
    return None


# ----------------------------------------------------------------------------------------
def run(chk: core.Check):
    quick = chk.tier == "quick"
    chk.trusted = [
        "Coq 8.16.1 kernel, vm_compute (witness lemmas and model evaluation); no native_compute; no axioms",
        "hand-written model theories/C09/Model_C09.v of shlex.quote, curl.generate, POSIX sh word splitting "
        "(fragment generate can produce) and the semantics of curl -X/-H/-d/--insecure",
        "correspondence harness harness/props/c09.py (encoders, Coq output parser, canonicalisers, generators)",
        "dash 0.5 and curl 7.88.1 as the reference for the foreign semantics (validated per run, not assumed)",
    ]
    chk.assumptions = [
        "payload is text and header values are ASCII (property text); bytes bodies are read through decode('utf-8','replace') as the code does",
        "servers strip optional whitespace around header values identically for both requests",
    ]
    chk.rule = (
        "requests drawn from one PRNG (VERIF_SEED): method x URL x 0-4 headers (35% auto-header names in 3 casings, 15% blank values, "
        "values over shell metacharacters/unicode/NUL) x body (none/empty/@-prefixed/bytes incl. invalid UTF-8/text) x verify x known-generated subset; "
        "non-trivial = the command needs quoting (some argument has a character outside the shlex safe set); distinct by canonical JSON"
    )
    chk.proofs(["Common", "C09"])
    rng = chk.rng

    # ---- corpus + generated requests: generate / argv_of / sh_words / curl_sem vs implementation
    corpus = [json.loads(p.read_text()) for p in sorted((core.VERIF / "corpus" / "C09").glob("*.json"))]
    n = 600 if quick else 6000
    reqs = []
    for c in corpus:
        c = dict(c)
        if isinstance(c.get("body"), dict) and "bytes_hex" in c["body"]:
            c["body"] = bytes.fromhex(c["body"]["bytes_hex"])
        reqs.append(c)
    reqs += [gen_request(rng) for _ in range(n)]
    exprs = []
    for r in reqs:
        known, req = c_req(r)
        exprs.append(f"(generate {known} {req}, sh_words (generate {known} {req}), argv_of {known} {req}, curl_sem (argv_of {known} {req}))")
    model = core.coq_eval(IMPORTS, exprs)
    n_dash = 0
    for r, (m_cmd, m_words, m_argv, m_sem) in zip(reqs, model):
        try:
            impl = impl_generate(r)
        except Exception as exc:  # noqa: BLE001
            impl = f"raises {type(exc).__name__}"
        canon = {**r, "body": body_text(r["body"])}
        nontrivial = impl != " ".join(["curl", "-X", r["method"]]) and "'" in impl
        chk.seen(canon, nontrivial)
        chk.count("body:" + ("none" if r["body"] is None else type(r["body"]).__name__ + (":@" if body_text(r["body"]).startswith("@") else "")))
        chk.count(f"headers:{len(r['headers'])}")
        if pstr(m_cmd) != impl:
            chk.disagree("curl.generate vs Model_C09.generate", canon, impl, pstr(m_cmd))
            continue
        chk.sample({"request": canon, "command": impl})
        # the model's shell reading of the command vs the intended argv (theorem C09_command_words, re-checked by evaluation)
        words = None if m_words is None else [pstr(w) for w in m_words[1]]
        argv = [pstr(w) for w in m_argv]
        has_nul = "\x00" in impl
        if not has_nul and words != argv:
            chk.disagree("sh_words(generate) <> argv_of although no NUL", canon, impl, {"words": words, "argv": argv})
        # real shell on a sample
        if not has_nul and n_dash < (150 if quick else 1500):
            n_dash += 1
            real = dash_words(impl)
            if real is not None and real != argv[1:]:
                chk.disagree("real dash word splitting vs model argv_of", canon, real, argv[1:])
    chk.stages["correspondence_generate"] = {"cases": len(reqs), "corpus": len(corpus), "dash_runs": n_dash}

    # ---- validate the model of curl against the real binary, and search end to end
    rec = Recorder(lambda item: (200, [], b""))   # empty payloads: `curl -X HEAD` waits for Content-Length bytes that never come
    try:
        n_curl = 60 if quick else 600
        if chk.broken:
            n_curl *= 5
        curl_cases = []
        while len(curl_cases) < n_curl:
            r = gen_request(rng, for_model_only=False)
            if "\x00" in json.dumps(body_text(r["body"])) or r["url"] in ("", "-x", "--insecure", "a b"):
                continue
            # what requests would accept as header values: no leading blanks, no CR/LF, latin-1
            hs = {}
            for k, v in r["headers"].items():
                v = v.replace("\n", "").replace("\r", "").strip()
                try:
                    v.encode("ascii")
                except UnicodeEncodeError:
                    v = "u"
                hs[k] = v
            r["headers"] = hs
            path = "".join(ch for ch in r["url"][len("http://127.0.0.1/") :] if (ch.isalnum() and ord(ch) < 128) or ch in "%-._~=&?/")
            # automatic header names with arbitrary values (Content-Length: junk) only make curl/the server bail out
            r["headers"] = {k: v for k, v in r["headers"].items() if k.lower() not in NOISE}
            # curl removes dot segments and requests never produces them; not part of the modelled fragment
            path = "/".join(seg for seg in path.split("/") if seg not in (".", ".."))
            r["url"] = f"{rec.url}/{path}"
            curl_cases.append(r)
        exprs = []
        for r in curl_cases:
            known, req = c_req(r)
            exprs.append(f"curl_sem (argv_of {known} {req})")
        sems = core.coq_eval(IMPORTS, exprs)
        agree = 0
        for r, sem in zip(curl_cases, sems):
            cmd = impl_generate(r)
            msem = canonical_model_sent(sem)
            rec.take()
            p = subprocess.run(["dash", "-c", cmd + " -s -o /dev/null --max-time 10"], capture_output=True, stdin=subprocess.DEVNULL, timeout=30, cwd="/")
            got = rec.take()
            canon = {**r, "body": body_text(r["body"])}
            chk.seen({"curl": canon}, True)
            if "reads_file" in msem:
                # model: curl reads a file instead of sending the text.  Real curl: error 26 or empty/other body.
                if got and got[0]["body"].decode("utf-8", "replace") == body_text(r["body"]):
                    chk.disagree("curl -d @x: model says file is read, real curl sent the literal", canon, got[0]["body"][:80], msem)
                chk.fail("curl command does not re-send the body (leading @ reads a file)", canon, region="at_body")
                continue
            if "bad" in msem or len(got) != 1:
                chk.disagree("curl_sem vs real curl (no single request received)", canon, {"rc": p.returncode, "n": len(got), "stderr": p.stderr[-200:]}, msem)
                continue
            given = {k.lower() for k, _ in msem["headers"]}
            real = canonical_received(got[0], given)
            mod = {
                "method": msem["method"],
                "target": msem["url"][len(rec.url) :] or "/",
                "headers": sorted((k.lower(), v.strip()) for k, v in msem["headers"]),
                "body": msem["body"] or "",
            }
            if real != mod:
                chk.disagree("curl_sem vs real curl", canon, real, mod)
            else:
                agree += 1
        chk.stages["curl_model_validation"] = {"real_curl_runs": len(curl_cases), "agree": agree}

        # ---- end-to-end oracle: original request vs the request re-sent by the printed command
        e2e = end_to_end(chk, rec, (40 if quick else 500) * (10 if chk.broken else 1))
        chk.stages["end_to_end_search"] = e2e
    finally:
        rec.close()

    # ---- the command as PRINTED in the failure report ("Reproduce with:"), incl. multi-line payloads
    rec2 = Recorder()
    try:
        chk.stages["printed_report"] = printed_report(chk, rec2, (12 if quick else 120) * (5 if chk.broken else 1))
    finally:
        rec2.close()

    # ---- code samples as recorded by the engine, incl. requests derived inside checks
    chk.stages["engine_reports"] = engine_reports(chk, (6 if quick else 60) * (3 if chk.broken else 1))

    # ---- listed findings: replay canonical witnesses on the implementation
    for f in chk.findings:
        chk.known(f, witness_fails(f["witness"]))


E2E_METHODS = ["POST", "PUT", "PATCH", "DELETE", "GET", "HEAD", "OPTIONS", "TRACE"]


def build_schema(base_url):
    import schemathesis

    raw = {
        "openapi": "3.0.2",
        "info": {"title": "t", "version": "1"},
        "paths": {"/items/{id}": {}},
    }
    for method in E2E_METHODS:
        raw["paths"]["/items/{id}"][method.lower()] = {
            "parameters": [
                {"name": "id", "in": "path", "required": True, "schema": {"type": "string"}},
                {"name": "q", "in": "query", "schema": {"type": "string"}},
                {"name": "X-A", "in": "header", "schema": {"type": "string"}},
                {"name": "c", "in": "cookie", "schema": {"type": "string"}},
            ],
            "requestBody": {"content": {"application/json": {"schema": {}}, "text/plain": {"schema": {"type": "string"}},
                                        "application/x-www-form-urlencoded": {"schema": {"type": "object", "properties": {"a": {"type": "string"}, "b": {"type": "string"}}}}}},
            "responses": {"200": {"description": "ok"}},
        }
    schema = schemathesis.openapi.from_dict(raw)
    schema.configure(base_url=base_url)
    schema.output_config = schema.output_config.replace(sanitize=False)
    return schema


def e2e_once(rec, schema, parts):
    """Send the case, then run its printed reproduction command; return (original, replayed, command)."""
    from requests.structures import CaseInsensitiveDict

    from schemathesis.core import NOT_SET

    op = schema["/items/{id}"][parts.get("method", "POST")]
    kwargs = dict(
        path_parameters={"id": parts["id"]},
        query={"q": parts["q"]} if parts.get("q") is not None else None,
        headers=CaseInsensitiveDict(parts["headers"]) if parts.get("headers") is not None else None,
        cookies={"c": parts["cookie"]} if parts.get("cookie") is not None else None,
    )
    if parts.get("body") is not None:
        kwargs["body"] = parts["body"]
        kwargs["media_type"] = parts["media_type"]
    else:
        kwargs["body"] = NOT_SET
    case = op.Case(**kwargs)
    rec.take()
    response = case.call()
    first = rec.take()
    cmd = case.as_curl_command(headers=dict(response.request.headers), verify=True)
    p = subprocess.run(["dash", "-c", cmd + " -s -o /dev/null --max-time 10"], capture_output=True, stdin=subprocess.DEVNULL, timeout=30, cwd="/")
    second = rec.take()
    return first, second, cmd, p.returncode


def compare_e2e(first, second):
    if len(first) != 1 or len(second) != 1:
        return f"received {len(first)} original / {len(second)} replayed requests"
    a, b = first[0], second[0]
    names_a = {k.lower() for k, _ in a["headers"]}

    def vis(item):
        return sorted((k.lower(), v) for k, v in item["headers"] if k.lower() not in NOISE)

    if a["method"] != b["method"]:
        return f"method {a['method']} vs {b['method']}"
    if a["target"] != b["target"]:
        return f"url {a['target']!r} vs {b['target']!r}"
    if a["body"] != b["body"]:
        return f"body {a['body'][:60]!r} vs {b['body'][:60]!r}"
    va, vb = vis(a), vis(b)
    if "content-type" not in names_a:
        vb = [kv for kv in vb if kv[0] != "content-type"]
    if va != vb:
        return f"headers {va} vs {vb}"
    return None


E2E_CHARS = list("'\"\\ $`!*?()<>|&;#~=:%@+,-./{}[]") + ["é", "中"]


def e2e_region(parts) -> str | None:
    for v in (parts.get("headers") or {}).values():
        if v != "" and v.strip() == "":
            return "blank_header_value"
    b = parts.get("body")
    if isinstance(b, str) and parts.get("media_type") == "text/plain" and b.startswith("@"):
        return "at_body"
    return None


def end_to_end(chk, rec, n):
    schema = build_schema(rec.url)
    rng = chk.rng
    done = 0
    fails = 0
    for i in range(n):
        def t(maxlen=8):
            return "".join(rng.choice(E2E_CHARS) if rng.random() < 0.6 else rng.choice("abz09") for _ in range(rng.randint(0, maxlen)))

        hv = "".join(ch for ch in t() if ord(ch) < 128).strip()
        parts = {
            "id": t() or "x",
            "q": rng.choice([None, t()]),
            "headers": rng.choice([None, {"X-A": hv}, {"X-A": hv, "X-B": rng.choice(["", "1", "'"])}]),
            "cookie": rng.choice([None, "".join(ch for ch in t() if ord(ch) < 128 and ch not in '";,\\ ')]),
            "method": E2E_METHODS[i % len(E2E_METHODS)] if i < 2 * len(E2E_METHODS) else rng.choice(E2E_METHODS),
        }
        kind = rng.random()
        if i % 7 == 3 or kind < 0.1:
            # form payloads, the empty one included (it serializes to nothing: no -d in the command)
            parts["body"] = [{}, {"a": t()}, {"a": t(), "b": t()}][(i // 7) % 3] if i % 7 == 3 else rng.choice([{}, {"a": t()}])
            parts["media_type"] = "application/x-www-form-urlencoded"
        elif kind < 0.3:
            parts["body"] = None
        elif kind < 0.65:
            parts["body"] = rng.choice([{"a": t()}, [t(), 1, None], t(), 0, True])
            parts["media_type"] = "application/json"
        else:
            parts["body"] = rng.choice(["@", "", "x", "\ufeff", "\ufeff\ufeff"]) + t(16) if rng.random() < 0.6 else t(16)
            parts["media_type"] = "text/plain"
        if parts["id"] in (".", ".."):
            parts["id"] = "x"
        try:
            first, second, cmd, rc = e2e_once(rec, schema, parts)
        except Exception as exc:  # noqa: BLE001  (requests refusing a header etc.: not a replay question)
            chk.count(f"e2e_skipped:{type(exc).__name__}")
            continue
        done += 1
        chk.seen({"e2e": parts}, True)
        diff = compare_e2e(first, second)
        if diff is not None:
            fails += 1
            chk.fail(f"reproduction command sends a different request: {diff}", {"parts": parts, "command": cmd}, region=e2e_region(parts))
        elif i < 2:
            chk.sample({"e2e_case": parts, "command": cmd, "replayed_equal": True})
    return {"runs": done, "differences": fails}


def printed_report(chk, rec, n):
    """The text a user copies: the block after 'Reproduce with:' in the failure message produced by validate_response /
    format_failures.  It is executed verbatim by dash + curl and the request is compared with the original one."""
    from schemathesis.core.failures import Failure, FailureGroup

    schema = build_schema(rec.url)
    rng = chk.rng
    ops = [schema["/items/{id}"][m] for m in E2E_METHODS]
    done = bad = 0

    def always_fails(ctx, response, case):
        raise AssertionError("force a report")

    for i in range(n):
        op = ops[i % len(ops)]
        lines = rng.randint(1, 4)
        body = "\n".join(rng.choice(["", "a: 1", "  - x", "key:", "'q' \"d\" $HOME `id`", "\ttab", "    four"]) for _ in range(lines))
        if body.startswith("@") or body == "":
            body = "x" + body
        from requests.structures import CaseInsensitiveDict

        case = op.Case(path_parameters={"id": "r" + str(i)}, query={"q": rng.choice(["1", "a b", "x'y"])},
                       headers=CaseInsensitiveDict({"X-A": rng.choice(["v", "it's", 'say "hi"'])}), body=body, media_type="text/plain")
        rec.take()
        response = case.call()
        first = rec.take()
        try:
            case.validate_response(response, checks=[always_fails])
            continue
        except FailureGroup as exc:
            message = getattr(exc, "message", None) or str(exc)
        if "Reproduce with:" not in message:
            chk.fail("the failure report has no 'Reproduce with' block", {"body": body})
            continue
        block = message.split("Reproduce with:", 1)[1]
        # Model_C09.report_block: four spaces in front of the first line of the command, nothing else
        expected_block = " \n\n    " + case.as_curl_command(headers=dict(response.request.headers), verify=getattr(response, "verify", True))
        if not block.startswith(expected_block):
            chk.disagree("printed report block vs Model_C09.report_block (4 spaces + as_curl_command)", {"body": body}, block[:300], expected_block[:300])
        block = block.lstrip("\n ")
        # the block ends at the end of the message; the command's first line carries the report's indentation only
        cmd = block.rstrip("\n")
        p = subprocess.run(["dash", "-c", cmd + " -s -o /dev/null --max-time 10"], capture_output=True, stdin=subprocess.DEVNULL, timeout=30, cwd="/")
        second = rec.take()
        done += 1
        chk.seen({"printed": {"body": body}}, "\n" in body)
        chk.count("printed:lines:" + str(lines))
        diff = compare_e2e(first, second)
        if diff is not None:
            bad += 1
            chk.fail(f"the command printed in the failure report sends a different request: {diff}", {"body": body, "report_block": cmd[:400]})
    return {"runs": done, "differences": bad}


def _no_sanitize(schema):
    from schemathesis.core.output import OutputConfig

    schema.configure(output=OutputConfig(sanitize=False))


def engine_reports(chk, n):
    """Code samples as the ENGINE records them (what the CLI prints under "Reproduce with"): real unit-phase runs in which
    several checks fail on one generated case and some failures belong to requests derived inside a check (ignored_auth sends
    the request again without / with wrong credentials).  Every recorded code sample is executed by dash + curl and compared
    with the request that was originally sent under that test case id."""
    from harness.engine_util import run_engine

    rng = chk.rng
    done = bad = derived = 0
    for i in range(n):
        secret = rng.choice(["Bearer it's-a-secret", "Bearer a b", 'Bearer "q"', "Bearer $HOME"])
        in_header = rng.random() < 0.5
        scheme = {"type": "http", "scheme": "bearer"} if in_header else {"type": "apiKey", "in": "query", "name": "key"}
        raw = {
            "openapi": "3.0.2", "info": {"title": "t", "version": "1"},
            "components": {"securitySchemes": {"S": scheme}},
            "paths": {"/items/{id}": {"get": {
                "security": [{"S": []}],
                "parameters": [{"name": "id", "in": "path", "required": True, "schema": {"type": "string", "enum": [rng.choice(["a", "x y", "it's"])]}},
                               {"name": "q", "in": "query", "schema": {"type": "string", "enum": [rng.choice(["1", "a b", "x'y"])]}}],
                "responses": {"200": {"description": "ok", "content": {"application/json": {"schema": {
                    "type": "object", "required": ["id"], "properties": {"id": {"type": "integer"}}}}}}}}}},
        }

        def responder(item):
            # ignores authentication and violates the documented schema
            return 200, [("Content-Type", "application/json")], b'{"id": "not-an-integer"}'

        rec = Recorder(responder)
        try:
            headers = {"Authorization": secret} if in_header else {"X-A": secret}
            import schemathesis.specs.openapi.checks  # noqa: F401  (registers the OpenAPI checks)
            from schemathesis.checks import CHECKS

            evs, reqs = run_engine(raw, None, phases=["fuzzing"], workers=1, max_examples=rng.randint(1, 3), seed=i + 1, headers=headers,
                                   continue_on_failure=rng.random() < 0.5, rec=rec, checks=CHECKS.get_all(), configure=_no_sanitize)
            by_id = {}
            for r in reqs:
                for k, v in r["headers"]:
                    if k.lower() == "x-schemathesis-testcaseid":
                        by_id.setdefault(v, []).append(r)
            samples = []
            for ev in evs:
                recorder = getattr(ev, "recorder", None)
                if type(ev).__name__ != "ScenarioFinished" or recorder is None:
                    continue
                for case_id, nodes in recorder.checks.items():
                    for node in nodes:
                        if node.failure_info is not None:
                            samples.append((case_id, node.name, node.failure_info.code_sample, case_id not in {c for c in recorder.cases if recorder.cases[c].parent_id is None}))
            seen_cmd = set()
            for case_id, check_name, cmd, is_derived in samples:
                if (case_id, cmd) in seen_cmd:
                    continue
                seen_cmd.add((case_id, cmd))
                first = by_id.get(case_id, [])
                rec.take()
                subprocess.run(["dash", "-c", cmd + " -s -o /dev/null --max-time 10"], capture_output=True, stdin=subprocess.DEVNULL, timeout=30, cwd="/")
                second = rec.take()
                done += 1
                derived += bool(is_derived)
                chk.seen({"engine_report": {"check": check_name, "derived": bool(is_derived), "cmd": cmd[:200]}}, True)
                chk.count("engine_report:" + check_name + (":derived" if is_derived else ""))
                diff = compare_e2e(first[-1:], second) if first else f"no request was sent under test case id {case_id}"
                if diff is not None:
                    bad += 1
                    chk.fail(f"the code sample recorded for check {check_name} (case {'derived inside the check' if is_derived else 'generated'}) "
                             f"sends a different request: {diff}", {"engine_report": {"check": check_name, "command": cmd[:400], "seed": i + 1}})
        finally:
            rec.close()
    return {"code_samples_replayed": done, "of_derived_cases": derived, "differences": bad}


def witness_fails(w) -> bool:
    rec = Recorder(lambda item: (200, [], b""))   # empty payloads: `curl -X HEAD` waits for Content-Length bytes that never come
    try:
        schema = build_schema(rec.url)
        first, second, cmd, rc = e2e_once(rec, schema, w)
        return compare_e2e(first, second) is not None
    finally:
        rec.close()


def replay(payload) -> int:
    for f in payload.get("failing_inputs", []):
        parts = (f.get("input") or {}).get("parts")
        if parts:
            print("witness", parts, "->", "FAILS" if witness_fails(parts) else "passes")
    for b in payload.get("broken_obligations_or_correspondence", []):
        print("broken:", b.get("kind"), b.get("what"))
        if b.get("kind") == "correspondence" and isinstance(b.get("input"), dict) and "method" in b["input"]:
            r = b["input"]
            known, req = c_req(r)
            m = core.coq_eval(IMPORTS, [f"generate {known} {req}"])[0]
            print("  implementation:", impl_generate(r))
            print("  model         :", pstr(m))
    return 0
