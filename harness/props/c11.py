"""C11 - the engine event stream is a well-formed, properly nested protocol."""
from __future__ import annotations

import json

from harness import core
from harness.engine_util import demo_schema, default_responder, event_kind, run_engine
from harness.props import unit_lts as U

LEVEL = "proof"

RACE = {"kinds": ["ok"], "workers": 1, "cof": False, "maxf": None, "max_examples": 2,
        "schedule": ["W0"] * 7 + ["C", "C", "C"] + ["W0", "W0", "W0"] + ["C", "C", "C", "C", "C", "C", "C"]}
LIMIT = {"kinds": ["fail", "ok"], "workers": 2, "cof": False, "maxf": 1, "max_examples": 2,
         "schedule": ["W0", "W0", "W1", "W1", "W0", "W1"] + ["W0"] * 40 + ["C"] * 8}


def region(workers, maxf, defect) -> str | None:
    if defect and "never closed and no interruption" in defect and workers >= 2 and maxf is not None:
        return "failure_limit_multi_worker"
    return None


def run(chk: core.Check):
    quick = chk.tier == "quick"
    chk.trusted = [
        "Coq 8.16.1 kernel + vm_compute (witness lemmas, model evaluation); no axioms",
        "hand-written LTS Model_C11.v of unit.execute / worker_task / run_test / cached_test_func / ExecutionPlan; "
        "atomicity assumption: each put/get/flag read between two hook points is one atomic step (CPython queue.Queue, threading.Event)",
        "forced-schedule controller harness/sched.py + guarded hooks in /repo (SCHEMATHESIS_VERIF=1); behaviour discovery (number of "
        "test-function entries per operation is measured on the real engine, Hypothesis decides it)",
        "stateful phase: consumer loop (ModelS_C11, forced schedules) and producer thread execute_state_machine_loop (ModelP_C11: the real loop is "
        "driven by a scripted stand-in for Hypothesis' state-machine runner); what Hypothesis really does inside run() is an input of the model; "
        "probing is covered by the plan-level theorem and by the stream oracle only",
    ]
    chk.assumptions = ["Hypothesis calls the test function a number of times that depends only on seed, strategy and outcomes (deterministic per operation)",
                       "KeyboardInterrupt raised in the test body propagates through Hypothesis unchanged"]
    chk.rule = ("scenario = (behaviour kind per operation in {ok, fail, err, build}, workers 1-3, continue_on_failure, max_failures in {None,1,2}, "
                "max_examples 1-3, schedule = random list of thread labels C/W_i of length 8-70 with biased weights, optional Stop at a random position); "
                "non-trivial = at least two different threads move and at least one event is emitted; distinct by canonical JSON")
    chk.proofs(["Common", "C11"])
    rng = chk.rng
    corpus = [json.loads(p.read_text()) for p in sorted((core.VERIF / "corpus" / "C11").glob("*.json")) if not p.name.startswith(("plan_", "producer_"))]
    n = 24 if quick else 300
    scenarios = [dict(RACE), dict(LIMIT)] + [dict(c) for c in corpus] + [U.gen_scenario(rng) for _ in range(n)]
    records = U.run_scenarios(chk, scenarios, "forced schedules")
    # the complete streams of those runs (after the schedule everything runs freely) against the reference automaton
    bad = 0
    for rec in records:
        if "events" not in rec:
            continue
        sc = rec["scenario"]
        interrupted = "Stop" in sc["schedule"]
        for defect in U.stream_defects(rec["events"], interrupted):      # every defect on its own: a listed one must not hide another
            bad += 1
            chk.fail(f"event stream not well formed: {defect}", sc, region=region(sc["workers"], sc["maxf"], defect))
    chk.stages["forced_schedules"] = {"runs": len(records), "streams_not_wf": bad}

    # the consumer's exit condition, sub-step by sub-step
    def judge(sc, r):
        ds = [d for d in U.stream_defects(r["events"], False) if region(sc.get("workers", 1), sc.get("maxf"), d) is None]
        return None if not ds else f"event stream not well formed (exit-condition race search): {ds[0]}"

    chk.stages["exit_condition_race_search"] = U.race_search(chk, (9 if quick else 60) * (3 if chk.broken else 1), judge)

    # the stateful phase's consumer under forced schedules vs ModelS_C11 (one producer thread, its script measured on a free run)
    chk.stages["stateful_forced_schedules"] = stateful_stage(chk, (6 if quick else 60) * (3 if chk.broken else 1))

    # the stateful phase's producer thread: the real execute_state_machine_loop under a scripted Hypothesis vs ModelP_C11
    from harness.props import stateful_producer as SP

    chk.stages["stateful_producer"] = SP.stage(chk, (150 if quick else 3000) * (3 if chk.broken else 1))

    # the plan level: the real ExecutionPlan.execute over scripted phases (flags, escaping KeyboardInterrupt) vs ModelE_C11.eplan
    chk.stages["execution_plan"] = plan_stage(chk, (120 if quick else 3000) * (3 if chk.broken else 1))

    # the probing phase under every requests error class and odd API answers vs ModelE_C11.probing_phase
    chk.stages["probing_faults"] = probing_stage(chk, quick)

    # free multi-phase runs with a stop request at a random event index
    n_free = (8 if quick else 80) * (10 if chk.broken else 1)
    bad = 0
    for k in range(n_free):
        workers = rng.randint(1, 3)
        maxf = rng.choice([None, None, 1, 2])
        stop_at = rng.choice([None, None, rng.randint(0, 40)])
        fail_paths = rng.random() < 0.5

        def responder(item, fail_paths=fail_paths):
            if fail_paths and item["target"].startswith("/users/"):
                return 500, [("Content-Type", "application/json")], b"{}"
            return default_responder(item)

        seen = []

        def on_event(ev, stream, stop_at=stop_at, seen=seen):
            seen.append(ev)
            if stop_at is not None and len(seen) == stop_at + 1:
                stream.stop()

        cfg = {"workers": workers, "maxf": maxf, "stop_at": stop_at, "fail": fail_paths, "seed": k}
        evs, _ = run_engine(demo_schema(), responder, workers=workers, max_examples=2, max_failures=maxf, seed=k + 1,
                            on_event=on_event, phases=["probing", "examples", "coverage", "fuzzing", "stateful"])
        chk.seen({"free": cfg}, True)
        interrupted = stop_at is not None and stop_at < len(evs)
        for defect in U.stream_defects(evs, interrupted or maxf is not None and any(event_kind(e) == "Interrupted" for e in evs)):
            if maxf is not None and "not every phase" in defect:
                continue  # later phases are still opened and closed as skipped; checked by C12
            bad += 1
            chk.fail(f"event stream not well formed (free run): {defect}", cfg, region=region(workers, maxf, defect))
    chk.stages["free_runs"] = {"runs": n_free, "streams_not_wf": bad}

    for f in chk.findings:
        chk.known(f, witness_fails(f["witness"]))


_SCRIPTS: dict = {}


def stateful_script(seed: int, max_examples: int) -> list[str]:
    key = (seed, max_examples)
    if key not in _SCRIPTS:
        evs, _ = run_engine(demo_schema(), default_responder, phases=["stateful"], workers=1, max_examples=max_examples, seed=seed)
        kinds = [event_kind(e) for e in evs]
        a = kinds.index("SuiteStarted")
        b = len(kinds) - 1 - kinds[::-1].index("SuiteFinished")
        _SCRIPTS[key] = kinds[a : b + 1]
    return _SCRIPTS[key]


def stateful_stage(chk, n) -> dict:
    from harness.core import clist, cnat
    from harness.sched import run_forced

    rng = chk.rng
    KIND = {"SuiteStarted": 1, "ScenarioStarted": 2, "ScenarioFinished": 3, "SuiteFinished": 4, "NonFatalError": 5, "Interrupted": 6}
    cases = []
    for k in range(n):
        seed = rng.choice([1, 2, 3])
        me = rng.choice([1, 2])
        script = stateful_script(seed, me)
        length = rng.randint(6, 3 * len(script) + 10)
        w_c = rng.choice([1, 2, 3])
        sched = [rng.choices(["C", "S"], [w_c, 2])[0] for _ in range(length)]
        if rng.random() < 0.5:
            # let the producer finish while the consumer sits inside its exit test
            sched = ["S"] * rng.randint(0, 2) + ["C"] * rng.randint(2, 5) + ["S"] * (len(script) + 2) + ["C"] * (2 * len(script) + 8)
        cases.append({"seed": seed, "max_examples": me, "script": script, "schedule": sched, "arm_islive": rng.random() < 0.5})
    # model schedule: the real producer dies in the same release that performs its last put; the model needs one more step
    exprs = []
    for c in cases:
        puts = 0
        msched = []
        for lab in c["schedule"]:
            if lab == "C":
                msched.append("LC")
            else:
                msched.append("LS")
                if puts < len(c["script"]):
                    puts += 1
                    if puts == len(c["script"]):
                        msched.append("LS")
        c["model_schedule"] = msched
        script = clist([cnat(KIND.get(x, 9)) for x in c["script"]], "nat")
        exprs.append(f"(let '(log, s) := srun_log nat true {clist(msched, 'slabel')} (sinit nat {script}) in (log, strace nat s))")
    model = core.coq_eval(["C11.ModelS_C11"], exprs)
    bad = 0
    for c, (log, mtrace) in zip(cases, model):
        r = run_forced(demo_schema(), default_responder, c["schedule"], workers=1, phase="stateful", max_examples=c["max_examples"], seed=c["seed"],
                       tids=["C", "S"], arm_islive=c["arm_islive"])
        canon = {k: c[k] for k in ("seed", "max_examples", "schedule", "arm_islive")}
        chk.seen({"stateful": canon}, True)
        if r.get("error"):
            chk.disagree("stateful forced schedules: threads did not reach their first points", canon, r["error"], None)
            continue
        # align: one real arrival per schedule label; the model has an extra step after the producer's last put
        mi = 0
        puts = 0
        mism = None
        for k, (lab, a) in enumerate(zip(c["schedule"], r["arrivals"])):
            code = log[mi]
            mi += 1
            if lab == "S" and puts < len(c["script"]):
                puts += 1
                if puts == len(c["script"]):
                    code = log[mi]
                    mi += 1
            if arrive_code(a, lab) != code and not (c["arm_islive"] and a == "c_islive"):
                mism = {"step": k, "label": lab, "real_point": a, "model_code": code}
                break
            if c["arm_islive"] and a == "c_islive":
                # extra harness-side stop between the two tests of the exit condition: not a model step
                mism = "skip"
                break
        if mism == "skip":
            pass
        elif mism is not None:
            bad += 1
            chk.disagree("stateful forced schedules: program points (real engine vs ModelS_C11.srun_log)", canon, mism, log)
            continue
        else:
            real = [KIND.get(event_kind(e), 9) for e in r["prefix"] if event_kind(e) in KIND and getattr(getattr(e, "phase", None), "name", "") != "PROBING"
                    and not (event_kind(e) in ("ScenarioStarted", "ScenarioFinished", "SuiteStarted", "SuiteFinished") and e.phase.name != "STATEFUL_TESTING")]
            if real != list(mtrace):
                bad += 1
                chk.disagree("stateful forced schedules: events yielded when the schedule ends (real engine vs ModelS_C11.strace)", canon, real, list(mtrace))
                continue
        # the complete stream must be well formed and hold the whole script (nothing lost)
        kinds = [event_kind(e) for e in r["events"]]
        a = kinds.index("SuiteStarted") if "SuiteStarted" in kinds else None
        if a is None or kinds[a : len(kinds) - 1 - kinds[::-1].index("SuiteFinished") + 1] != c["script"]:
            bad += 1
            chk.fail("stateful phase: the stream does not hold exactly the events the state-machine thread produced", canon)
        d = U.stream_wf(r["events"], False)
        if d is not None:
            chk.fail(f"event stream not well formed (stateful forced schedule): {d}", canon)
    return {"runs": len(cases), "problems": bad}


def _all_subclasses(cls):
    out = []
    for sub in cls.__subclasses__():
        out.append(sub)
        out.extend(_all_subclasses(sub))
    return out


def probing_stage(chk, quick: bool) -> dict:
    """Engine runs (probing + fuzzing, one operation) in which the probe request meets: every subclass of requests.RequestException
    (raised by Session.send for the probe only), KeyboardInterrupt, and real odd answers of the API (redirect loop, broken gzip,
    redirect to another scheme, 400, 500).  The stream must be well formed, the PROBING phase closed once, with the status
    ModelE_C11.probing_phase says."""
    from unittest import mock

    import requests
    import urllib3

    rng = chk.rng
    classes = sorted({c for c in _all_subclasses(requests.RequestException)}, key=lambda c: c.__name__)
    behaviours = [("PbRequestError", c) for c in classes if c is not requests.exceptions.MissingSchema]
    behaviours += [("PbMissingSchema", requests.exceptions.MissingSchema), ("PbInterrupt", KeyboardInterrupt)]
    if quick:
        keep = [b for b in behaviours if b[1].__name__ in ("TooManyRedirects", "ContentDecodingError", "InvalidSchema", "ConnectionError", "ReadTimeout",
                                                           "ChunkedEncodingError", "SSLError", "InvalidHeader", "MissingSchema", "KeyboardInterrupt")]
        rest = [b for b in behaviours if b not in keep]
        rng.shuffle(rest)
        behaviours = keep + rest[:4]
    real_send = requests.Session.send
    exprs, obs = [], []

    def make_exc(cls):
        """An instance of the class whatever its constructor wants (requests' JSONDecodeError takes msg, doc, pos)."""
        if cls is KeyboardInterrupt:
            return KeyboardInterrupt()
        for args in (("injected on the probe request",), ("injected on the probe request", "doc", 0), ()):
            try:
                return cls(*args)
            except TypeError:
                continue
        return None

    behaviours = [b for b in behaviours if make_exc(b[1]) is not None]

    def run_one(kind, what, responder=None, patch_exc=None):
        def send(self, request, **kw):
            if patch_exc is not None and "X-Schemathesis-Probe" in request.headers:
                raise make_exc(patch_exc)
            return real_send(self, request, **kw)

        with mock.patch.object(requests.Session, "send", send):
            try:
                evs, _ = run_engine(U.schema_with_ops(1), responder or U.make_responder(["ok"]), phases=["probing", "fuzzing"], workers=1, max_examples=1, seed=1)
                err = None
            except BaseException as exc:  # the event stream itself raised: no EngineFinished
                evs, err = [], f"{type(exc).__name__}: {exc}"
        return evs, err

    def judge(kind, what, evs, err, model_expr):
        chk.seen({"probing": what}, True)
        if err is not None:
            chk.fail(f"probing: the event stream raised {err} - the phase was never closed and no EngineFinished was emitted", {"probe_meets": what})
            return
        d = U.stream_wf(evs, kind == "PbInterrupt")
        if d is not None:
            chk.fail(f"probing: event stream not well formed: {d}", {"probe_meets": what})
        st = [e.status.name for e in evs if event_kind(e) == "PhaseFinished" and e.phase.name.name == "PROBING"]
        exprs.append(model_expr)
        obs.append((what, st))

    for kind, cls in behaviours:
        evs, err = run_one(kind, cls.__name__, patch_exc=cls)
        judge(kind, cls.__name__, evs, err, f"(e_ki (probing_phase {kind}), e_status (probing_phase {kind}))")
    # real answers
    import gzip as _gzip

    def loop(item):
        return 302, [("Location", item["target"].rstrip("/") + "/x/")], b""

    def bad_gzip(item):
        return 200, [("Content-Encoding", "gzip"), ("Content-Type", "application/json")], b"not gzip at all"

    def to_ftp(item):
        return 302, [("Location", "ftp://127.0.0.1/x")], b""

    def probe_only(beh):
        def responder(item):
            hdrs = {k.lower() for k, _ in item["headers"]}
            if "x-schemathesis-probe" in hdrs:
                return beh(item)
            return U.make_responder(["ok"])(item)
        return responder

    for name, beh, kind in [("redirect_loop", loop, "PbRequestError"), ("corrupted_gzip", bad_gzip, "PbRequestError"), ("redirect_to_ftp", to_ftp, "PbRequestError"),
                            ("status_400", lambda item: (400, [], b""), "(PbResponse 400)"), ("status_500", lambda item: (500, [], b""), "(PbResponse 500)")]:
        evs, err = run_one(kind, name, responder=probe_only(beh))
        judge(kind, name, evs, err, f"(e_ki (probing_phase {kind}), e_status (probing_phase {kind}))")
    model = core.coq_eval(["C11.Model_C11", "C11.ModelE_C11"], exprs) if exprs else []
    bad = 0
    for (what, st), m in zip(obs, model):
        ki, mstatus = str(m[0]), str(m[1])
        expected = ["INTERRUPTED"] if ki == "KiBeforeFinish" else [mstatus]
        if st != expected:
            bad += 1
            chk.disagree("probing phase: PhaseFinished status (real engine vs ModelE_C11.probing_phase)", {"probe_meets": what}, st, expected)
    return {"behaviours": len(obs), "request_exception_classes": len(classes), "disagreements": bad}


def plan_case(rng) -> dict:
    phases = []
    for _ in range(rng.randint(1, 5)):
        phases.append({"enabled": rng.random() < 0.8, "body": rng.choice([0, 0, 1, 3]), "status": rng.choice(["SUCCESS", "FAILURE", "ERROR", "SKIP", "INTERRUPTED"]),
                       "stop": rng.random() < 0.15, "limit": rng.random() < 0.15, "ki": rng.choices(["none", "before", "after"], [8, 2, 1])[0]})
    return {"phases": phases, "stop0": rng.random() < 0.05}


def run_plan(case: dict) -> list:
    """The real ExecutionPlan.execute; engine.phases.execute is replaced by a scripted generator."""
    import threading
    from unittest import mock

    import hypothesis

    import schemathesis
    from schemathesis.engine import Status, events
    from schemathesis.engine import core as ecore
    from schemathesis.engine.config import EngineConfig, ExecutionConfig, NetworkConfig
    from schemathesis.engine.context import EngineContext
    from schemathesis.engine.phases import Phase, PhaseName, PhaseSkipReason

    names = [PhaseName.PROBING, PhaseName.EXAMPLES, PhaseName.COVERAGE, PhaseName.FUZZING, PhaseName.STATEFUL_TESTING]
    engine = EngineContext(schema=schemathesis.openapi.from_dict(demo_schema()), stop_event=threading.Event(),
                           config=EngineConfig(execution=ExecutionConfig(hypothesis_settings=hypothesis.settings(database=None)), network=NetworkConfig()))
    if case["stop0"]:
        engine.stop()
    plan = ecore.ExecutionPlan([Phase(name=names[i], is_supported=True, is_enabled=ph["enabled"]) for i, ph in enumerate(case["phases"])])

    def fake_execute(ctx, phase):
        ph = case["phases"][names.index(phase.name)]
        for _ in range(ph["body"]):
            yield events.SuiteStarted(phase=phase.name)
        if ph["stop"]:
            ctx.stop()
        if ph["limit"]:
            ctx.control.has_reached_the_failure_limit = True
        if ph["ki"] == "before":
            raise KeyboardInterrupt
        yield events.PhaseFinished(phase=phase, status=Status[ph["status"]], payload=None)
        if ph["ki"] == "after":
            raise KeyboardInterrupt

    out, nbody = [], {}
    with mock.patch.object(ecore.phases, "execute", fake_execute):
        for ev in plan.execute(engine):
            k = type(ev).__name__
            if k == "EngineStarted":
                out.append(["EvStart"])
            elif k == "EngineFinished":
                out.append(["EvFinish"])
            elif k == "Interrupted":
                out.append(["EvIntr"])
            elif k == "PhaseStarted":
                out.append(["EvPhaseStart", names.index(ev.phase.name)])
            elif k == "PhaseFinished":
                out.append(["EvPhaseFinish", names.index(ev.phase.name), ev.status.name, ev.phase.skip_reason == PhaseSkipReason.FAILURE_LIMIT_REACHED])
            else:
                i = names.index(ev.phase)
                out.append(["EvBody", i, nbody.get(i, 0)])
                nbody[i] = nbody.get(i, 0) + 1
    return out


def plan_wf_ref(evs: list) -> str | None:
    """The property text on canonical plan-level events (independent of the Coq checker)."""
    if not evs or evs[0] != ["EvStart"] or evs[-1] != ["EvFinish"] or sum(1 for e in evs if e[0] in ("EvStart", "EvFinish")) != 2:
        return "not exactly one start first and one finish last"
    open_, nxt = None, 0
    for e in evs[1:-1]:
        if e[0] == "EvPhaseStart":
            if open_ is not None or e[1] != nxt:
                return f"phase {e[1]} opened out of order / inside another phase"
            open_, nxt = e[1], nxt + 1
        elif e[0] == "EvPhaseFinish":
            if open_ != e[1]:
                return f"phase {e[1]} closed but not open"
            open_ = None
        elif e[0] == "EvBody" and open_ != e[1]:
            return f"event of phase {e[1]} outside its phase"
    if open_ is not None:
        return f"phase {open_} was opened and never closed"
    return None


def plan_stage(chk, n) -> dict:
    from harness.core import clist

    rng = chk.rng
    corpus = [json.loads(p.read_text()) for p in sorted((core.VERIF / "corpus" / "C11").glob("plan_*.json"))]
    cases = corpus + [plan_case(rng) for _ in range(n)]
    exprs = []
    for c in cases:
        phs = clist(["{| e_enabled := %s; e_body := %d; e_status := %s; e_stop := %s; e_limit := %s; e_ki := %s |}" % (
            str(ph["enabled"]).lower(), ph["body"], ph["status"], str(ph["stop"]).lower(), str(ph["limit"]).lower(),
            {"none": "KiNone", "before": "KiBeforeFinish", "after": "KiAfterFinish"}[ph["ki"]]) for ph in c["phases"]], "ephase")
        exprs.append(f"eplan true {phs} {str(c['stop0']).lower()}")
    model = core.coq_eval(["C11.Model_C11", "C11.ModelE_C11"], exprs)
    bad = 0
    for c, m in zip(cases, model):
        real = run_plan(c)
        mod = []
        for e in m:
            if isinstance(e, str):
                mod.append([e])
            else:
                mod.append([e[0]] + [x if isinstance(x, (int, bool)) else (str(x) == "true" if str(x) in ("true", "false") else str(x)) for x in e[1:]])
        chk.seen({"plan": c}, len(real) > 2)
        if real != mod:
            bad += 1
            chk.disagree("ExecutionPlan.execute over scripted phases vs ModelE_C11.eplan", c, real, mod)
        d = plan_wf_ref(real)
        if d is not None:
            bad += 1
            chk.fail(f"plan level: {d}", c)
    # end to end: Ctrl-C while the probing request is in flight (real engine, then the real CLI)
    from unittest import mock

    from schemathesis.engine.phases import probes

    from harness.cli_util import run_cli

    def ctrl_c(*a, **k):
        raise KeyboardInterrupt

    with mock.patch.object(probes, "run", ctrl_c):
        evs, _ = run_engine(demo_schema(), default_responder, phases=["probing", "fuzzing"], workers=1, max_examples=1, seed=1)
        d = U.stream_wf(evs, True)
        chk.seen({"probing_interrupt": "engine"}, True)
        if d is not None:
            bad += 1
            chk.fail(f"Ctrl-C during API probing: event stream not well formed: {d}", {"probing_interrupt": "engine"})
        r = run_cli(demo_schema(), default_responder, ["--phases=fuzzing", "--max-examples=1"])
        chk.seen({"probing_interrupt": "cli"}, True)
        if r["exception"] is not None or "Internal Error" in r["output"]:
            bad += 1
            chk.fail("Ctrl-C during API probing: the CLI report crashed", {"probing_interrupt": "cli"}, detail=r["output"][-400:])
    return {"runs": len(cases), "problems": bad, "with_escaping_interrupt": sum(1 for c in cases if any(p["ki"] != "none" for p in c["phases"]))}


def arrive_code(a: str, lab: str) -> int:
    if a == "stutter":
        return 6 if lab == "S" else 13
    return {"s_put": 3, "dead": 6, "c_get": 10, "c_alive": 12, "c_empty": 14, "c_done": 13}.get(a, -1)


def witness_fails(w) -> bool:
    """Replays a forced schedule on the real engine; the witness fails if the stream is not well formed."""
    if "phases" in w:
        return plan_wf_ref(run_plan(w)) is not None
    sc = dict(w)
    sc["ops"] = U.discover(tuple(sc["kinds"]), sc["max_examples"], sc["cof"])
    from harness.sched import run_forced

    r = run_forced(U.schema_with_ops(len(sc["kinds"])), U.make_responder(list(sc["kinds"])), sc["schedule"], workers=sc["workers"],
                   max_examples=sc["max_examples"], max_failures=sc["maxf"], continue_on_failure=sc["cof"], fault=U.make_fault(list(sc["kinds"])))
    return U.stream_wf(r["events"], "Stop" in sc["schedule"]) is not None


def replay(payload) -> int:
    for f in payload.get("failing_inputs", []) + payload.get("broken_obligations_or_correspondence", []):
        sc = f.get("input")
        if isinstance(sc, dict) and "schedule" in sc:
            print("schedule", sc, "->", "stream NOT well formed" if witness_fails(sc) else "stream well formed")
        else:
            print(f.get("what"), sc)
    return 0
