"""C11 - the engine event stream is a well-formed, properly nested protocol."""
from __future__ import annotations

import json

from harness import core
from harness.engine_util import demo_schema, default_responder, event_kind, run_engine
from harness.props import unit_lts as U

LEVEL = "proof"

RACE = {"kinds": ["ok"], "workers": 1, "cof": False, "maxf": None, "max_examples": 2,
        "schedule": ["W0"] * 7 + ["C", "C", "C"] + ["W0", "W0", "W0"] + ["C", "C", "C", "C", "C", "C", "C"]}
LIMIT = {"kinds": ["fail", "ok"], "workers": 2, "cof": False, "maxf": 1, "max_examples": 2,
         "schedule": ["W0", "W0", "W1", "W1", "W0", "W1"] + ["W0"] * 40 + ["C"] * 8}


def region(workers, maxf, defect) -> str | None:
    if defect and "never closed and no interruption" in defect and workers >= 2 and maxf is not None:
        return "failure_limit_multi_worker"
    return None


def run(chk: core.Check):
    quick = chk.tier == "quick"
    chk.trusted = [
        "Coq 8.16.1 kernel + vm_compute (witness lemmas, model evaluation); no axioms",
        "hand-written LTS Model_C11.v of unit.execute / worker_task / run_test / cached_test_func / ExecutionPlan; "
        "atomicity assumption: each put/get/flag read between two hook points is one atomic step (CPython queue.Queue, threading.Event)",
        "forced-schedule controller harness/sched.py + guarded hooks in /repo (SCHEMATHESIS_VERIF=1); behaviour discovery (number of "
        "test-function entries per operation is measured on the real engine, Hypothesis decides it)",
        "stateful phase: consumer loop (ModelS_C11, forced schedules) and producer thread execute_state_machine_loop (ModelP_C11: the real loop is "
        "driven by a scripted stand-in for Hypothesis' state-machine runner); what Hypothesis really does inside run() is an input of the model; "
        "probing is covered by the plan-level theorem and by the stream oracle only",
    ]
    chk.assumptions = ["Hypothesis calls the test function a number of times that depends only on seed, strategy and outcomes (deterministic per operation)",
                       "KeyboardInterrupt raised in the test body propagates through Hypothesis unchanged"]
    chk.rule = ("scenario = (behaviour kind per operation in {ok, fail, err, build}, workers 1-3, continue_on_failure, max_failures in {None,1,2}, "
                "max_examples 1-3, schedule = random list of thread labels C/W_i of length 8-70 with biased weights, optional Stop at a random position); "
                "non-trivial = at least two different threads move and at least one event is emitted; distinct by canonical JSON")
    chk.proofs(["Common", "C11"])
    rng = chk.rng
    corpus = [json.loads(p.read_text()) for p in sorted((core.VERIF / "corpus" / "C11").glob("*.json"))]
    n = 24 if quick else 300
    scenarios = [dict(RACE), dict(LIMIT)] + [dict(c) for c in corpus] + [U.gen_scenario(rng) for _ in range(n)]
    records = U.run_scenarios(chk, scenarios, "forced schedules")
    # the complete streams of those runs (after the schedule everything runs freely) against the reference automaton
    bad = 0
    for rec in records:
        if "events" not in rec:
            continue
        sc = rec["scenario"]
        interrupted = "Stop" in sc["schedule"]
        defect = U.stream_wf(rec["events"], interrupted)
        if defect is not None:
            bad += 1
            chk.fail(f"event stream not well formed: {defect}", sc, region=region(sc["workers"], sc["maxf"], defect))
    chk.stages["forced_schedules"] = {"runs": len(records), "streams_not_wf": bad}

    # the consumer's exit condition, sub-step by sub-step
    def judge(sc, r):
        d = U.stream_wf(r["events"], False)
        return None if d is None else f"event stream not well formed (exit-condition race search): {d}"

    chk.stages["exit_condition_race_search"] = U.race_search(chk, (9 if quick else 60) * (3 if chk.broken else 1), judge)

    # the stateful phase's consumer under forced schedules vs ModelS_C11 (one producer thread, its script measured on a free run)
    chk.stages["stateful_forced_schedules"] = stateful_stage(chk, (6 if quick else 60) * (3 if chk.broken else 1))

    # the stateful phase's producer thread: the real execute_state_machine_loop under a scripted Hypothesis vs ModelP_C11
    from harness.props import stateful_producer as SP

    chk.stages["stateful_producer"] = SP.stage(chk, (150 if quick else 3000) * (3 if chk.broken else 1))

    # free multi-phase runs with a stop request at a random event index
    n_free = (8 if quick else 80) * (10 if chk.broken else 1)
    bad = 0
    for k in range(n_free):
        workers = rng.randint(1, 3)
        maxf = rng.choice([None, None, 1, 2])
        stop_at = rng.choice([None, None, rng.randint(0, 40)])
        fail_paths = rng.random() < 0.5

        def responder(item, fail_paths=fail_paths):
            if fail_paths and item["target"].startswith("/users/"):
                return 500, [("Content-Type", "application/json")], b"{}"
            return default_responder(item)

        seen = []

        def on_event(ev, stream, stop_at=stop_at, seen=seen):
            seen.append(ev)
            if stop_at is not None and len(seen) == stop_at + 1:
                stream.stop()

        cfg = {"workers": workers, "maxf": maxf, "stop_at": stop_at, "fail": fail_paths, "seed": k}
        evs, _ = run_engine(demo_schema(), responder, workers=workers, max_examples=2, max_failures=maxf, seed=k + 1,
                            on_event=on_event, phases=["probing", "examples", "coverage", "fuzzing", "stateful"])
        chk.seen({"free": cfg}, True)
        interrupted = stop_at is not None and stop_at < len(evs)
        defect = U.stream_wf(evs, interrupted or maxf is not None and any(event_kind(e) == "Interrupted" for e in evs))
        if defect is not None and maxf is not None and "not every phase" in defect:
            defect = None  # later phases are still opened and closed as skipped; checked by C12
        if defect is not None:
            bad += 1
            chk.fail(f"event stream not well formed (free run): {defect}", cfg, region=region(workers, maxf, defect))
    chk.stages["free_runs"] = {"runs": n_free, "streams_not_wf": bad}

    for f in chk.findings:
        chk.known(f, witness_fails(f["witness"]))


_SCRIPTS: dict = {}


def stateful_script(seed: int, max_examples: int) -> list[str]:
    key = (seed, max_examples)
    if key not in _SCRIPTS:
        evs, _ = run_engine(demo_schema(), default_responder, phases=["stateful"], workers=1, max_examples=max_examples, seed=seed)
        kinds = [event_kind(e) for e in evs]
        a = kinds.index("SuiteStarted")
        b = len(kinds) - 1 - kinds[::-1].index("SuiteFinished")
        _SCRIPTS[key] = kinds[a : b + 1]
    return _SCRIPTS[key]


def stateful_stage(chk, n) -> dict:
    from harness.core import clist, cnat
    from harness.sched import run_forced

    rng = chk.rng
    KIND = {"SuiteStarted": 1, "ScenarioStarted": 2, "ScenarioFinished": 3, "SuiteFinished": 4, "NonFatalError": 5, "Interrupted": 6}
    cases = []
    for k in range(n):
        seed = rng.choice([1, 2, 3])
        me = rng.choice([1, 2])
        script = stateful_script(seed, me)
        length = rng.randint(6, 3 * len(script) + 10)
        w_c = rng.choice([1, 2, 3])
        sched = [rng.choices(["C", "S"], [w_c, 2])[0] for _ in range(length)]
        if rng.random() < 0.5:
            # let the producer finish while the consumer sits inside its exit test
            sched = ["S"] * rng.randint(0, 2) + ["C"] * rng.randint(2, 5) + ["S"] * (len(script) + 2) + ["C"] * (2 * len(script) + 8)
        cases.append({"seed": seed, "max_examples": me, "script": script, "schedule": sched, "arm_islive": rng.random() < 0.5})
    # model schedule: the real producer dies in the same release that performs its last put; the model needs one more step
    exprs = []
    for c in cases:
        puts = 0
        msched = []
        for lab in c["schedule"]:
            if lab == "C":
                msched.append("LC")
            else:
                msched.append("LS")
                if puts < len(c["script"]):
                    puts += 1
                    if puts == len(c["script"]):
                        msched.append("LS")
        c["model_schedule"] = msched
        script = clist([cnat(KIND.get(x, 9)) for x in c["script"]], "nat")
        exprs.append(f"(let '(log, s) := srun_log nat true {clist(msched, 'slabel')} (sinit nat {script}) in (log, strace nat s))")
    model = core.coq_eval(["C11.ModelS_C11"], exprs)
    bad = 0
    for c, (log, mtrace) in zip(cases, model):
        r = run_forced(demo_schema(), default_responder, c["schedule"], workers=1, phase="stateful", max_examples=c["max_examples"], seed=c["seed"],
                       tids=["C", "S"], arm_islive=c["arm_islive"])
        canon = {k: c[k] for k in ("seed", "max_examples", "schedule", "arm_islive")}
        chk.seen({"stateful": canon}, True)
        if r.get("error"):
            chk.disagree("stateful forced schedules: threads did not reach their first points", canon, r["error"], None)
            continue
        # align: one real arrival per schedule label; the model has an extra step after the producer's last put
        mi = 0
        puts = 0
        mism = None
        for k, (lab, a) in enumerate(zip(c["schedule"], r["arrivals"])):
            code = log[mi]
            mi += 1
            if lab == "S" and puts < len(c["script"]):
                puts += 1
                if puts == len(c["script"]):
                    code = log[mi]
                    mi += 1
            if arrive_code(a, lab) != code and not (c["arm_islive"] and a == "c_islive"):
                mism = {"step": k, "label": lab, "real_point": a, "model_code": code}
                break
            if c["arm_islive"] and a == "c_islive":
                # extra harness-side stop between the two tests of the exit condition: not a model step
                mism = "skip"
                break
        if mism == "skip":
            pass
        elif mism is not None:
            bad += 1
            chk.disagree("stateful forced schedules: program points (real engine vs ModelS_C11.srun_log)", canon, mism, log)
            continue
        else:
            real = [KIND.get(event_kind(e), 9) for e in r["prefix"] if event_kind(e) in KIND and getattr(getattr(e, "phase", None), "name", "") != "PROBING"
                    and not (event_kind(e) in ("ScenarioStarted", "ScenarioFinished", "SuiteStarted", "SuiteFinished") and e.phase.name != "STATEFUL_TESTING")]
            if real != list(mtrace):
                bad += 1
                chk.disagree("stateful forced schedules: events yielded when the schedule ends (real engine vs ModelS_C11.strace)", canon, real, list(mtrace))
                continue
        # the complete stream must be well formed and hold the whole script (nothing lost)
        kinds = [event_kind(e) for e in r["events"]]
        a = kinds.index("SuiteStarted") if "SuiteStarted" in kinds else None
        if a is None or kinds[a : len(kinds) - 1 - kinds[::-1].index("SuiteFinished") + 1] != c["script"]:
            bad += 1
            chk.fail("stateful phase: the stream does not hold exactly the events the state-machine thread produced", canon)
        d = U.stream_wf(r["events"], False)
        if d is not None:
            chk.fail(f"event stream not well formed (stateful forced schedule): {d}", canon)
    return {"runs": len(cases), "problems": bad}


def arrive_code(a: str, lab: str) -> int:
    if a == "stutter":
        return 6 if lab == "S" else 13
    return {"s_put": 3, "dead": 6, "c_get": 10, "c_alive": 12, "c_empty": 14, "c_done": 13}.get(a, -1)


def witness_fails(w) -> bool:
    """Replays a forced schedule on the real engine; the witness fails if the stream is not well formed."""
    sc = dict(w)
    sc["ops"] = U.discover(tuple(sc["kinds"]), sc["max_examples"], sc["cof"])
    from harness.sched import run_forced

    r = run_forced(U.schema_with_ops(len(sc["kinds"])), U.make_responder(list(sc["kinds"])), sc["schedule"], workers=sc["workers"],
                   max_examples=sc["max_examples"], max_failures=sc["maxf"], continue_on_failure=sc["cof"], fault=U.make_fault(list(sc["kinds"])))
    return U.stream_wf(r["events"], "Stop" in sc["schedule"]) is not None


def replay(payload) -> int:
    for f in payload.get("failing_inputs", []) + payload.get("broken_obligations_or_correspondence", []):
        sc = f.get("input")
        if isinstance(sc, dict) and "schedule" in sc:
            print("schedule", sc, "->", "stream NOT well formed" if witness_fails(sc) else "stream well formed")
        else:
            print(f.get("what"), sc)
    return 0
