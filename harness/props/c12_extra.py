"""C12 - unique inputs and rate limit: correspondence of ModelU_C12 / ModelR_C12 with the implementation.

unique_stage: EngineContext.get_cached_outcome / cache_outcome are wrapped (harness side, nothing in /repo) so that every
lookup and every store is logged with the calling thread.  The log gives the workers' case sequences and the interleaving;
the model replays exactly that interleaving and must give the same lookup results and the same sequence of sends; the
ownership hypothesis of C12_unique_never_sent_twice is checked on the log; the requests received by the API must be as many
as the sends and pairwise different.

rate_stage: pyrate_limiter.Limiter.try_acquire is wrapped to log the grant times; the model's sliding-window guard must accept
every grant of the real limiter (interval shortened by a logging tolerance), every request must have passed the limiter, and
the API-side windows must obey the bound of C12_rate_seen_window_bound.
"""
from __future__ import annotations

import threading
import time
from collections import Counter

from harness import core
from harness.core import cN, clist, cnat, ctuple
from harness.engine_util import run_engine
from harness.props import unit_lts as U

IMPORTS_U = ["C12.ModelU_C12"]
IMPORTS_R = ["C12.ModelR_C12"]


def ckey(k):
    return ctuple(cnat(k[0]), cN(k[1]))


def unique_schema(n_ops, rng):
    raw = U.schema_with_ops(n_ops)
    for path in raw["paths"].values():
        hi = rng.choice([2, 3, 4])
        path["get"]["parameters"][0]["schema"] = {"type": "integer", "minimum": 1, "maximum": hi}
        if rng.random() < 0.5:
            path["get"]["parameters"].append({"name": "q", "in": "query", "schema": {"type": "boolean"}})
    return raw


class CacheLog:
    """Wraps the two cache methods of EngineContext for the duration of a run."""

    def __init__(self):
        self.events = []
        self.lock = threading.Lock()

    def __enter__(self):
        from schemathesis.engine.context import EngineContext

        self.cls = EngineContext
        self.orig_get, self.orig_put = EngineContext.get_cached_outcome, EngineContext.cache_outcome
        log = self

        def get(ctx, case):
            res = log.orig_get(ctx, case)
            kind = "HitExc" if isinstance(res, BaseException) else ("HitOk" if res is None else "Miss")
            with log.lock:
                log.events.append(("lookup", threading.get_ident(), case.operation.path, hash(case), kind))
            return res

        def put(ctx, case, outcome):
            with log.lock:
                log.events.append(("store", threading.get_ident(), case.operation.path, hash(case), outcome is not None))
            return log.orig_put(ctx, case, outcome)

        EngineContext.get_cached_outcome = get
        EngineContext.cache_outcome = put
        return self

    def __exit__(self, *exc):
        self.cls.get_cached_outcome = self.orig_get
        self.cls.cache_outcome = self.orig_put
        return False


def unique_stage(chk: core.Check, n: int):
    rng = chk.rng
    stats = Counter()
    runs = []
    for k in range(n):
        workers = rng.randint(1, 3)
        n_ops = rng.randint(1, 4)
        kinds = [rng.choice(["ok", "ok", "fail"]) for _ in range(n_ops)]
        phases = rng.choice([["fuzzing"], ["coverage", "fuzzing"], ["examples", "coverage", "fuzzing"]])
        raw = unique_schema(n_ops, rng)
        cfg = {"unique_inputs": True, "workers": workers, "ops": n_ops, "kinds": kinds, "phases": phases, "seed": k}
        with CacheLog() as log:
            evs, reqs = run_engine(raw, U.make_responder(kinds), phases=phases, workers=workers, max_examples=rng.randint(5, 20), seed=k,
                                   unique_inputs=True, continue_on_failure=rng.random() < 0.5)
        events = list(log.events)
        tids, hashes = {}, {}
        scripts, sched, excs, lookups, stores = [], [], [], [], []
        for ev in events:
            tids.setdefault(ev[1], len(tids))
            op = U.op_index(ev[2])
            # the model's worker is "whoever handles this operation": within a phase one thread, phases follow one another
            w = op if op is not None else 99
            key = (w, hashes.setdefault((ev[2], ev[3]), len(hashes)))
            while len(scripts) <= w:
                scripts.append([])
            if ev[0] == "lookup":
                scripts[w].append(key)
                sched.append(("ULookup", w))
                lookups.append((w, key, ev[4]))
            else:
                sched.append(("USend", w))
                stores.append(key)
                if ev[4]:
                    excs.append(key)
        hits = sum(1 for x in lookups if x[2] != "Miss")
        stats["lookups"] += len(lookups)
        stats["hits"] += hits
        stats["stores"] += len(stores)
        chk.seen(cfg, hits > 0)
        # the hypothesis `owned` holds by construction (worker = operation); that no two threads interleave on one operation
        # shows in the lookup log: the model stutters on a lookup while a send is pending, the implementation would not
        stats["threads"] = max(stats["threads"], len(tids))
        # what the API saw
        sent_reqs = [r for r in reqs if U.op_index(r["target"]) is not None]
        dup = [t for t, c in Counter((r["method"], r["target"], r["body"]) for r in sent_reqs).items() if c > 1]
        if dup:
            chk.fail(f"the same request was sent twice with unique_inputs ({len(dup)} duplicate(s), {workers} worker(s))", {**cfg, "dup": str(dup[:2])})
        if len(sent_reqs) != len(stores):
            chk.disagree("unique inputs: requests received by the API vs outcomes stored in the cache", cfg, len(sent_reqs), len(stores))
        runs.append((cfg, scripts, sched, excs, lookups, stores))
    exprs = []
    for cfg, scripts, sched, excs, lookups, stores in runs:
        c_scripts = clist([clist([ckey(x) for x in s], "key") for s in scripts], "list key")
        c_sched = clist([f"{lab} {cnat(w)}" for lab, w in sched], "ulabel")
        c_excs = clist([ckey(x) for x in excs], "key")
        exprs.append(f"uobs (urun (out_of {c_excs}) {c_sched} (uinit (scripts_of {c_scripts})))")
    model = core.coq_eval(IMPORTS_U, exprs) if exprs else []
    agree = 0
    for (cfg, scripts, sched, excs, lookups, stores), m in zip(runs, model):
        m_log = [(int(w), (int(k[0]), int(k[1])), str(res)) for (w, k, res) in m[0]]
        m_sent = [(int(k[0]), int(k[1])) for k in m[1]]
        if m_log != lookups:
            first = next((i for i, (a, b) in enumerate(zip(m_log, lookups)) if a != b), min(len(m_log), len(lookups)))
            chk.disagree("get_cached_outcome results vs ModelU_C12.urun (lookup log)", cfg,
                         {"at": first, "impl": lookups[first:first + 3]}, {"model": m_log[first:first + 3]})
        elif m_sent != stores:
            chk.disagree("sends (cache_outcome order) vs ModelU_C12.urun (u_sent)", cfg, stores[:10], m_sent[:10])
        else:
            agree += 1
    return {"runs": n, "agree": agree, **dict(stats)}


def cache_refinement_stage(chk: core.Check, n_small: int, big: int):
    """EngineContext.cache_outcome / get_cached_outcome on a real EngineContext as an abstract map.
    (a) random store/lookup histories vs the regenerated Gen_C12.gen_cache_outcome / gen_get_cached_outcome evaluated in Coq;
    (b) a long history of `big` distinct stores after which every stored key must still be found - a miss means the case would be
        sent a second time with unique_inputs (concrete failing input: the history length and the key)."""
    import threading as _t

    import hypothesis

    import schemathesis
    from schemathesis.core import NOT_SET
    from schemathesis.engine.config import EngineConfig, ExecutionConfig, NetworkConfig
    from schemathesis.engine.context import EngineContext
    from harness.engine_util import demo_schema

    rng = chk.rng

    class K:            # stands for a Case: the cache only uses hash(case)
        __slots__ = ("h",)

        def __init__(self, h):
            self.h = h

        def __hash__(self):
            return self.h

    def fresh():
        return EngineContext(schema=schemathesis.openapi.from_dict(demo_schema()), stop_event=_t.Event(),
                             config=EngineConfig(execution=ExecutionConfig(hypothesis_settings=hypothesis.settings(database=None), unique_inputs=True),
                                                 network=NetworkConfig()))

    exc = RuntimeError("x")
    hist, obs = [], []
    for _ in range(n_small):
        ctx = fresh()
        nkeys = rng.choice([3, 8, 40, 400])
        ops = []
        for _ in range(rng.choice([10, 60, 300, 1500])):
            k = rng.randrange(nkeys)
            if rng.random() < 0.55:
                o = rng.random() < 0.3
                ctx.cache_outcome(K(k), exc if o else None)
                ops.append(("S", k, o))
            else:
                r = ctx.get_cached_outcome(K(k))
                ops.append(("L", k, "Miss" if r is NOT_SET else ("HitExc" if isinstance(r, BaseException) else "HitOk")))
        hist.append(ops)
    exprs = []
    for ops in hist:
        items = []
        for o in ops:
            if o[0] == "S":
                items.append(f"(inl ((0, {o[1]}%N), {'OExc' if o[2] else 'OOk'}))")
            else:
                items.append(f"(inr (0, {o[1]}%N))")
        exprs.append("(rev (snd (fold_left (fun (st : list (key * outcome) * list (option outcome)) (op : (key * outcome) + key) => "
                     "match op with inl (k, v) => (gen_cache_outcome (fst st) k v, snd st) "
                     "| inr k => (fst st, gen_get_cached_outcome key_eqb (fst st) k :: snd st) end) "
                     f"{clist(items, '(key * outcome) + key')} (nil, nil))))")
    model = core.coq_eval(["C12.ModelU_C12", "C12.Gen_C12"], exprs) if exprs else []
    bad = 0
    for ops, m in zip(hist, model):
        real = [o[2] for o in ops if o[0] == "L"]
        mod = []
        for x in m:
            mod.append("Miss" if x in ("None", None) else {"OOk": "HitOk", "OExc": "HitExc"}[str(x[1]) if isinstance(x, tuple) else str(x).replace("Some ", "")])
        chk.seen({"cache_history": [len(ops), sum(1 for o in ops if o[0] == "S")]}, len(real) > 0)
        if real != mod:
            bad += 1
            first = next((i for i, (a, b) in enumerate(zip(real, mod)) if a != b), 0)
            chk.disagree("outcome cache: get_cached_outcome on a real EngineContext vs Gen_C12 (store/lookup history)",
                         {"ops": len(ops), "first_difference_at_lookup": first}, real[first:first + 3], mod[first:first + 3])
    # (b) nothing is ever forgotten
    ctx = fresh()
    lost = None
    step = max(1, big // 50)
    for i in range(big):
        ctx.cache_outcome(K(i), None)
        if i % step == 0 or i == big - 1:
            probe = [0, i // 2, i] + [rng.randrange(i + 1) for _ in range(5)]
            for k in probe:
                if ctx.get_cached_outcome(K(k)) is NOT_SET:
                    lost = {"stored_distinct_cases": i + 1, "case_not_found_again": k}
                    break
        if lost:
            break
    chk.seen({"cache_soak": big}, True)
    if lost:
        chk.fail("unique_inputs: an outcome stored in the cache is not found again - the same request would be sent twice", lost)
    return {"histories": len(hist), "disagreements": bad, "soak_stores": big, "lost": lost}


def settings_stage(chk: core.Check, n: int, n_engine: int):
    """create_test's merge of the configured Hypothesis settings under a LOADED (non-stock) Hypothesis profile vs ModelH_C12.effective,
    and the property itself: the test runs with the configured max_examples / stateful_step_count, and the fuzzing phase sends at
    most max_examples cases for an operation on which nothing fails."""
    import datetime

    import hypothesis

    import schemathesis
    from schemathesis.generation import GenerationConfig
    from schemathesis.generation.hypothesis.builder import SETTINGS_ATTRIBUTE_NAME, HypothesisTestConfig, HypothesisTestMode, create_test

    rng = chk.rng
    raw = U.schema_with_ops(1)
    DEADLINES = [None, 200, 500, 15000]          # ms; 200 is Hypothesis' stock default
    stock = hypothesis.settings.get_profile("default")

    def ms(d):
        return 0 if d is None else (int(d.total_seconds() * 1000) if isinstance(d, datetime.timedelta) else int(d)) // 100    # units of 100 ms

    def vec(st):
        return [st.max_examples, ms(st.deadline), st.stateful_step_count, 1 if st.derandomize else 0]

    cases = []
    for k in range(n):
        prof = {"max_examples": rng.choice([100, 100, 10, 240, 37]), "deadline": rng.choice(DEADLINES), "stateful_step_count": rng.choice([50, 6, 80]),
                "derandomize": rng.random() < 0.2}
        conf = {"max_examples": rng.choice([100, 100, prof["max_examples"], 5, 240, 60]), "deadline": rng.choice(DEADLINES + [prof["deadline"]]),
                "stateful_step_count": rng.choice([50, prof["stateful_step_count"], 6, 20]), "derandomize": rng.choice([prof["derandomize"], False, True])}
        cases.append({"profile": prof, "configured": conf})
    exprs, obs = [], []
    for c in cases:
        name = "verif_profile"
        hypothesis.settings.register_profile(name, database=None, **c["profile"])
        hypothesis.settings.load_profile(name)
        try:
            active = hypothesis.settings.default
            configured = hypothesis.settings(database=None, **c["configured"])
            schema = schemathesis.openapi.from_dict(raw)
            op = schema["/r0/{id}"]["GET"]

            def test_func(case):
                pass

            test = create_test(operation=op, test_func=test_func,
                               config=HypothesisTestConfig(generation=GenerationConfig(), modes=[HypothesisTestMode.FUZZING], settings=configured))
            eff = getattr(test, SETTINGS_ATTRIBUTE_NAME)
            a, cf, e = vec(active), vec(configured), vec(eff)
        finally:
            hypothesis.settings.load_profile("default")
        chk.seen({"settings_merge": c}, c["profile"]["max_examples"] != 100)
        exprs.append(f"(let eff := effective ActiveProfile (of_list {clist([cnat(x) for x in a], 'nat')}) (of_list {clist([cnat(x) for x in vec(stock)], 'nat')}) "
                     f"(of_list {clist([cnat(x) for x in cf], 'nat')}) in [eff 0; eff 1; eff 2; eff 3])")
        obs.append((c, a, cf, e))
        # the property: configured limits are the ones the test runs with
        if e[0] != cf[0] or e[2] != cf[2]:
            chk.fail(f"the test runs with max_examples={e[0]} / stateful_step_count={e[2]} although {cf[0]} / {cf[2]} were configured "
                     f"(Hypothesis profile with max_examples={a[0]} loaded)", c)
    model = core.coq_eval(["C12.ModelH_C12"], exprs) if exprs else []
    bad = 0
    for (c, a, cf, e), m in zip(obs, model):
        if [int(x) for x in m] != e:
            bad += 1
            chk.disagree("create_test: effective Hypothesis settings [max_examples, deadline (100 ms), stateful_step_count, derandomize] vs ModelH_C12.effective",
                         c, e, [int(x) for x in m])
    # end to end under a loaded profile
    over = 0
    for k in range(n_engine):
        me = rng.choice([100, 100, 7])
        hypothesis.settings.register_profile("verif_profile", database=None, max_examples=rng.choice([240, 150]))
        hypothesis.settings.load_profile("verif_profile")
        try:
            evs, reqs = run_engine(U.schema_with_ops(1), U.make_responder(["ok"]), phases=["fuzzing"], workers=rng.randint(1, 2), max_examples=me, seed=k + 1)
        finally:
            hypothesis.settings.load_profile("default")
        sent = [r for r in reqs if U.op_index(r["target"]) is not None]
        chk.seen({"settings_engine": [me, k]}, True)
        if len(sent) > me:
            over += 1
            chk.fail(f"fuzzing phase sent {len(sent)} cases for an operation on which nothing fails, max_examples={me} (a Hypothesis profile with a larger max_examples is loaded)",
                     {"max_examples": me, "seed": k + 1})
    return {"merges": len(cases), "disagreements": bad, "engine_runs": n_engine, "over_max_examples": over}


class LimiterLog:
    def __init__(self):
        self.grants = []

    def __enter__(self):
        from pyrate_limiter import Limiter

        self.cls = Limiter
        self.orig = Limiter.try_acquire
        log = self

        def try_acquire(limiter, name, weight=1):
            res = log.orig(limiter, name, weight)
            log.grants.append((time.monotonic(), bool(res)))
            return res

        Limiter.try_acquire = try_acquire
        return self

    def __exit__(self, *exc):
        self.cls.try_acquire = self.orig
        return False


TOL_MS = 45  # logging happens after try_acquire returns; pyrate_limiter itself waits 50 ms past the boundary


def rate_stage(chk: core.Check, n: int):
    rng = chk.rng
    runs = []
    stats = Counter()
    for k in range(n):
        workers = rng.randint(1, 3)
        limit = rng.choice([4, 6, 10])
        n_req = limit + rng.randint(2, 5)
        cfg = {"rate": f"{limit}/s", "workers": workers, "seed": k, "max_examples": n_req}
        with LimiterLog() as log:
            t0 = time.monotonic()
            evs, reqs = run_engine(U.schema_with_ops(2), U.make_responder(["ok", "ok"]), phases=["fuzzing"], workers=workers, max_examples=n_req,
                                   seed=k, rate_limit=f"{limit}/s")
        grants = sorted(int((t - t0) * 1000) for t, ok in log.grants if ok)
        sent = [r for r in reqs if U.op_index(r["target"]) is not None]
        stats["grants"] += len(grants)
        stats["requests"] += len(sent)
        chk.seen(cfg, len(grants) > limit)
        if len(sent) > len(grants):
            chk.fail(f"{len(sent)} requests reached the API but the limiter was asked {len(grants)} time(s): requests bypass the rate limit", cfg)
        # API side (property text): requests within any one-second window <= limit, up to one in-flight request per worker at the boundary
        ts = sorted(r["t"] for r in sent)
        worst = 0
        for i, a in enumerate(ts):
            worst = max(worst, sum(1 for t in ts[i:] if t < a + 1.0))
        if worst > limit + workers:
            chk.fail(f"{worst} requests within one second with rate limit {limit}/s (jitter allowance {workers})", cfg)
        # limiter side: more than `limit` grants inside one (shortened) interval is a concrete violation of what
        # C12_rate_within_limit states for the guard
        for i, a in enumerate(grants):
            inside = [g for g in grants[i:] if g < a + 1000 - TOL_MS]
            if len(inside) > limit:
                chk.fail(f"{len(inside)} requests were let through within {inside[-1] - a} ms with rate limit {limit}/s", {**cfg, "grant_times_ms": inside})
                break
        runs.append((cfg, limit, grants))
    exprs = [f"(length (attempts {cnat(limit)} {1000 - TOL_MS}%Z {clist([f'{g}%Z' for g in grants], 'Z')}), {cnat(len(grants))})" for _, limit, grants in runs]
    model = core.coq_eval(IMPORTS_R, exprs) if exprs else []
    agree = 0
    for (cfg, limit, grants), m in zip(runs, model):
        if int(m[0]) != int(m[1]):
            chk.disagree("pyrate_limiter grants vs the sliding-window guard of ModelR_C12 (a grant the guard refuses)", cfg,
                         {"grants_ms": grants}, {"granted_by_model": int(m[0]), "of": int(m[1])})
        else:
            agree += 1
    return {"runs": n, "agree": agree, **dict(stats)}
