"""C13 - fail-closed `ast` translator: schemathesis source -> coq/theories/C13/Gen_C13.v (the entropy plan of TODAY's source).

What is extracted (every fact is keyed on a call site; if the call site disappears or changes shape the translator raises
TranslationError and the check reports a broken tie - it never guesses):

  site 1  generation/hypothesis/builder.py   create_base_test: `hypothesis.given(..., case=strategy)(test_wrapper)`;
                                              create_test: `if config.seed is not None: t = hypothesis.seed(config.seed [+ k])(t)` applied
                                              to the value that is returned; engine/phases/unit/__init__.py passes
                                              `seed=ctx.config.execution.seed`                                  -> Seeded k 0
  site 2  engine/phases/stateful/_executor.py `seed = config.execution.seed` ... loop: `hypothesis.seed(seed)(Machine)`,
                                              `seed += c`, `.run(...)`                                          -> Seeded off c
  site 3  builder.add_examples                `examples.generate_one(strategy)` outside the seeded test           -> tag of generate_one
  site 4  specs/openapi/examples.py           get_strategies_from_examples ->* _generate_single_example -> generate_one
  site 5  generation/coverage.py              add_coverage ->* cached_draw -> generate_one
          tag of generate_one: generation/hypothesis/examples.py add_single_example: `@given(strategy)` + `seed(X)` where X is
          a parameter (Seeded) / a module global read from os.environ (Ambient Unseeded) / settings(derandomize=True) (Seeded)
  site 6  generation/__init__.py              generate_random_case_id: own `random.Random()`; only use: Case.id default; only
                                              sink: the X-Schemathesis-TestCaseId header (excluded from the contract)
  site 7  transport/requests.py               choose_boundary: os.urandom -> multipart boundary (every phase, multipart bodies)
  site 10+ set iteration whose order is observable (PYTHONHASHSEED): `for x in {..}` / comprehension over a set-valued local whose
          body draws (`draw(`, `.is_enabled(`) or that is not consumed by sorted()/`.sort()`
  site 20+ engine/phases/unit/__init__.py     state a worker keeps across operations: locals of worker_task bound outside the operation
                                              loop and read inside it; in-place mutation in get_strategy_kwargs of an object it did not
                                              create; module-level mutable state; TaskProducer.next_operation must be one shared
                                              iterator under the lock                                           -> Ambient SharedState
  site 40+ whole package                      PROCESS-WIDE STATE carried between runs: in-place mutations of module-level objects, of the return
                                              value of an lru_cache'd function, of class-level attributes (process_state_scan), each classified
                                              Memo / Registry / RunWritten with re-verified evidence; 70+ the lru_cache'd functions themselves
                                              -> Gen_C13.gen_carried
  gen_cli_seed                                cli/commands/run/__init__.py: the `if generation_seed is None and not
                                              generation_deterministic: seed = Random().getrandbits(128) else: seed = generation_seed`
                                              statement, translated expression by expression
  + a whole-package scan for entropy primitives (given/seed/find/.example()/random/Random/uuid/urandom/secrets): every hit must
    be one of the classified sites above or in the explicit out-of-scope table, otherwise: unknown entropy site -> fail closed.
"""
from __future__ import annotations

import ast
import os
import re
from pathlib import Path


class TranslationError(Exception):
    pass


def _need(cond, msg):
    if not cond:
        raise TranslationError(msg)


def src_root() -> Path:
    allow = os.environ.get("VERIF_ALLOW_SRC")
    if allow:
        return Path(allow) / "schemathesis"
    return Path("/repo/src/schemathesis")


# ----------------------------------------------------------------------------------------
# small AST helpers
# ----------------------------------------------------------------------------------------
def parse(root: Path, rel: str) -> ast.Module:
    p = root / rel
    _need(p.exists(), f"{rel}: file is gone")
    return ast.parse(p.read_text(), filename=str(p))


def functions(tree: ast.AST) -> dict[str, ast.FunctionDef]:
    """All function definitions (module level, methods, nested) by bare name; later definitions of the same name are kept in a list."""
    out: dict[str, ast.FunctionDef] = {}
    for node in ast.walk(tree):
        if isinstance(node, (ast.FunctionDef, ast.AsyncFunctionDef)):
            out.setdefault(node.name, node)
    return out


def dotted(node) -> str | None:
    if isinstance(node, ast.Name):
        return node.id
    if isinstance(node, ast.Attribute):
        base = dotted(node.value)
        return None if base is None else f"{base}.{node.attr}"
    return None


def called_names(fn: ast.AST) -> set[str]:
    names = set()
    for node in ast.walk(fn):
        if isinstance(node, ast.Call):
            f = node.func
            if isinstance(f, ast.Name):
                names.add(f.id)
            elif isinstance(f, ast.Attribute):
                names.add(f.attr)
    return names


def calls_in(fn: ast.AST):
    for node in ast.walk(fn):
        if isinstance(node, ast.Call):
            yield node


def is_seed_application(call: ast.Call):
    """`hypothesis.seed(E)(target)` / `seed(E)(target)` -> (E, target) else None."""
    inner = call.func
    if isinstance(inner, ast.Call) and len(inner.args) == 1 and len(call.args) == 1:
        name = dotted(inner.func)
        if name in ("hypothesis.seed", "seed"):
            return inner.args[0], call.args[0]
    return None


def is_not_none_test(test, expr_dump: str) -> bool:
    return (
        isinstance(test, ast.Compare)
        and len(test.ops) == 1
        and isinstance(test.ops[0], ast.IsNot)
        and isinstance(test.comparators[0], ast.Constant)
        and test.comparators[0].value is None
        and ast.dump(test.left) == expr_dump
    )


# ----------------------------------------------------------------------------------------
# site 1: the unit test
# ----------------------------------------------------------------------------------------
def unit_site(root: Path) -> dict:
    rel = "generation/hypothesis/builder.py"
    tree = parse(root, rel)
    fns = functions(tree)
    for name in ("create_test", "create_base_test", "add_examples", "add_coverage"):
        _need(name in fns, f"{rel}: function {name} is gone")
    # create_base_test returns hypothesis.given(...)(test_wrapper) with the strategy bound to `case`
    base = fns["create_base_test"]
    rets = [n for n in ast.walk(base) if isinstance(n, ast.Return) and n.value is not None and not _inside_nested(base, n)]
    _need(len(rets) == 1, f"{rel}: create_base_test must have exactly one return")
    rv = rets[0].value
    ok = isinstance(rv, ast.Call) and isinstance(rv.func, ast.Call) and dotted(rv.func.func) in ("hypothesis.given", "given")
    _need(ok, f"{rel}:{rets[0].lineno}: create_base_test no longer returns hypothesis.given(...)(test)")
    given_line = rets[0].lineno

    ct = fns["create_test"]
    body = ct.body
    # the variable holding the test: assigned from create_base_test(...)
    var = None
    for st in body:
        if isinstance(st, ast.Assign) and isinstance(st.value, ast.Call) and dotted(st.value.func) == "create_base_test":
            _need(len(st.targets) == 1 and isinstance(st.targets[0], ast.Name), f"{rel}:{st.lineno}: unexpected target of create_base_test")
            var = st.targets[0].id
            kw = {k.arg: k.value for k in st.value.keywords}
            _need("strategy" in kw, f"{rel}:{st.lineno}: create_base_test is not given the strategy")
    _need(var is not None, f"{rel}: create_test no longer builds the test through create_base_test")
    # every later rebinding of the variable must be one of: seed application, add_examples(var, ..), add_coverage(var, ..)
    tag = None
    seed_line = None
    for node in ast.walk(ct):
        if isinstance(node, ast.Assign) and any(isinstance(t, ast.Name) and t.id == var for t in node.targets):
            v = node.value
            if isinstance(v, ast.Call) and dotted(v.func) == "create_base_test":
                continue
            app = is_seed_application(v) if isinstance(v, ast.Call) else None
            if app is not None:
                expr, target = app
                _need(isinstance(target, ast.Name) and target.id == var, f"{rel}:{node.lineno}: seed applied to something else than the test")
                off = _seed_offset(expr, "config.seed", f"{rel}:{node.lineno}")
                # must sit directly under `if config.seed is not None:` at the top level of create_test
                guard = _enclosing_if(ct, node)
                _need(guard is not None and guard in body, f"{rel}:{node.lineno}: the seed application is nested under an unexpected condition")
                base_expr = ast.dump(ast.parse("config.seed", mode="eval").body)
                _need(is_not_none_test(guard.test, base_expr) and not guard.orelse, f"{rel}:{guard.lineno}: unexpected guard of the seed application")
                _need(tag is None, f"{rel}:{node.lineno}: the seed is applied twice")
                tag = ("Seeded", off, 0)
                seed_line = node.lineno
                continue
            if isinstance(v, ast.Call) and dotted(v.func) in ("add_examples", "add_coverage"):
                _need(v.args and isinstance(v.args[0], ast.Name) and v.args[0].id == var, f"{rel}:{node.lineno}: {dotted(v.func)} is not applied to the test")
                continue
            raise TranslationError(f"{rel}:{node.lineno}: the test variable is rebound by an unknown expression")
    # the value returned is the variable
    rets = [n for n in ast.walk(ct) if isinstance(n, ast.Return) and n.value is not None]
    _need(len(rets) == 1 and isinstance(rets[0].value, ast.Name) and rets[0].value.id == var, f"{rel}: create_test does not return the seeded test")
    if tag is None:
        tag = ("Ambient", "Unseeded")
    # which mode reaches add_examples / add_coverage
    guards = {}
    for st in body:
        if isinstance(st, ast.If):
            for node in ast.walk(st):
                if isinstance(node, ast.Call) and dotted(node.func) in ("add_examples", "add_coverage"):
                    src = ast.unparse(st.test)
                    guards[dotted(node.func)] = src
    _need("HypothesisTestMode.EXAMPLES in config.modes" in guards.get("add_examples", ""), f"{rel}: add_examples is no longer guarded by the EXAMPLES mode")
    _need("HypothesisTestMode.COVERAGE in config.modes" in guards.get("add_coverage", ""), f"{rel}: add_coverage is no longer guarded by the COVERAGE mode")

    # the engine passes the configured seed
    rel2 = "engine/phases/unit/__init__.py"
    tree2 = parse(root, rel2)
    fns2 = functions(tree2)
    _need("worker_task" in fns2, f"{rel2}: worker_task is gone")
    found = False
    for call in calls_in(fns2["worker_task"]):
        if dotted(call.func) == "HypothesisTestConfig":
            kw = {k.arg: k.value for k in call.keywords}
            _need("seed" in kw and dotted(kw["seed"]) == "ctx.config.execution.seed", f"{rel2}:{call.lineno}: HypothesisTestConfig is not given ctx.config.execution.seed")
            _need("modes" in kw and ast.unparse(kw["modes"]) == "[mode]", f"{rel2}:{call.lineno}: unexpected modes")
            found = True
    _need(found, f"{rel2}: worker_task no longer builds a HypothesisTestConfig")
    ex = fns2.get("execute")
    _need(ex is not None, f"{rel2}: execute is gone")
    src = ast.unparse(ex)
    for ph, mode in (("EXAMPLES", "EXAMPLES"), ("COVERAGE", "COVERAGE")):
        _need(f"phase.name == PhaseName.{ph}" in src and f"mode = HypothesisTestMode.{mode}" in src, f"{rel2}: phase -> mode mapping changed")
    _need("mode = HypothesisTestMode.FUZZING" in src, f"{rel2}: phase -> mode mapping changed")
    return {
        "id": 1,
        "tag": tag,
        "phases": ["Examples", "Coverage", "Fuzzing"],
        "neg_only": False,
        "multipart_only": False,
        "in_request": True,
        "where": f"{rel}:{given_line} @given test of create_base_test; seed applied at {rel}:{seed_line}; seed=ctx.config.execution.seed in {rel2}",
    }


def _inside_nested(fn, node) -> bool:
    for sub in ast.walk(fn):
        if sub is not fn and isinstance(sub, (ast.FunctionDef, ast.Lambda)):
            if any(n is node for n in ast.walk(sub)):
                return True
    return False


def _enclosing_if(fn, node):
    best = None
    for cand in ast.walk(fn):
        if isinstance(cand, ast.If) and any(n is node for st in cand.body for n in ast.walk(st)):
            best = cand if best is None or any(n is cand for n in ast.walk(best)) else best
    return best


def _seed_offset(expr, base: str, where: str) -> int:
    """`base` -> 0, `base + k` -> k; anything else is not a function of the configured seed we understand."""
    if dotted(expr) == base:
        return 0
    if isinstance(expr, ast.BinOp) and isinstance(expr.op, ast.Add) and dotted(expr.left) == base and isinstance(expr.right, ast.Constant) and isinstance(expr.right.value, int) and expr.right.value >= 0:
        return expr.right.value
    raise TranslationError(f"{where}: seed expression `{ast.unparse(expr)}` is not `{base}` or `{base} + k`")


# ----------------------------------------------------------------------------------------
# site 2: the state machine
# ----------------------------------------------------------------------------------------
def stateful_site(root: Path) -> dict:
    rel = "engine/phases/stateful/_executor.py"
    tree = parse(root, rel)
    fns = functions(tree)
    _need("execute_state_machine_loop" in fns, f"{rel}: execute_state_machine_loop is gone")
    fn = fns["execute_state_machine_loop"]
    init = None
    loop = None
    for st in fn.body:
        if isinstance(st, ast.Assign) and len(st.targets) == 1 and isinstance(st.targets[0], ast.Name) and dotted(st.value) == "config.execution.seed":
            init = st
        if isinstance(st, ast.While):
            loop = st
    _need(init is not None, f"{rel}: `seed = config.execution.seed` is gone")
    _need(loop is not None, f"{rel}: the suite loop is gone")
    _need(loop.lineno > init.lineno, f"{rel}: the seed is initialised inside/after the loop")
    var = init.targets[0].id
    # in the loop: if <var> is not None: M = hypothesis.seed(<var>)(_Machine); <var> += c  else: M = _Machine
    guard = None
    for st in loop.body:
        if isinstance(st, ast.If) and is_not_none_test(st.test, ast.dump(ast.Name(id=var, ctx=ast.Load()))):
            guard = st
    _need(guard is not None, f"{rel}: `if {var} is not None` is gone from the suite loop")
    machine = None
    raw_machine = None
    offset = 0
    step = 0
    seen_seed = False
    for st in guard.body:
        if isinstance(st, ast.Assign) and isinstance(st.value, ast.Call):
            app = is_seed_application(st.value)
            _need(app is not None, f"{rel}:{st.lineno}: unexpected assignment in the seed branch")
            expr, target = app
            _need(isinstance(target, ast.Name), f"{rel}:{st.lineno}: seed applied to an expression")
            off = _seed_offset(expr, var, f"{rel}:{st.lineno}")
            offset = off + step  # increments that precede the application shift the first seed
            machine = st.targets[0].id
            raw_machine = target.id
            seen_seed = True
        elif isinstance(st, ast.AugAssign) and isinstance(st.target, ast.Name) and st.target.id == var:
            _need(isinstance(st.op, ast.Add) and isinstance(st.value, ast.Constant) and isinstance(st.value.value, int) and st.value.value >= 0, f"{rel}:{st.lineno}: unexpected seed update")
            step += st.value.value
        else:
            raise TranslationError(f"{rel}:{st.lineno}: unexpected statement in the seed branch")
    _need(seen_seed, f"{rel}: hypothesis.seed is no longer applied to the state machine")
    if seen_seed and offset and step:
        # seed += c happened before the application: first suite uses seed + c
        pass
    # the else branch binds the unseeded machine to the same name; .run is called on that name
    _need(len(guard.orelse) == 1 and isinstance(guard.orelse[0], ast.Assign) and guard.orelse[0].targets[0].id == machine and dotted(guard.orelse[0].value) == raw_machine, f"{rel}: unexpected else branch of the seed guard")
    ran = [c for c in calls_in(loop) if dotted(c.func) == f"{machine}.run"]
    _need(len(ran) == 1, f"{rel}: `{machine}.run(...)` is not called exactly once per suite")
    _need(ran[0].lineno > guard.lineno, f"{rel}: the machine runs before it is seeded")
    # no other writes to the seed variable inside the loop
    for node in ast.walk(loop):
        if isinstance(node, (ast.Assign, ast.AugAssign)):
            targets = node.targets if isinstance(node, ast.Assign) else [node.target]
            for t in targets:
                if isinstance(t, ast.Name) and t.id == var and not any(n is node for n in ast.walk(guard)):
                    raise TranslationError(f"{rel}:{node.lineno}: the seed variable is written outside the seed branch")
    return {
        "id": 2,
        "tag": ("Seeded", offset, step),
        "phases": ["Stateful"],
        "neg_only": False,
        "multipart_only": False,
        "in_request": True,
        "where": f"{rel}:{guard.lineno} hypothesis.seed({var})(state machine), {var} += {step} per suite",
    }


# ----------------------------------------------------------------------------------------
# generate_one and the sites that reach it
# ----------------------------------------------------------------------------------------
def generate_one_tag(root: Path):
    rel = "generation/hypothesis/examples.py"
    tree = parse(root, rel)
    fns = functions(tree)
    for name in ("generate_one", "add_single_example", "default_settings"):
        _need(name in fns, f"{rel}: function {name} is gone")
    g1 = fns["generate_one"]
    _need("add_single_example" in called_names(g1), f"{rel}: generate_one no longer goes through add_single_example")
    ase = fns["add_single_example"]
    params = {a.arg for a in ase.args.args + ase.args.kwonlyargs}
    # the @given inner function
    inner = [n for n in ast.walk(ase) if isinstance(n, ast.FunctionDef) and n is not ase]
    _need(len(inner) == 1, f"{rel}: add_single_example must define exactly one inner test")
    decos = [dotted(d.func) if isinstance(d, ast.Call) else dotted(d) for d in inner[0].decorator_list]
    _need("given" in decos or "hypothesis.given" in decos, f"{rel}:{inner[0].lineno}: the inner test is no longer a @given test")
    # derandomize in default_settings?
    derandomize = False
    for call in calls_in(fns["default_settings"]):
        for k in call.keywords:
            if k.arg == "derandomize":
                _need(isinstance(k.value, ast.Constant) and isinstance(k.value.value, bool), f"{rel}:{call.lineno}: derandomize is not a literal")
                derandomize = k.value.value
    # module globals read from the environment
    env_globals = set()
    for st in tree.body:
        if isinstance(st, ast.Assign) and isinstance(st.value, ast.Call) and (dotted(st.value.func) or "").startswith("os.environ"):
            env_globals |= {t.id for t in st.targets if isinstance(t, ast.Name)}
    apps = []
    for call in calls_in(ase):
        app = is_seed_application(call)
        if app is not None:
            apps.append((call, app[0]))
    kind = None
    where = f"{rel}:{inner[0].lineno} @given(strategy) in add_single_example"
    for call, expr in apps:
        name = dotted(expr)
        if name in env_globals:
            # seeded only by an environment variable: not a function of the configured seed
            continue
        root_name = (name or "").split(".")[0]
        if root_name in params:
            raise TranslationError(
                f"{rel}:{call.lineno}: add_single_example now takes its seed from parameter `{name}`: the callers must be re-read "
                "(translator knows only the unseeded and the derandomized shapes)"
            )
        raise TranslationError(f"{rel}:{call.lineno}: unknown seed expression `{ast.unparse(expr)}`")
    if derandomize:
        kind = ("Seeded", 0, 0)
        where += " with settings(derandomize=True)"
    else:
        kind = ("Ambient", "Unseeded")
        if apps:
            where += f"; seed() only from os.environ ({', '.join(sorted(env_globals))})"
    return kind, where


def call_graph(root: Path, rels: list[str]) -> dict[str, set[str]]:
    graph: dict[str, set[str]] = {}
    for rel in rels:
        tree = parse(root, rel)
        for node in ast.walk(tree):
            if isinstance(node, (ast.FunctionDef, ast.AsyncFunctionDef)):
                graph.setdefault(node.name, set()).update(called_names(node))
    return graph


def reach(graph: dict[str, set[str]], start: str, target: str) -> list[str] | None:
    """Shortest call path by bare name inside the module set."""
    if start not in graph:
        return None
    prev = {start: None}
    queue = [start]
    while queue:
        cur = queue.pop(0)
        if cur == target:
            path = []
            while cur is not None:
                path.append(cur)
                cur = prev[cur]
            return path[::-1]
        for nxt in sorted(graph.get(cur, ())):
            if nxt not in prev and (nxt in graph or nxt == target):
                prev[nxt] = cur
                queue.append(nxt)
    return None


GRAPH_MODULES = [
    "generation/hypothesis/builder.py",
    "generation/hypothesis/examples.py",
    "generation/coverage.py",
    "specs/openapi/examples.py",
]


def generate_one_sites(root: Path) -> list[dict]:
    tag, where = generate_one_tag(root)
    graph = call_graph(root, GRAPH_MODULES)
    sites = []
    # site 3: add_examples calls generate_one directly
    _need("add_examples" in graph, "builder.py: add_examples is gone")
    p3 = reach({k: v for k, v in graph.items()}, "add_examples", "generate_one")
    if p3 is not None and len(p3) == 2:
        sites.append({"id": 3, "tag": tag, "phases": ["Examples"], "neg_only": False, "multipart_only": False, "in_request": True,
                      "where": f"builder.add_examples -> generate_one (one draw per explicit-example strategy); {where}"})
    # site 4: get_strategies_from_examples ->* generate_one inside specs/openapi/examples.py
    g4 = call_graph(root, ["specs/openapi/examples.py", "generation/hypothesis/examples.py"])
    _need("get_strategies_from_examples" in g4, "specs/openapi/examples.py: get_strategies_from_examples is gone")
    _need("get_strategies_from_examples" in graph["add_examples"], "builder.add_examples no longer calls get_strategies_from_examples")
    p4 = reach(g4, "get_strategies_from_examples", "generate_one")
    if p4 is not None:
        sites.append({"id": 4, "tag": tag, "phases": ["Examples"], "neg_only": False, "multipart_only": False, "in_request": True,
                      "where": " -> ".join(p4) + f" (fill-in of required properties without an example); {where}"})
    # site 5: add_coverage ->* generate_one through generation/coverage.py
    _need("add_coverage" in graph, "builder.py: add_coverage is gone")
    g5 = call_graph(root, ["generation/hypothesis/builder.py", "generation/coverage.py", "generation/hypothesis/examples.py"])
    g5.pop("add_examples", None)
    p5 = reach(g5, "add_coverage", "generate_one")
    if p5 is not None:
        sites.append({"id": 5, "tag": tag, "phases": ["Coverage"], "neg_only": False, "multipart_only": False, "in_request": True,
                      "where": " -> ".join(p5) + f" (lru_cache keyed by strategy identity); {where}"})
    _need(p3 is not None or tag[0] == "Seeded", "builder.add_examples no longer reaches generate_one: re-read how example fill-ins are drawn")
    return sites


# ----------------------------------------------------------------------------------------
# sites 6, 7: case id and multipart boundary
# ----------------------------------------------------------------------------------------
def case_id_site(root: Path) -> dict:
    rel = "generation/__init__.py"
    tree = parse(root, rel)
    fns = functions(tree)
    _need("generate_random_case_id" in fns, f"{rel}: generate_random_case_id is gone")
    own = [st for st in tree.body if isinstance(st, ast.Assign) and isinstance(st.value, ast.Call) and dotted(st.value.func) == "random.Random" and not st.value.args]
    _need(len(own) == 1, f"{rel}: the separate unseeded random.Random() is gone")
    rng = own[0].targets[0].id
    uses = [c for c in calls_in(fns["generate_random_case_id"]) if (dotted(c.func) or "").startswith(rng + ".")]
    _need(len(uses) >= 1, f"{rel}: generate_random_case_id no longer draws from {rng}")
    # the only reference: default factory of Case.id; the only sink: the test-case-id header
    refs = []
    for p in sorted(root.rglob("*.py")):
        text = p.read_text()
        if "generate_random_case_id" in text and p != root / rel:
            refs.append(str(p.relative_to(root)))
    _need(refs == ["generation/case.py"], f"generate_random_case_id is referenced from {refs}, expected only generation/case.py")
    case_src = (root / "generation/case.py").read_text()
    _need("id: str = field(default_factory=generate_random_case_id, compare=False)" in case_src, "generation/case.py: Case.id default changed shape")
    prep = (root / "transport/prepare.py").read_text()
    _need("final_headers.setdefault(SCHEMATHESIS_TEST_CASE_HEADER, case.id)" in prep, "transport/prepare.py: the case id no longer goes (only) into the test-case-id header")
    return {"id": 6, "tag": ("Ambient", "OsRandom"), "phases": ["Examples", "Coverage", "Fuzzing", "Stateful"], "neg_only": False,
            "multipart_only": False, "in_request": False,
            "where": f"{rel}:{fns['generate_random_case_id'].lineno} generate_random_case_id (own random.Random()); reaches only the X-Schemathesis-TestCaseId header"}


def boundary_site(root: Path) -> dict | None:
    rel = "transport/requests.py"
    tree = parse(root, rel)
    fns = functions(tree)
    if "choose_boundary" not in fns:
        # no own boundary any more: requests/urllib3 still draw theirs for dict bodies
        return {"id": 7, "tag": ("Ambient", "OsRandom"), "phases": ["Examples", "Coverage", "Fuzzing", "Stateful"], "neg_only": False,
                "multipart_only": True, "in_request": True, "where": "urllib3.filepost.choose_boundary (foreign) for multipart bodies"}
    cb = fns["choose_boundary"]
    prim = [dotted(c.func) for c in calls_in(cb)]
    _need("os.urandom" in prim, f"{rel}:{cb.lineno}: choose_boundary no longer reads os.urandom (re-read it)")
    return {"id": 7, "tag": ("Ambient", "OsRandom"), "phases": ["Examples", "Coverage", "Fuzzing", "Stateful"], "neg_only": False,
            "multipart_only": True, "in_request": True,
            "where": f"{rel}:{cb.lineno} choose_boundary: os.urandom(16) (and urllib3.filepost.choose_boundary for dict bodies)"}


# ----------------------------------------------------------------------------------------
# sites 10+: observable set iteration order (PYTHONHASHSEED)
# ----------------------------------------------------------------------------------------
HASH_MODULES = {
    "specs/openapi/examples.py": (["Examples"], False),
    "generation/coverage.py": (["Coverage"], False),
    "generation/hypothesis/builder.py": (["Coverage"], False),
    "specs/openapi/negative/mutations.py": (["Fuzzing", "Stateful"], True),
    "specs/openapi/negative/__init__.py": (["Fuzzing", "Stateful"], True),
    "specs/openapi/_hypothesis.py": (["Examples", "Fuzzing", "Stateful"], False),
}


def _is_set_expr(node, set_names: set[str], set_funcs: set[str]) -> bool:
    if isinstance(node, (ast.Set, ast.SetComp)):
        return True
    if isinstance(node, ast.Call):
        name = dotted(node.func)
        if name in ("set", "frozenset"):
            return True
        if name in set_funcs:
            return True
    if isinstance(node, ast.Name) and node.id in set_names:
        return True
    if isinstance(node, ast.BinOp) and isinstance(node.op, (ast.Sub, ast.BitOr, ast.BitAnd, ast.BitXor)):
        return _is_set_expr(node.left, set_names, set_funcs) or _is_set_expr(node.right, set_names, set_funcs)
    return False


def _has_draw_effect(node) -> bool:
    for c in ast.walk(node):
        if isinstance(c, ast.Call):
            f = c.func
            if isinstance(f, ast.Name) and f.id == "draw":
                return True
            if isinstance(f, ast.Attribute) and f.attr in ("is_enabled", "draw"):
                return True
    return False


def hash_order_sites(root: Path) -> list[dict]:
    sites = []
    next_id = 10
    for rel, (phases, neg_only) in HASH_MODULES.items():
        tree = parse(root, rel)
        set_funcs = set()
        for fn in ast.walk(tree):
            if isinstance(fn, ast.FunctionDef) and fn.returns is not None and ast.unparse(fn.returns).lower().startswith(("set[", "set", "frozenset")):
                set_funcs.add(fn.name)
        parents = {}
        for parent in ast.walk(tree):
            for child in ast.iter_child_nodes(parent):
                parents[child] = parent
        for fn in ast.walk(tree):
            if not isinstance(fn, ast.FunctionDef):
                continue
            set_names = set()
            for node in ast.walk(fn):
                if isinstance(node, ast.Assign) and len(node.targets) == 1 and isinstance(node.targets[0], ast.Name):
                    if _is_set_expr(node.value, set_names, set_funcs):
                        set_names.add(node.targets[0].id)
                if isinstance(node, ast.AnnAssign) and isinstance(node.target, ast.Name) and node.value is not None and _is_set_expr(node.value, set_names, set_funcs):
                    set_names.add(node.target.id)
            for node in ast.walk(fn):
                iters = []
                if isinstance(node, ast.For):
                    iters.append((node.iter, node, node))
                elif isinstance(node, (ast.ListComp, ast.GeneratorExp, ast.DictComp)):
                    for g in node.generators:
                        iters.append((g.iter, node, node))
                elif isinstance(node, ast.Call) and dotted(node.func) in ("list", "tuple") and len(node.args) == 1:
                    iters.append((node.args[0], node, node))
                for it, holder, _ in iters:
                    if not _is_set_expr(it, set_names, set_funcs):
                        continue
                    # order is not observable when the result is consumed by sorted()/set()/any()/all()/len()/max()/min()/sum() ...
                    par = parents.get(holder)
                    consumed = isinstance(par, ast.Call) and dotted(par.func) in ("sorted", "set", "frozenset", "any", "all", "len", "max", "min", "sum") and holder in par.args
                    # starred into sorted([...]) is the same thing
                    effect = _has_draw_effect(holder) if not isinstance(holder, ast.For) else any(_has_draw_effect(s) for s in holder.body)
                    if consumed and not effect:
                        continue
                    # list(x) immediately followed by x.sort()
                    if isinstance(holder, ast.Call) and isinstance(par, ast.Assign) and isinstance(par.targets[0], ast.Name):
                        name = par.targets[0].id
                        body = parents.get(par)
                        seq = getattr(body, "body", [])
                        if par in seq:
                            idx = seq.index(par)
                            nxt = seq[idx + 1] if idx + 1 < len(seq) else None
                            if isinstance(nxt, ast.Expr) and isinstance(nxt.value, ast.Call) and dotted(nxt.value.func) == f"{name}.sort":
                                continue
                    # membership-only loops (`for x in s: if ...: return`) cannot be told apart syntactically: they are kept (may-site)
                    if isinstance(holder, ast.For) and not effect and not any(isinstance(n, (ast.Yield, ast.YieldFrom, ast.Call)) for s in holder.body for n in ast.walk(s)):
                        continue
                    sites.append({"id": next_id, "tag": ("Ambient", "HashOrder"), "phases": phases, "neg_only": neg_only, "multipart_only": False,
                                  "in_request": True,
                                  "where": f"{rel}:{holder.lineno} in {fn.name}: iteration over a set `{ast.unparse(it)[:60]}`" + (" with draws in the body" if effect else "")})
                    next_id += 1
    # de-duplicate nested reports of the same line
    seen = set()
    out = []
    for s in sites:
        key = s["where"].split(" in ")[0]
        if key in seen:
            continue
        seen.add(key)
        out.append(s)
    for i, s in enumerate(out):
        s["id"] = 10 + i
    return out


# ----------------------------------------------------------------------------------------
# sites 20+: state that outlives one operation inside a worker (the hypothesis of the workers theorem, checked where it can be)
# ----------------------------------------------------------------------------------------
_MUTATORS = {"update", "setdefault", "append", "extend", "add", "pop", "popitem", "clear", "insert", "remove", "discard", "sort", "reverse"}
_FRESH_CALLS = {"dict", "list", "set", "defaultdict", "OrderedDict", "deque", "deepclone", "deepcopy", "copy"}


def _is_fresh_value(node) -> bool:
    if isinstance(node, (ast.Dict, ast.List, ast.Set, ast.DictComp, ast.ListComp, ast.SetComp, ast.Constant, ast.JoinedStr, ast.Tuple)):
        return True
    if isinstance(node, ast.Call):
        name = dotted(node.func) or ""
        return name.split(".")[-1] in _FRESH_CALLS
    return False


def _root_name(node):
    while isinstance(node, (ast.Attribute, ast.Subscript)):
        node = node.value
    return node.id if isinstance(node, ast.Name) else None


def _own_nodes(fn):
    """Nodes of a function body without the bodies of nested function definitions."""
    stack = list(fn.body)
    while stack:
        node = stack.pop()
        yield node
        for child in ast.iter_child_nodes(node):
            if isinstance(child, (ast.FunctionDef, ast.AsyncFunctionDef, ast.Lambda)):
                continue
            stack.append(child)


def _bound_names(node) -> list[str]:
    out = []
    if isinstance(node, ast.Assign):
        targets = node.targets
    elif isinstance(node, (ast.AnnAssign, ast.AugAssign)):
        targets = [node.target]
    elif isinstance(node, (ast.For, ast.AsyncFor)):
        targets = [node.target]
    elif isinstance(node, (ast.With, ast.AsyncWith)):
        targets = [i.optional_vars for i in node.items if i.optional_vars is not None]
    elif isinstance(node, ast.NamedExpr):
        targets = [node.target]
    else:
        return out
    for t in targets:
        for n in ast.walk(t):
            if isinstance(n, ast.Name) and isinstance(n.ctx, ast.Store):
                out.append(n.id)
    return out


def cross_operation_sites(root: Path) -> list[dict]:
    """`worker_task` handles one operation per iteration of its while loop.  Anything a worker keeps ACROSS iterations and reads
    inside one, or a per-operation helper that mutates an object it did not create itself, is state written while one operation is
    generated and read while another is: the Section hypothesis of C13_workers_do_not_change_multiset does not hold for it."""
    rel = "engine/phases/unit/__init__.py"
    tree = parse(root, rel)
    fns = functions(tree)
    _need("worker_task" in fns and "get_strategy_kwargs" in fns, f"{rel}: worker_task / get_strategy_kwargs is gone")
    wt = fns["worker_task"]
    loops = [n for n in _own_nodes(wt) if isinstance(n, ast.While)]
    _need(len(loops) == 1, f"{rel}: worker_task must have exactly one operation loop, found {len(loops)}")
    loop = loops[0]
    _need("has_to_stop" in ast.unparse(loop.test), f"{rel}:{loop.lineno}: unexpected loop condition")
    in_loop = {id(n) for st in loop.body for n in ast.walk(st)}
    params = {a.arg for a in wt.args.args + wt.args.kwonlyargs}
    sites = []
    # (a) locals bound outside the loop and read inside it
    outside = {}
    for node in _own_nodes(wt):
        if id(node) in in_loop or node is loop:
            continue
        for name in _bound_names(node):
            outside.setdefault(name, node.lineno)
    read_inside = {n.id for st in loop.body for n in ast.walk(st) if isinstance(n, ast.Name) and isinstance(n.ctx, ast.Load)}
    for name, line in sorted(outside.items(), key=lambda kv: kv[1]):
        if name in read_inside and name not in params:
            sites.append(f"{rel}:{line} worker_task keeps `{name}` across operations (bound outside the operation loop, read inside it)")
    # (b) per-operation helpers of this module called from the loop must not mutate objects they did not create
    called = {c.func.id for st in loop.body for c in ast.walk(st) if isinstance(c, ast.Call) and isinstance(c.func, ast.Name)}
    _need("get_strategy_kwargs" in called, f"{rel}: the operation loop no longer calls get_strategy_kwargs")
    for helper in sorted(called & set(fns)):
        fn = fns[helper]
        if fn is wt or any(fn is n for n in ast.walk(wt)):
            continue  # nested helpers (on_error) only put events on the queue
        fresh: dict[str, bool] = {}
        for node in _own_nodes(fn):
            if isinstance(node, (ast.Assign, ast.AnnAssign)) and getattr(node, "value", None) is not None:
                for name in _bound_names(node):
                    # only whole-name rebinding counts; `x[k] = v` binds nothing
                    tgt = node.targets if isinstance(node, ast.Assign) else [node.target]
                    if any(isinstance(t, ast.Name) and t.id == name for t in tgt):
                        fresh[name] = fresh.get(name, True) and _is_fresh_value(node.value)
        for node in _own_nodes(fn):
            victim = None
            if isinstance(node, ast.Call) and isinstance(node.func, ast.Attribute) and node.func.attr in _MUTATORS:
                victim = _root_name(node.func.value)
            elif isinstance(node, (ast.Assign, ast.AugAssign)):
                tgt = node.targets if isinstance(node, ast.Assign) else [node.target]
                for t in tgt:
                    if isinstance(t, (ast.Subscript, ast.Attribute)):
                        victim = _root_name(t)
            elif isinstance(node, ast.Delete):
                for t in node.targets:
                    if isinstance(t, (ast.Subscript, ast.Attribute)):
                        victim = _root_name(t)
            if victim is not None and not fresh.get(victim, False):
                sites.append(f"{rel}:{node.lineno} {helper} mutates `{victim}` in place, an object it did not create (shared between operations)")
    # (c) no module-level mutable state, no `global`
    for st in tree.body:
        if isinstance(st, (ast.Assign, ast.AnnAssign)) and getattr(st, "value", None) is not None and not isinstance(st.value, ast.Constant):
            if isinstance(st.value, (ast.Dict, ast.List, ast.Set, ast.DictComp, ast.ListComp, ast.SetComp, ast.Call)):
                sites.append(f"{rel}:{st.lineno} module-level mutable state `{ast.unparse(st)[:60]}`")
    for node in ast.walk(tree):
        if isinstance(node, (ast.Global, ast.Nonlocal)):
            sites.append(f"{rel}:{node.lineno} `{ast.unparse(node)}`")
    # (d) the task producer hands out every operation once: shared iterator under the lock
    rel2 = "engine/phases/unit/_pool.py"
    tree2 = parse(root, rel2)
    fns2 = functions(tree2)
    _need("next_operation" in fns2, f"{rel2}: TaskProducer.next_operation is gone")
    body = [st for st in fns2["next_operation"].body if not (isinstance(st, ast.Expr) and isinstance(st.value, ast.Constant))]
    ok = (
        len(body) == 1 and isinstance(body[0], ast.With) and ast.unparse(body[0].items[0].context_expr) == "self.lock"
        and len(body[0].body) == 1 and ast.unparse(body[0].body[0]) == "return next(self.operations, None)"
    )
    _need(ok, f"{rel2}: next_operation is no longer `with self.lock: return next(self.operations, None)` (one shared iterator)")
    _need("self.operations = ctx.schema.get_all_operations(" in (root / rel2).read_text(), f"{rel2}: the shared operations iterator changed shape")
    out = []
    for i, where in enumerate(sites):
        out.append({"id": 20 + i, "tag": ("Ambient", "SharedState"), "phases": ["Examples", "Coverage", "Fuzzing"], "neg_only": False,
                    "multipart_only": False, "in_request": True, "where": where})
    return out


# ----------------------------------------------------------------------------------------
# sites 40+: PROCESS-WIDE MUTABLE STATE carried from one run to the next in the same process
# ----------------------------------------------------------------------------------------
# A *carrier* is an object that outlives a run: a module-level mutable object, the return value of an lru_cache'd function (a
# process-wide singleton per argument tuple) or a class-level mutable attribute.  A *carried site* is a place in a function where
# such an object is MUTATED (x[k] = v / x.attr = v / del x[k] / x.update(..) .append(..) .setdefault(..) .pop(..) ... / rebinding a
# `global`), directly, through a local alias (`formats = get_default_format_strategies(); formats[k] = v`), through an element
# fetched from it (`CACHE.setdefault(op, {})[k] = v`) or by passing it to a package function that mutates its parameter.
# Every carried site must be classified in PROCESS_STATE_CLASSIFIED with evidence the scanner re-verifies:
#   Memo      the content stored under a key is determined by the key (an lru_cache on a pure function; a cache keyed by the identity
#             of a per-run object): whoever wrote the entry, a later run reads the same thing            -> safe
#   Registry  written only by a public registration function the USER calls between runs (part of the configuration), never by
#             code reachable from a run                                                                 -> safe
#   RunWritten  anything else: what a run leaves behind depends on its configuration and a later run reads it -> UNSAFE
# An unclassified hit is emitted as RunWritten (fail closed) and reported as a broken tie.
PS_OUT_OF_SCOPE = {
    "pytest/": "pytest integration (not the engine)",
    "contrib/": "opt-in contrib hooks, not installed by default",
    "cli/": "command line front end: option groups / custom handler lists, filled at import / plugin-load time, reporting only",
    "python/": "python-level helpers, not on the request path",
    "core/_verif.py": "verification hooks",
}
_MUTABLE_CTORS = {"dict", "list", "set", "defaultdict", "OrderedDict", "deque", "WeakKeyDictionary", "WeakValueDictionary", "WeakSet", "Counter", "ChainMap",
                  "CaseInsensitiveDict", "bytearray"}
_IMMUTABLE_INSTANCES = {"TypeVar", "ParamSpec", "Path", "NotSet", "Unresolvable", "Random", "Response", "compile", "frozenset", "tuple", "namedtuple", "getLogger",
                        "Lock", "RLock", "local"}
_ELEMENT_GETTERS = {"get", "setdefault", "__getitem__"}
_CONFIG_TOKENS = ("config", "generation", "settings", "allow_x00", "codec", "mode", "modes", "generator", "override", "negative", "strategy_factory")


def _ps_in_scope(rel: str) -> bool:
    return not any(rel.startswith(pref) for pref in PS_OUT_OF_SCOPE)


def _is_mutable_value(node) -> str | None:
    if isinstance(node, (ast.Dict, ast.List, ast.Set, ast.DictComp, ast.ListComp, ast.SetComp)):
        return "display"
    if isinstance(node, ast.Call):
        last = (dotted(node.func) or "?").split(".")[-1]
        if last in _MUTABLE_CTORS:
            return last
        if last[:1].isupper() and last not in _IMMUTABLE_INSTANCES:
            return "instance:" + last
    return None


def _cache_decorated(fn) -> bool:
    for d in fn.decorator_list:
        name = dotted(d.func) if isinstance(d, ast.Call) else dotted(d)
        if name and name.split(".")[-1] in ("lru_cache", "cache"):
            return True
    return False


def _module_stem(rel: str) -> str:
    parts = rel[:-3].split("/")
    return parts[-2] if parts[-1] == "__init__" and len(parts) > 1 else parts[-1]


class _PsIndex:
    """Carriers of the whole package (by name) + per-module import tables."""

    def __init__(self, root: Path):
        self.trees: dict[str, ast.Module] = {}
        self.globals: dict[str, list[tuple[str, int, str]]] = {}     # NAME -> [(rel, line, kind)]
        self.cached: dict[str, list[tuple[str, int, int, bool]]] = {}  # fname -> [(rel, line, nargs, mutable_return)]
        self.class_attrs: dict[str, list[tuple[str, int, str]]] = {}  # attr -> [(rel, line, Class)]
        self.toplevel_funcs: dict[str, list[tuple[str, ast.FunctionDef]]] = {}
        self.imports: dict[str, dict[str, str]] = {}  # rel -> local name -> "module stem" (from X import name) or "" for module imports
        self.shared_returning: dict[tuple[str, str], str] = {}  # (rel, function) -> the process-wide object it hands out (un-cached wrappers)
        for p in sorted(root.rglob("*.py")):
            rel = str(p.relative_to(root))
            if not _ps_in_scope(rel):
                continue
            try:
                tree = ast.parse(p.read_text())
            except SyntaxError as exc:
                raise TranslationError(f"{rel}: does not parse: {exc}") from None
            self.trees[rel] = tree
            imp: dict[str, str] = {}
            for node in ast.walk(tree):
                if isinstance(node, ast.ImportFrom):
                    for a in node.names:
                        imp[a.asname or a.name] = (node.module or "").split(".")[-1]
                elif isinstance(node, ast.Import):
                    for a in node.names:
                        imp[(a.asname or a.name).split(".")[0]] = ""
            self.imports[rel] = imp
            for st in tree.body:
                if isinstance(st, (ast.Assign, ast.AnnAssign)) and getattr(st, "value", None) is not None:
                    kind = _is_mutable_value(st.value)
                    tgt = st.targets[0] if isinstance(st, ast.Assign) else st.target
                    if kind and isinstance(tgt, ast.Name) and tgt.id != "__all__":
                        self.globals.setdefault(tgt.id, []).append((rel, st.lineno, kind))
                if isinstance(st, (ast.FunctionDef, ast.AsyncFunctionDef)):
                    self.toplevel_funcs.setdefault(st.name, []).append((rel, st))
            for node in ast.walk(tree):
                if isinstance(node, (ast.FunctionDef, ast.AsyncFunctionDef)) and _cache_decorated(node):
                    rets = [r.value for r in ast.walk(node) if isinstance(r, ast.Return) and r.value is not None and not _inside_nested(node, r)]
                    mutable = any(_is_mutable_value(r) is not None or isinstance(r, ast.Name) for r in rets)
                    nargs = len(node.args.args) + len(node.args.kwonlyargs)
                    self.cached.setdefault(node.name, []).append((rel, node.lineno, nargs, mutable))
                if isinstance(node, ast.ClassDef):
                    for st in node.body:
                        if isinstance(st, (ast.Assign, ast.AnnAssign)) and getattr(st, "value", None) is not None:
                            tgt = st.targets[0] if isinstance(st, ast.Assign) else st.target
                            kind = _is_mutable_value(st.value)
                            if kind and not kind.startswith("instance:") and isinstance(tgt, ast.Name) and tgt.id != "__slots__":
                                self.class_attrs.setdefault(tgt.id, []).append((rel, st.lineno, node.name))

    def cached_call(self, rel: str, call: ast.Call) -> str | None:
        """Is this a call of an lru_cache'd function of the package?  Returns `file:function`."""
        f = call.func
        if isinstance(f, ast.Name) and f.id in self.cached:
            for drel, _, _, _ in self.cached[f.id]:
                if drel == rel or self.imports.get(rel, {}).get(f.id) == _module_stem(drel):
                    return f"{drel}:{f.id}"
        if isinstance(f, ast.Attribute) and f.attr in self.cached:
            base = dotted(f.value)
            if base is not None:
                for drel, _, _, _ in self.cached[f.attr]:
                    if base.split(".")[-1] == _module_stem(drel):
                        return f"{drel}:{f.attr}"
        return None

    def global_carrier(self, rel: str, name: str) -> str | None:
        if name not in self.globals:
            return None
        for drel, _, _ in self.globals[name]:
            if drel == rel or self.imports.get(rel, {}).get(name) == _module_stem(drel):
                return f"{drel}:{name}"
        return None

    def attr_carrier(self, node: ast.Attribute) -> str | None:
        """`module.NAME` / `pkg.module.NAME` where NAME is a module-level carrier of that module."""
        base = dotted(node.value)
        if base is None or node.attr not in self.globals:
            return None
        for drel, _, _ in self.globals[node.attr]:
            if base.split(".")[-1] == _module_stem(drel):
                return f"{drel}:{node.attr}"
        return None


def _fn_params(fn) -> list[str]:
    a = fn.args
    return [x.arg for x in a.posonlyargs + a.args + a.kwonlyargs] + ([a.vararg.arg] if a.vararg else []) + ([a.kwarg.arg] if a.kwarg else [])


def _config_names(fn) -> set[str]:
    """Parameters / locals of a function that carry run configuration (by name or annotation), closed under local assignment."""
    tainted = set()
    a = fn.args
    for x in a.posonlyargs + a.args + a.kwonlyargs:
        ann = ast.unparse(x.annotation) if x.annotation is not None else ""
        if any(tok in x.arg.lower() for tok in _CONFIG_TOKENS) or "Config" in ann or "GenerationMode" in ann or "StrategyFactory" in ann:
            tainted.add(x.arg)
    changed = True
    while changed:
        changed = False
        for node in _ps_own_nodes(fn):
            if isinstance(node, (ast.Assign, ast.AnnAssign, ast.AugAssign)) and getattr(node, "value", None) is not None:
                if _mentions(node.value, tainted):
                    for name in _bound_names(node):
                        if name not in tainted:
                            tainted.add(name)
                            changed = True
    return tainted


def _mentions(node, names: set[str]) -> bool:
    for n in ast.walk(node):
        if isinstance(n, ast.Name) and n.id in names:
            return True
        if isinstance(n, ast.Attribute) and any(tok in n.attr.lower() for tok in ("config", "allow_x00", "codec")):
            return True
    return False


def _ps_own_nodes(fn):
    """Nodes of a function body without nested function / class definitions (and their bodies)."""
    stack = [st for st in fn.body]
    while stack:
        node = stack.pop()
        if isinstance(node, (ast.FunctionDef, ast.AsyncFunctionDef, ast.Lambda, ast.ClassDef)):
            continue
        yield node
        stack.extend(ast.iter_child_nodes(node))


class _FnScan:
    """One function: which names may denote a process-wide object at which point, and where such an object is mutated."""

    def __init__(self, idx: _PsIndex, rel: str, fn, cls: str | None):
        self.idx, self.rel, self.fn, self.cls = idx, rel, fn, cls
        self.params = _fn_params(fn)
        self.locals: set[str] = set(self.params)
        self.global_decl: set[str] = set()
        for node in _ps_own_nodes(fn):
            self.locals.update(_bound_names(node))
            if isinstance(node, ast.Global):
                self.global_decl.update(node.names)
        self.locals -= self.global_decl
        self.top = {id(st) for st in fn.body}
        self.shared: dict[str, str] = {}  # local name -> carrier description (may-alias)
        # nested (conditional / loop) bindings hold for the whole function; top-level ones are applied in order
        changed = True
        while changed:
            changed = False
            for node in _ps_own_nodes(fn):
                if isinstance(node, (ast.Assign, ast.AnnAssign, ast.NamedExpr)) and getattr(node, "value", None) is not None and id(node) not in self.top:
                    src = self.shared_root(node.value)
                    if src is not None:
                        for name in self._whole_name_targets(node):
                            if name not in self.shared:
                                self.shared[name] = src
                                changed = True
                if isinstance(node, (ast.For, ast.AsyncFor)):
                    src = self._iter_elements(node.iter)
                    if src is not None:
                        for name in _bound_names(node):
                            if name not in self.shared:
                                self.shared[name] = src
                                changed = True
        self.sticky = dict(self.shared)

    @staticmethod
    def _whole_name_targets(node) -> list[str]:
        if isinstance(node, ast.NamedExpr):
            return [node.target.id]
        tgt = node.targets if isinstance(node, ast.Assign) else [node.target]
        return [t.id for t in tgt if isinstance(t, ast.Name)]

    def _iter_elements(self, it) -> str | None:
        if isinstance(it, ast.Call) and isinstance(it.func, ast.Attribute) and it.func.attr in ("values", "items"):
            src = self.shared_root(it.func.value)
            return None if src is None else src + " (element)"
        return None

    def shared_root(self, node) -> str | None:
        """Carrier this expression may denote (the object itself or something stored inside it), else None."""
        if isinstance(node, ast.Name):
            if node.id in self.shared:
                return self.shared[node.id]
            if node.id not in self.locals or node.id in self.global_decl:
                return self.idx.global_carrier(self.rel, node.id)
            return None
        if isinstance(node, ast.Attribute):
            got = self.idx.attr_carrier(node)
            if got is not None:
                return got
            # class-level mutable attribute through cls / self / the class name
            base = dotted(node.value)
            if node.attr in self.idx.class_attrs and base is not None:
                for drel, _, cname in self.idx.class_attrs[node.attr]:
                    if base in ("cls", cname) or (base == "self" and drel == self.rel and self.cls == cname):
                        return f"{drel}:{cname}.{node.attr}"
            return self.shared_root(node.value)
        if isinstance(node, ast.Subscript):
            return self.shared_root(node.value)
        if isinstance(node, ast.Call):
            c = self.idx.cached_call(self.rel, node)
            if c is not None:
                return c + "()"
            target = _called_package_function(self.idx, self.rel, node)
            if target is not None and target in self.idx.shared_returning:
                return self.idx.shared_returning[target]
            if isinstance(node.func, ast.Attribute) and node.func.attr in _ELEMENT_GETTERS:
                src = self.shared_root(node.func.value)
                return None if src is None else src
            return None
        if isinstance(node, ast.IfExp):
            return self.shared_root(node.body) or self.shared_root(node.orelse)
        if isinstance(node, ast.BoolOp):
            for v in node.values:
                got = self.shared_root(v)
                if got is not None:
                    return got
        if isinstance(node, ast.NamedExpr):
            return self.shared_root(node.value)
        return None

    def events(self):
        """(node, victim expression, kind) for every in-place mutation in the function body, in source order, with the alias state
        of that point (top-level rebinding to a fresh value kills an alias)."""
        nodes = sorted(_ps_own_nodes(self.fn), key=lambda n: (getattr(n, "lineno", 0), getattr(n, "col_offset", 0)))
        parents = {}
        for parent in ast.walk(self.fn):
            for child in ast.iter_child_nodes(parent):
                parents[child] = parent
        self.parents = parents
        out = []
        pending = []
        for node in nodes:
            # mutations first (the right-hand side of `x = f(x)` is evaluated before the binding)
            if isinstance(node, (ast.Assign, ast.AugAssign, ast.AnnAssign)):
                tgt = node.targets if isinstance(node, ast.Assign) else [node.target]
                for t in tgt:
                    for el in (t.elts if isinstance(t, (ast.Tuple, ast.List)) else [t]):
                        if isinstance(el, (ast.Subscript, ast.Attribute)):
                            out.append((node, el.value, "item/attribute assignment", getattr(node, "value", None), self.state_copy()))
                        elif isinstance(el, ast.Name) and el.id in self.global_decl:
                            out.append((node, None, f"rebinds module global `{el.id}`", getattr(node, "value", None), self.state_copy()))
            elif isinstance(node, ast.Delete):
                for t in node.targets:
                    if isinstance(t, (ast.Subscript, ast.Attribute)):
                        out.append((node, t.value, "del", None, self.state_copy()))
            elif isinstance(node, ast.Call) and isinstance(node.func, ast.Attribute) and node.func.attr in _MUTATORS:
                out.append((node, node.func.value, f".{node.func.attr}()", node, self.state_copy()))
            if isinstance(node, ast.Call):
                pending.append((node, self.state_copy()))
            # then top-level bindings
            if id(node) in self.top and isinstance(node, (ast.Assign, ast.AnnAssign)) and getattr(node, "value", None) is not None:
                src = self.shared_root(node.value)
                for name in self._whole_name_targets(node):
                    if src is not None:
                        self.shared[name] = src
                    elif name in self.sticky:
                        self.shared[name] = self.sticky[name]
                    else:
                        self.shared.pop(name, None)
                        self.rebound_fresh.add(name)
        self.calls = pending
        return out

    rebound_fresh: set

    def state_copy(self):
        return (dict(self.shared), set(self.rebound_fresh))


def process_state_scan(root: Path) -> list[dict]:
    """Every in-place mutation of a process-wide object in the package (outside PS_OUT_OF_SCOPE)."""
    idx = _PsIndex(root)
    # functions that hand out a process-wide object (`def defaults(): return get_default_format_strategies()`), to a fixpoint
    for _ in range(4):
        grew = False
        for fname, defs in idx.toplevel_funcs.items():
            for rel, fn in defs:
                if (rel, fname) in idx.shared_returning or _cache_decorated(fn):
                    continue
                sc = _FnScan(idx, rel, fn, None)
                sc.rebound_fresh = set()
                sc.events()
                for node in _ps_own_nodes(fn):
                    if isinstance(node, ast.Return) and node.value is not None:
                        src = sc.shared_root(node.value)
                        if src is not None:
                            idx.shared_returning[(rel, fname)] = f"{src} (through {fname}())"
                            grew = True
                            break
        if not grew:
            break
    hits: list[dict] = []
    param_mutators: dict[str, dict[str, set[int]]] = {}  # fname -> rel -> mutated parameter positions
    scans = []
    for rel, tree in idx.trees.items():
        owner_cls = {}
        for node in ast.walk(tree):
            if isinstance(node, ast.ClassDef):
                for st in node.body:
                    if isinstance(st, (ast.FunctionDef, ast.AsyncFunctionDef)):
                        owner_cls[st] = node.name
        for fn in ast.walk(tree):
            if not isinstance(fn, (ast.FunctionDef, ast.AsyncFunctionDef)):
                continue
            sc = _FnScan(idx, rel, fn, owner_cls.get(fn))
            sc.rebound_fresh = set()
            evs = sc.events()
            scans.append((sc, evs))
            tainted = _config_names(fn)
            for node, victim, kind, value, (state, fresh) in evs:
                saved = sc.shared
                sc.shared = state
                src = sc.shared_root(victim) if victim is not None else idx.global_carrier(rel, kind.split("`")[1])
                if victim is None and src is None:
                    src = f"{rel}:{kind.split('`')[1]} (module global)"
                sc.shared = saved
                if src is None:
                    # a parameter mutated in place: remembered for the call sites
                    r = _root_name(victim)
                    if r in sc.params and r not in fresh and fn in [f for _, f in idx.toplevel_funcs.get(fn.name, [])]:
                        param_mutators.setdefault(fn.name, {}).setdefault(rel, set()).add(sc.params.index(r))
                    continue
                hits.append(_ps_hit(sc, node, src, kind, value, tainted, via=None))
    # parameters: closed under passing a parameter on to a parameter-mutating function of the package; then every call that hands a
    # process-wide object to such a function is a mutation of that object
    changed = True
    rounds = 0
    while changed and rounds < 6:
        changed = False
        rounds += 1
        for sc, _ in scans:
            for call, (state, fresh) in sc.calls:
                target = _called_package_function(idx, sc.rel, call)
                if target is None or target[1] not in param_mutators or target[0] not in param_mutators[target[1]]:
                    continue
                trel, tname = target
                tfn = [f for r, f in idx.toplevel_funcs[tname] if r == trel][0]
                tparams = _fn_params(tfn)
                for pos in param_mutators[tname][trel]:
                    arg = None
                    if pos < len(call.args) and not any(isinstance(a, ast.Starred) for a in call.args[: pos + 1]):
                        arg = call.args[pos]
                    for k in call.keywords:
                        if k.arg == tparams[pos]:
                            arg = k.value
                    if arg is None:
                        continue
                    r = _root_name(arg)
                    saved = sc.shared
                    sc.shared = state
                    src = sc.shared_root(arg)
                    sc.shared = saved
                    if src is not None:
                        h = _ps_hit(sc, call, src, f"passed to {tname}(), which mutates its parameter `{tparams[pos]}` in place", call, _config_names(sc.fn), via=tname)
                        if not any(x["key"] == h["key"] and x["line"] == h["line"] for x in hits):
                            hits.append(h)
                            changed = True
                    elif r in sc.params and r not in fresh and any(f is sc.fn for _, f in idx.toplevel_funcs.get(sc.fn.name, [])):
                        cur = param_mutators.setdefault(sc.fn.name, {}).setdefault(sc.rel, set())
                        i = sc.params.index(r)
                        if i not in cur:
                            cur.add(i)
                            changed = True
    hits.sort(key=lambda h: (h["rel"], h["line"], h["carrier"]))
    return hits


def _called_package_function(idx: _PsIndex, rel: str, call: ast.Call):
    f = call.func
    if isinstance(f, ast.Name) and f.id in idx.toplevel_funcs:
        for drel, _ in idx.toplevel_funcs[f.id]:
            if drel == rel or idx.imports.get(rel, {}).get(f.id) == _module_stem(drel):
                return drel, f.id
    if isinstance(f, ast.Attribute) and f.attr in idx.toplevel_funcs:
        base = dotted(f.value)
        if base is not None and base.split(".")[0] not in ("self", "cls"):
            for drel, _ in idx.toplevel_funcs[f.attr]:
                if base.split(".")[-1] == _module_stem(drel):
                    return drel, f.attr
    return None


def _ps_hit(sc: _FnScan, node, src: str, kind: str, value, tainted: set[str], via) -> dict:
    # configuration dependence, syntactically: the stored value / key / arguments mention run configuration, or the statement is
    # guarded by a condition that does
    dep = []
    if value is not None and _mentions(value, tainted):
        dep.append("stored value")
    if isinstance(node, (ast.Assign, ast.AugAssign, ast.AnnAssign)):
        tgt = node.targets if isinstance(node, ast.Assign) else [node.target]
        if any(isinstance(t, ast.Subscript) and _mentions(t.slice, tainted) for t in tgt):
            dep.append("key")
    cur = node
    while cur in sc.parents:
        par = sc.parents[cur]
        if isinstance(par, (ast.If, ast.While)) and cur is not par.test and _mentions(par.test, tainted):
            dep.append(f"guard `{ast.unparse(par.test)[:50]}`")
            break
        cur = par
    return {
        "rel": sc.rel, "line": node.lineno, "function": sc.fn.name, "carrier": src, "kind": kind,
        "key": (sc.rel, sc.fn.name, src), "config_dependent_evidence": dep, "via": via,
        "stmt": ast.unparse(node)[:110].replace("\n", " "),
    }


ALL_PHASES = ["Examples", "Coverage", "Fuzzing", "Stateful"]
_H = "specs/openapi/_hypothesis.py"
# (file, function, carrier) -> (class, evidence the scanner re-verifies, phases, reaches a request, why)
PROCESS_STATE_CLASSIFIED: dict[tuple[str, str, str], tuple[str, str, list[str], bool, str]] = {
    (_H, "_get_body_strategy", f"{_H}:_BODY_STRATEGIES_CACHE"): (
        "Memo", "memo_identity_key", ALL_PHASES, True,
        "WeakKeyDictionary keyed by the OpenAPIBody object (identity) then by the strategy factory; the body objects are created with the operations of a run"),
    (_H, "get_parameters_strategy", f"{_H}:_PARAMETER_STRATEGIES_CACHE"): (
        "Memo", "memo_identity_key", ALL_PHASES, True,
        "WeakKeyDictionary keyed by the APIOperation object (identity) then by (factory, location, excluded names); operations are created per run"),
    ("specs/openapi/formats.py", "register_string_format", "specs/openapi/formats.py:STRING_FORMATS"): (
        "Registry", "registry_api", ALL_PHASES, True, "public API schemathesis.openapi.format(): called by the user, never from the package"),
    ("specs/openapi/formats.py", "unregister_string_format", "specs/openapi/formats.py:STRING_FORMATS"): (
        "Registry", "registry_api", ALL_PHASES, True, "public API schemathesis.openapi.unregister_string_format()"),
    ("specs/openapi/media_types.py", "register_media_type", "specs/openapi/media_types.py:MEDIA_TYPES"): (
        "Registry", "registry_api", ALL_PHASES, True, "public API schemathesis.openapi.media_type()"),
    ("specs/openapi/media_types.py", "unregister_all", "specs/openapi/media_types.py:MEDIA_TYPES"): (
        "Registry", "registry_api", ALL_PHASES, True, "test helper, never called from the package"),
    ("specs/graphql/scalars.py", "scalar", "specs/graphql/scalars.py:CUSTOM_SCALARS"): (
        "Registry", "registry_api", ALL_PHASES, True, "public API schemathesis.graphql.scalar()"),
    ("hooks.py", "_register_spec", "hooks.py:HookDispatcher._specs"): (
        "Registry", "import_time:register_spec", ALL_PHASES, False, "hook specifications, registered by decorators while hooks.py is imported"),
    ("core/output/sanitization.py", "configure", "core/output/sanitization.py:_DEFAULT_SANITIZATION_CONFIG"): (
        "Registry", "registry_api", ALL_PHASES, False, "public API schemathesis.sanitization.configure(); report output only"),
    ("core/output/sanitization.py", "extend", "core/output/sanitization.py:_DEFAULT_SANITIZATION_CONFIG"): (
        "Registry", "registry_api", ALL_PHASES, False, "public API schemathesis.sanitization.extend(); report output only"),
}
# lru_cache'd functions of the package: (file, function) -> (phases, reaches a request, why the content of an entry is a function of its key)
CACHED_CLASSIFIED: dict[tuple[str, str], tuple[list[str], bool, str]] = {
    ("core/curl.py", "get_excluded_headers"): (ALL_PHASES, False, "constant; curl rendering in reports"),
    ("core/deserialization.py", "get_yaml_loader"): (ALL_PHASES, False, "constant class; YAML loading of schemas / responses"),
    ("core/media_types.py", "parse"): (ALL_PHASES, True, "pure function of the media type string"),
    ("generation/coverage.py", "cached_draw"): (["Coverage"], True, "AMBIENT: the entry is drawn by the unseeded generate_one and cached by strategy identity (finding F2)"),
    ("generation/hypothesis/examples.py", "default_settings"): (["Examples", "Coverage"], True, "constant hypothesis.settings"),
    ("generation/stateful/state_machine.py", "_to_test_case"): (["Stateful"], True, "keyed by the state machine class (one per run)"),
    ("graphql/loaders.py", "get_introspection_query"): (ALL_PHASES, False, "constant; schema loading"),
    ("graphql/loaders.py", "get_introspection_query_ast"): (ALL_PHASES, False, "constant; schema loading"),
    ("schemas.py", "get_full_path"): (ALL_PHASES, True, "pure function of (base path, path)"),
    ("specs/graphql/scalars.py", "get_extra_scalar_strategies"): (ALL_PHASES, True, "constant dict of strategies; merged into a fresh dict by its only caller"),
    ("specs/openapi/examples.py", "load_external_example"): (["Examples"], True, "externalValue fetched once per URL (the remote is assumed deterministic)"),
    ("specs/openapi/expressions/parser.py", "parse"): (["Stateful"], True, "pure function of the expression string"),
    ("specs/openapi/formats.py", "get_default_format_strategies"): (ALL_PHASES, True, "constant dict of strategies; merged into a fresh dict by its only caller"),
    ("specs/openapi/negative/__init__.py", "get_validator"): (ALL_PHASES, True, "keyed by the schema wrapped in CacheKey"),
    ("specs/openapi/negative/__init__.py", "split_schema"): (ALL_PHASES, True, "keyed by the schema wrapped in CacheKey"),
    ("specs/openapi/patterns.py", "update_quantifier"): (ALL_PHASES, True, "pure function of (pattern, min, max)"),
    ("specs/openapi/references.py", "load_file"): (ALL_PHASES, True, "file content by location (the file is assumed unchanged during the process)"),
    ("specs/openapi/references.py", "load_file_uri"): (ALL_PHASES, True, "file content by location"),
    ("specs/openapi/stateful/__init__.py", "make_response_filter"): (["Stateful"], True, "pure function of (status code, all status codes)"),
}


def _verify_ps_evidence(idx: _PsIndex, hit: dict, evidence: str) -> str | None:
    """None when the evidence for the classification still holds, else what is wrong."""
    rel, fname = hit["rel"], hit["function"]
    if evidence == "memo_identity_key":
        cname = hit["carrier"].split(":")[-1]
        kinds = [k for r, _, k in idx.globals.get(cname, []) if r == rel]
        if kinds != ["WeakKeyDictionary"]:
            return f"`{cname}` is no longer a WeakKeyDictionary (identity-keyed, entries die with the run's objects)"
        fn = functions(idx.trees[rel]).get(fname)
        params = _fn_params(fn) if fn is not None else []
        ok = False
        for call in calls_in(fn) if fn is not None else []:
            if isinstance(call.func, ast.Attribute) and call.func.attr == "setdefault" and dotted(call.func.value) == cname:
                ok = len(call.args) == 2 and isinstance(call.args[0], ast.Name) and call.args[0].id in params and isinstance(call.args[1], ast.Dict) and not call.args[1].keys
        if not ok:
            return f"the entry is no longer created by `{cname}.setdefault(<parameter object>, {{}})`"
        if hit["kind"] not in ("item/attribute assignment", ".setdefault()"):
            return f"unexpected kind of mutation: {hit['kind']}"
        return None
    if evidence == "registry_api":
        names = {fname}
        for st in idx.trees[rel].body:
            if isinstance(st, ast.Assign) and isinstance(st.value, ast.Name) and st.value.id == fname:
                names |= {t.id for t in st.targets if isinstance(t, ast.Name)}
        for crel, tree in idx.trees.items():
            for call in calls_in(tree):
                target = _called_package_function(idx, crel, call)
                if target == (rel, fname):
                    return f"the registration function is now called from the package itself ({crel}:{call.lineno})"
                f = call.func
                if crel == rel and isinstance(f, ast.Name) and f.id in names:
                    return f"the registration function is now called from the package itself ({crel}:{call.lineno})"
        return None
    if evidence.startswith("import_time:"):
        outer = evidence.split(":", 1)[1]
        for crel, tree in idx.trees.items():
            in_fn = {id(c) for fn in ast.walk(tree) if isinstance(fn, (ast.FunctionDef, ast.AsyncFunctionDef)) for st in fn.body for c in ast.walk(st) if isinstance(c, ast.Call)}
            for call in calls_in(tree):
                name = dotted(call.func) or ""
                if name.split(".")[-1] == outer and id(call) in in_fn:
                    return f"{outer} is now called at run time ({crel}:{call.lineno}), not only while the module is imported"
        return None
    return f"unknown evidence kind {evidence}"


def _cached_impurity(idx: _PsIndex, rel: str, fn, written: set[str]) -> str | None:
    """Why the content of an entry of this lru_cache may not be a function of its key (syntactic)."""
    params = set(_fn_params(fn))
    for node in ast.walk(fn):
        if isinstance(node, ast.Name) and isinstance(node.ctx, ast.Load) and node.id not in params:
            g = idx.global_carrier(rel, node.id)
            if g is not None and g in written:
                return f"reads `{node.id}`, a process-wide object that is written elsewhere"
        if isinstance(node, ast.Attribute) and any(tok in node.attr.lower() for tok in ("allow_x00", "codec")):
            return f"reads configuration `{ast.unparse(node)}` that is not part of the key"
    return None


def process_state_sites(root: Path, generate_one_is_ambient: bool) -> tuple[list[dict], list[str]]:
    """The carried sites of today's source (Gen_C13.gen_carried) + the problems (unclassified / changed evidence)."""
    idx = _PsIndex(root)
    hits = process_state_scan(root)
    problems: list[str] = []
    sites: list[dict] = []
    groups: dict[tuple, list[dict]] = {}
    for h in hits:
        groups.setdefault(h["key"], []).append(h)
    next_id = 40
    written = {h["carrier"] for h in hits}
    for key in sorted(groups):
        hs = groups[key]
        h = hs[0]
        where = f"{h['rel']}:{','.join(str(x['line']) for x in hs)} {h['function']}: {h['kind']} on {h['carrier']} `{h['stmt'][:70]}`"
        dep = sorted({d for x in hs for d in x["config_dependent_evidence"]})
        cls_entry = PROCESS_STATE_CLASSIFIED.get(key)
        if cls_entry is None:
            problems.append(
                f"unclassified mutation of process-wide state: {where}"
                + (f" - depends on run configuration through: {', '.join(dep)}" if dep else " - no syntactic dependence on run configuration found")
                + "; what one run writes here is read by every later run in the same process"
            )
            sites.append({"id": next_id, "cclass": "RunWritten", "phases": ALL_PHASES, "in_request": True,
                          "where": where + " - UNCLASSIFIED" + (f", configuration-dependent ({', '.join(dep)})" if dep else ""), "key": list(key)})
        else:
            cclass, evidence, phases, in_request, why = cls_entry
            bad = None
            for x in hs:
                bad = bad or _verify_ps_evidence(idx, x, evidence)
            if bad is not None:
                problems.append(f"process-wide state {where}: classified {cclass} ({why}) but {bad}")
                cclass = "RunWritten"
            sites.append({"id": next_id, "cclass": cclass, "phases": phases, "in_request": in_request, "where": f"{where} - {why}", "key": list(key)})
        next_id += 1
    for key in sorted(PROCESS_STATE_CLASSIFIED):
        if key not in groups:
            problems.append(f"classified process-wide mutation disappeared (re-read the site): {key[0]} {key[1]} on {key[2]}")
    # the lru_cache'd functions themselves
    next_id = max(70, next_id)
    seen = set()
    for fname in sorted(idx.cached, key=lambda n: sorted(idx.cached[n])):
        pass
    entries = sorted((rel, line, fname, nargs, mutable) for fname, lst in idx.cached.items() for rel, line, nargs, mutable in lst)
    for rel, line, fname, nargs, mutable in entries:
        seen.add((rel, fname))
        fn = [n for n in ast.walk(idx.trees[rel]) if isinstance(n, (ast.FunctionDef, ast.AsyncFunctionDef)) and n.name == fname and n.lineno == line][0]
        cls_entry = CACHED_CLASSIFIED.get((rel, fname))
        where = f"{rel}:{line} @lru_cache {fname}({nargs} argument{'s' if nargs != 1 else ''})" + (", returns a mutable object" if mutable else "")
        if cls_entry is None:
            problems.append(f"unclassified lru_cache (process-wide memo): {where}; is the content of an entry a function of its key?")
            sites.append({"id": next_id, "cclass": "RunWritten", "phases": ALL_PHASES, "in_request": True, "where": where + " - UNCLASSIFIED", "key": [rel, fname]})
        else:
            phases, in_request, why = cls_entry
            cclass = "Memo"
            if why.startswith("AMBIENT"):
                # the memo of an unseeded draw: whoever runs first decides the content (unless generate_one became seeded)
                cclass = "RunWritten" if generate_one_is_ambient else "Memo"
            else:
                bad = _cached_impurity(idx, rel, fn, written)
                if bad is not None:
                    problems.append(f"{where}: classified as a pure memo ({why}) but {bad}")
                    cclass = "RunWritten"
            sites.append({"id": next_id, "cclass": cclass, "phases": phases, "in_request": in_request, "where": f"{where} - {why}", "key": [rel, fname]})
        next_id += 1
    for key in sorted(CACHED_CLASSIFIED):
        if key not in seen:
            problems.append(f"classified lru_cache disappeared (re-read the site): {key[0]} {key[1]}")
    return sites, problems


def _module_name(rel: str) -> str:
    parts = rel[:-3].split("/")
    if parts[-1] == "__init__":
        parts = parts[:-1]
    return ".".join(["schemathesis"] + parts)


def snapshot_carriers(root: Path, carried: list[dict]) -> list[dict]:
    """The process-wide containers whose content the runner snapshots around every run: every module-level mutable container and
    the return value of every zero-argument lru_cache'd function that returns a mutable object.  Each is tied to its carried site
    (class Memo / Registry / RunWritten); a container that no code mutates according to the scan is a Constant (ids 100+)."""
    idx = _PsIndex(root)
    by_carrier: dict[str, dict] = {}
    for c in carried:
        if c["id"] < 70:
            by_carrier.setdefault(c["key"][2], c)
        else:
            by_carrier.setdefault(f"{c['key'][0]}:{c['key'][1]}()", c)
    out = []
    next_const = 100
    for name in sorted(idx.globals):
        for rel, line, kind in sorted(idx.globals[name]):
            if kind.startswith("instance:"):
                continue
            site = by_carrier.get(f"{rel}:{name}")
            if site is None:
                out.append({"id": next_const, "cclass": "Constant", "module": _module_name(rel), "name": name, "call": False, "where": f"{rel}:{line} {name}"})
                next_const += 1
            else:
                out.append({"id": site["id"], "cclass": site["cclass"], "module": _module_name(rel), "name": name, "call": False, "where": f"{rel}:{line} {name}"})
    for fname in sorted(idx.cached):
        for rel, line, nargs, mutable in sorted(idx.cached[fname]):
            site = by_carrier.get(f"{rel}:{fname}()")
            if nargs == 0 and mutable and site is not None:
                out.append({"id": site["id"], "cclass": site["cclass"], "module": _module_name(rel), "name": fname, "call": True, "where": f"{rel}:{line} {fname}()"})
    return out


# ----------------------------------------------------------------------------------------
# sites 90+: writes to CALLER-OWNED CONFIGURATION (the input objects of a run)
# ----------------------------------------------------------------------------------------
# The caller hands a run its EngineConfig / ExecutionConfig / NetworkConfig / GenerationConfig / Override / checks config (and the
# loaded schema object).  A caller that keeps these objects and starts a second run with them carries whatever the first run wrote
# into them: they are part of the state carried from run to run, exactly like a module-level dict.  An *owned write* is an
# attribute / item assignment, `del`, `setattr` or in-place mutator call whose target object is reachable from
#   * a parameter that is a configuration object (annotation mentions ...Config / Override, or the name is `config` / `*_config`),
#   * `<anything>.config` / `<anything>.<x>_config` (EngineContext.config, self.config, schema.generation_config, ...),
#   * a local bound to such an expression (attribute access, subscripting, getattr, `.get()`),
#   * one level below a SHALLOW copy: `x = replace(cfg)` / `copy.copy(cfg)`: `x.a = v` is private to the copy, `x.a.b = v` writes into
#     the caller's `a` unless `a=` was given a fresh value in the replace() call,
# in the function itself or in a nested function / class body that closes over such a name.  Every hit must be classified in
# OWNED_WRITES_CLASSIFIED; anything else is emitted as a write site of Gen_C13.gen_owned_writes (fail closed) and reported.
_OWNED_ANNOTATION = re.compile(r"Config\b|\bOverride\b")
_SHALLOW_COPY_CALLS = {"replace", "copy"}
_DEEP_COPY_CALLS = {"deepcopy", "deepclone"}
# (file, function, written object) -> why this is not a write to an object the caller keeps
OWNED_WRITES_CLASSIFIED: dict[tuple[str, str, str], str] = {}


def _config_attr(attr: str) -> bool:
    a = attr.lower()
    return a == "config" or a.endswith("_config")


def _owned_params(fn) -> dict[str, tuple]:
    out = {}
    a = fn.args
    for x in a.posonlyargs + a.args + a.kwonlyargs:
        ann = ast.unparse(x.annotation) if x.annotation is not None else ""
        if x.arg in ("self", "cls"):
            continue
        if _OWNED_ANNOTATION.search(ann) or _config_attr(x.arg):
            out[x.arg] = ("owned", f"parameter `{x.arg}`" + (f": {ann}" if ann else ""))
    return out


class _OwnedScan:
    """One function (with the environment of the enclosing functions): which expressions denote caller-owned configuration."""

    def __init__(self, fn, outer_env: dict[str, tuple]):
        self.fn = fn
        bound = set(_fn_params(fn))
        for node in _ps_own_nodes(fn):
            bound.update(_bound_names(node))
        self.env = {k: v for k, v in outer_env.items() if k not in bound}
        self.env.update(_owned_params(fn))
        changed = True
        while changed:
            changed = False
            for node in _ps_own_nodes(fn):
                if isinstance(node, (ast.Assign, ast.AnnAssign, ast.NamedExpr)) and getattr(node, "value", None) is not None:
                    st = self.own(node.value)
                    if st is None:
                        continue
                    tgts = [node.target] if not isinstance(node, ast.Assign) else node.targets
                    for t in tgts:
                        if isinstance(t, ast.Name) and self._merge(t.id, st):
                            changed = True

    def _merge(self, name: str, st: tuple) -> bool:
        cur = self.env.get(name)
        if cur is None:
            self.env[name] = st
            return True
        if cur[0] == "owned":
            return False
        if st[0] == "owned":
            self.env[name] = st
            return True
        fresh = cur[1] & st[1]
        if fresh != cur[1]:
            self.env[name] = ("shallow", fresh, cur[2])
            return True
        return False

    def own(self, node):
        """None | ("owned", how) | ("shallow", attributes given a fresh value, how)."""
        if isinstance(node, ast.Name):
            return self.env.get(node.id)
        if isinstance(node, ast.Attribute):
            base = self.own(node.value)
            if base is not None:
                if base[0] == "shallow":
                    if node.attr in base[1]:
                        return None
                    return ("owned", f"`{ast.unparse(node)}` is still the caller's object: {base[2]} is a SHALLOW copy")
                return ("owned", base[1])
            if _config_attr(node.attr):
                return ("owned", f"`{ast.unparse(node)}`")
            return None
        if isinstance(node, ast.Subscript):
            base = self.own(node.value)
            return None if base is None else ("owned", base[-1])
        if isinstance(node, ast.Call):
            last = (dotted(node.func) or "?").split(".")[-1]
            if last in _DEEP_COPY_CALLS:
                return None
            if isinstance(node.func, ast.Name) and last == "getattr" and node.args:
                base = self.own(node.args[0])
                return None if base is None else ("owned", base[-1])
            if last in _SHALLOW_COPY_CALLS and (node.args or isinstance(node.func, ast.Attribute)):
                # replace(E, ..) / copy(E) / copy.copy(E) / dataclasses.replace(E, ..) / E.copy()
                src = node.args[0] if node.args else node.func.value
                base = self.own(src)
                if base is None:
                    return None
                fresh = {k.arg for k in node.keywords if k.arg is not None and (self.own(k.value) or ("shallow",))[0] == "shallow"}
                return ("shallow", frozenset(fresh), f"`{ast.unparse(node)[:60]}`")
            if isinstance(node.func, ast.Attribute) and last in _ELEMENT_GETTERS:
                base = self.own(node.func.value)
                return None if base is None else ("owned", base[-1])
            return None
        if isinstance(node, ast.IfExp):
            a, b = self.own(node.body), self.own(node.orelse)
            return a if (a is not None and a[0] == "owned") or b is None else b
        if isinstance(node, ast.BoolOp):
            got = [g for g in (self.own(v) for v in node.values) if g is not None]
            owned = [g for g in got if g[0] == "owned"]
            return (owned or got or [None])[0]
        if isinstance(node, ast.NamedExpr):
            return self.own(node.value)
        return None

    def hits(self):
        for node in _ps_own_nodes(self.fn):
            victims = []
            if isinstance(node, (ast.Assign, ast.AugAssign, ast.AnnAssign)):
                if isinstance(node, ast.AnnAssign) and node.value is None:
                    continue
                tgt = node.targets if isinstance(node, ast.Assign) else [node.target]
                for t in tgt:
                    for el in (t.elts if isinstance(t, (ast.Tuple, ast.List)) else [t]):
                        if isinstance(el, (ast.Subscript, ast.Attribute)):
                            victims.append((el.value, "item/attribute assignment"))
            elif isinstance(node, ast.Delete):
                victims += [(t.value, "del") for t in node.targets if isinstance(t, (ast.Subscript, ast.Attribute))]
            elif isinstance(node, ast.Call) and isinstance(node.func, ast.Attribute) and node.func.attr in _MUTATORS:
                victims.append((node.func.value, f".{node.func.attr}()"))
            elif isinstance(node, ast.Call) and isinstance(node.func, ast.Name) and node.func.id in ("setattr", "delattr") and node.args:
                victims.append((node.args[0], f"{node.func.id}()"))
            for victim, kind in victims:
                st = self.own(victim)
                if st is not None and st[0] == "owned":
                    yield node, victim, kind, st[1]


def owned_config_scan(root: Path) -> list[dict]:
    """Every write whose target object is reachable from caller-owned configuration (see above)."""
    idx = _PsIndex(root)
    hits = []

    def visit(fn, env, rel, qual):
        sc = _OwnedScan(fn, env)
        for node, victim, kind, how in sc.hits():
            hits.append({"rel": rel, "line": node.lineno, "function": qual, "kind": kind, "object": ast.unparse(victim), "how": how,
                         "stmt": ast.unparse(node)[:110].replace("\n", " "), "key": (rel, qual, ast.unparse(victim))})
        # nested functions and the bodies of nested classes close over the names of this function
        stack = list(fn.body)
        while stack:
            node = stack.pop()
            if isinstance(node, (ast.FunctionDef, ast.AsyncFunctionDef)):
                visit(node, sc.env, rel, f"{qual}.{node.name}")
                continue
            if isinstance(node, ast.Lambda):
                continue
            stack.extend(ast.iter_child_nodes(node))

    for rel, tree in idx.trees.items():
        stack = [(st, "") for st in tree.body]
        while stack:
            node, prefix = stack.pop()
            if isinstance(node, (ast.FunctionDef, ast.AsyncFunctionDef)):
                visit(node, {}, rel, prefix + node.name)
            elif isinstance(node, ast.ClassDef):
                stack.extend((st, f"{prefix}{node.name}.") for st in node.body)
            elif isinstance(node, (ast.If, ast.Try, ast.With)):
                stack.extend((st, prefix) for st in ast.iter_child_nodes(node) if isinstance(st, ast.stmt))
    hits.sort(key=lambda h: (h["rel"], h["line"], h["object"]))
    return hits


def _owned_phases(rel: str) -> list[str]:
    if rel.startswith("engine/phases/stateful") or rel.startswith("generation/stateful") or "/stateful/" in rel:
        return ["Stateful"]
    if rel.startswith("engine/phases/unit"):
        return ["Examples", "Coverage", "Fuzzing"]
    return ALL_PHASES


def owned_write_sites(root: Path) -> tuple[list[dict], list[dict], list[str]]:
    """(write sites emitted into Gen_C13.gen_owned_writes, classified hits, problems)."""
    groups: dict[tuple, list[dict]] = {}
    for h in owned_config_scan(root):
        groups.setdefault(h["key"], []).append(h)
    sites, classified, problems = [], [], []
    next_id = 90
    for key in sorted(groups):
        hs = groups[key]
        h = hs[0]
        where = f"{h['rel']}:{','.join(str(x['line']) for x in hs)} {h['function']}: {h['kind']} on `{h['object']}` ({h['how']}) `{h['stmt'][:80]}`"
        why = OWNED_WRITES_CLASSIFIED.get(key)
        if why is not None:
            classified.append({"where": where, "why": why, "key": list(key)})
            continue
        problems.append(f"unclassified write to caller-owned configuration: {where}; the object belongs to the caller of the engine: a second run "
                        "that is given the same EngineConfig / ExecutionConfig / ... object starts from what this run wrote into it")
        sites.append({"id": next_id, "phases": _owned_phases(h["rel"]), "where": where + " - UNCLASSIFIED", "key": list(key)})
        next_id += 1
    for key in sorted(OWNED_WRITES_CLASSIFIED):
        if key not in groups:
            problems.append(f"classified write to a configuration object disappeared (re-read the site): {key[0]} {key[1]} on {key[2]}")
    return sites, classified, problems


def render_wsite(s: dict) -> str:
    return f"mkWSite {s['id']} [{'; '.join(s['phases'])}]"


def render_csite(s: dict) -> str:
    phases = "[" + "; ".join(s["phases"]) + "]"
    return f"mkCSite {s['id']} {s['cclass']} {phases} {'true' if s['in_request'] else 'false'}"


# ----------------------------------------------------------------------------------------
# CLI seed selection
# ----------------------------------------------------------------------------------------
def _cli_expr(node, where) -> str:
    if isinstance(node, ast.BoolOp):
        op = "&&" if isinstance(node.op, ast.And) else "||"
        return "(" + f" {op} ".join(_cli_expr(v, where) for v in node.values) + ")"
    if isinstance(node, ast.UnaryOp) and isinstance(node.op, ast.Not):
        return f"(negb {_cli_expr(node.operand, where)})"
    if isinstance(node, ast.Compare) and len(node.ops) == 1 and isinstance(node.comparators[0], ast.Constant) and node.comparators[0].value is None:
        _need(dotted(node.left) == "generation_seed", f"{where}: `is None` on something else than generation_seed")
        if isinstance(node.ops[0], ast.Is):
            return "(match given with None => true | Some _ => false end)"
        if isinstance(node.ops[0], ast.IsNot):
            return "(match given with None => false | Some _ => true end)"
    if isinstance(node, ast.Name) and node.id == "generation_deterministic":
        return "deterministic"
    raise TranslationError(f"{where}: cannot translate condition `{ast.unparse(node)}`")


def _cli_value(node, where) -> str:
    if dotted(node) == "generation_seed":
        return "given"
    if isinstance(node, ast.Call) and ast.unparse(node) in ("Random().getrandbits(128)", "random.Random().getrandbits(128)"):
        return "(Some fresh)"
    if isinstance(node, ast.Constant) and node.value is None:
        return "None"
    raise TranslationError(f"{where}: cannot translate seed value `{ast.unparse(node)}`")


def cli_seed(root: Path) -> tuple[str, str]:
    rel = "cli/commands/run/__init__.py"
    tree = parse(root, rel)
    fns = functions(tree)
    _need("run" in fns, f"{rel}: the run command is gone")
    fn = fns["run"]
    params = {a.arg for a in fn.args.args + fn.args.kwonlyargs}
    _need({"generation_seed", "generation_deterministic"} <= params, f"{rel}: run() lost generation_seed / generation_deterministic")
    stmt = None
    for node in ast.walk(fn):
        if isinstance(node, ast.If):
            assigns = [s for s in node.body + node.orelse if isinstance(s, ast.Assign) and len(s.targets) == 1 and dotted(s.targets[0]) == "seed"]
            if len(assigns) == 2 and len(node.body) == 1 and len(node.orelse) == 1:
                _need(stmt is None, f"{rel}: two seed selection statements")
                stmt = node
    _need(stmt is not None, f"{rel}: the seed selection `if ...: seed = ... else: seed = ...` is gone")
    where = f"{rel}:{stmt.lineno}"
    cond = _cli_expr(stmt.test, where)
    a = _cli_value(stmt.body[0].value, where)
    b = _cli_value(stmt.orelse[0].value, where)
    # seed reaches ExecutionConfig unchanged, derandomize is generation_deterministic; the option is spelled --seed
    okseed = False
    okder = False
    for call in calls_in(fn):
        name = dotted(call.func) or ""
        if name.endswith("ExecutionConfig"):
            kw = {k.arg: k.value for k in call.keywords}
            okseed = "seed" in kw and dotted(kw["seed"]) == "seed"
        if name.endswith("prepare_settings"):
            kw = {k.arg: k.value for k in call.keywords}
            okder = "derandomize" in kw and dotted(kw["derandomize"]) == "generation_deterministic"
    _need(okseed, f"{rel}: ExecutionConfig(seed=seed) is gone")
    _need(okder, f"{rel}: prepare_settings(derandomize=generation_deterministic) is gone")
    # no other write to `seed` between the statement and its use
    writes = [n for n in ast.walk(fn) if isinstance(n, (ast.Assign, ast.AugAssign)) and any(dotted(t) == "seed" for t in (n.targets if isinstance(n, ast.Assign) else [n.target]))]
    _need(len(writes) == 2, f"{rel}: `seed` is written {len(writes)} times in run(), expected the two branches only")
    src = (root / rel).read_text()
    _need('"--seed",\n    "generation_seed",' in src, f"{rel}: the --seed option no longer maps to generation_seed")
    _need('"--generation-deterministic"' in src, f"{rel}: --generation-deterministic is gone")
    body = f"if {cond} then {a} else {b}"
    return body, where


# ----------------------------------------------------------------------------------------
# whole-package scan for entropy primitives
# ----------------------------------------------------------------------------------------
OUT_OF_SCOPE = {
    "pytest/": "pytest integration (not the engine; Hypothesis there is configured by the user)",
    "contrib/": "opt-in contrib hooks, not installed by default",
    "cli/commands/run/handlers/": "reporting only",
    "python/": "python-level helpers, not on the request path",
    "core/_verif.py": "verification hooks",
}
EXPECTED_PRIMITIVES = {
    ("generation/hypothesis/builder.py", "create_base_test", "given"),
    ("generation/hypothesis/builder.py", "create_test", "seed"),
    ("generation/hypothesis/examples.py", "example_generating_inner_function", "given"),
    ("generation/hypothesis/examples.py", "add_single_example", "seed"),
    ("engine/phases/stateful/_executor.py", "execute_state_machine_loop", "seed"),
    ("generation/__init__.py", "<module>", "Random"),
    ("generation/__init__.py", "generate_random_case_id", "RANDOM"),
    ("transport/requests.py", "choose_boundary", "urandom"),
    ("cli/commands/run/__init__.py", "run", "Random"),
    ("cli/commands/run/__init__.py", "run", "getrandbits"),
    # ids of events / scenarios: never part of a request
    ("engine/events.py", "__init__", "uuid4"),
    ("cli/commands/run/events.py", "__init__", "uuid4"),
    # decorators that only forward to the user's own @given (public API, not the engine path)
    ("schemas.py", "given", "given"),
    ("schemas.py", "wrapper", "given"),
}


def scan_primitives(root: Path) -> list[tuple[str, str, str, int]]:
    hits = []
    for p in sorted(root.rglob("*.py")):
        rel = str(p.relative_to(root))
        if any(rel.startswith(pref) for pref in OUT_OF_SCOPE):
            continue
        try:
            tree = ast.parse(p.read_text())
        except SyntaxError as exc:
            raise TranslationError(f"{rel}: does not parse: {exc}") from None
        owner = {}
        for fn in ast.walk(tree):
            if isinstance(fn, (ast.FunctionDef, ast.AsyncFunctionDef)):
                for n in ast.walk(fn):
                    if isinstance(n, ast.Call):
                        owner[n] = fn.name  # innermost wins because ast.walk visits outer first and we overwrite
        for call in calls_in(tree):
            name = dotted(call.func) or (call.func.attr if isinstance(call.func, ast.Attribute) else None)
            if name is None:
                continue
            last = name.split(".")[-1]
            prim = None
            if last == "given" and name in ("given", "hypothesis.given"):
                prim = "given"
            elif name in ("seed", "hypothesis.seed"):
                prim = "seed"
            elif name in ("find", "hypothesis.find"):
                prim = "find"
            elif last == "example" and not call.args and not call.keywords and isinstance(call.func, ast.Attribute):
                prim = "example()"
            elif last == "Random" and name in ("Random", "random.Random", "random.SystemRandom"):
                prim = "Random"
            elif name.startswith("random.") and last != "Random":
                prim = "random"
            elif name.startswith("RANDOM."):
                prim = "RANDOM"
            elif last in ("uuid4", "uuid1"):
                prim = "uuid4"
            elif last == "urandom":
                prim = "urandom"
            elif name.startswith("secrets."):
                prim = "secrets"
            elif last == "getrandbits":
                prim = "getrandbits"
            if prim is None:
                continue
            hits.append((rel, owner.get(call, "<module>"), prim, call.lineno))
        # decorators written without a call: @given is always called, nothing to do
    return hits


def check_primitives(root: Path) -> list[str]:
    hits = scan_primitives(root)
    unknown = [h for h in hits if (h[0], h[1], h[2]) not in EXPECTED_PRIMITIVES]
    _need(not unknown, "unclassified entropy primitive(s): " + "; ".join(f"{r}:{ln} {prim} in {fn}" for r, fn, prim, ln in unknown[:8]))
    got = {(h[0], h[1], h[2]) for h in hits}
    missing = [e for e in EXPECTED_PRIMITIVES if e not in got and e[0] != "schemas.py"]
    _need(not missing, "classified entropy primitive(s) disappeared (re-read the site): " + "; ".join(f"{r} {prim} in {fn}" for r, fn, prim in missing[:8]))
    return [f"{r}:{ln} {prim} in {fn}" for r, fn, prim, ln in hits]


# ----------------------------------------------------------------------------------------
# rendering
# ----------------------------------------------------------------------------------------
def render_tag(tag) -> str:
    if tag[0] == "Seeded":
        return f"(Seeded {tag[1]} {tag[2]})"
    return f"(Ambient {tag[1]})"


def render_site(s: dict) -> str:
    phases = "[" + "; ".join(s["phases"]) + "]"
    b = lambda x: "true" if x else "false"  # noqa: E731
    return f"mkSite {s['id']} {render_tag(s['tag'])} {phases} {b(s['neg_only'])} {b(s['multipart_only'])} {b(s['in_request'])}"


def clean_comment(text: str) -> str:
    return text.replace('"', "").replace("'", "").replace("(*", "(").replace("*)", ")")


def translate(root: Path | None = None) -> dict:
    root = root or src_root()
    _need(root.exists(), f"{root}: source root is gone")
    sites = [unit_site(root), stateful_site(root)]
    sites += generate_one_sites(root)
    sites.append(case_id_site(root))
    b = boundary_site(root)
    if b is not None:
        sites.append(b)
    sites += hash_order_sites(root)
    sites += cross_operation_sites(root)
    cli_body, cli_where = cli_seed(root)
    problems = []
    carried, ps_problems = process_state_sites(root, generate_one_tag(root)[0][0] == "Ambient")
    problems += ps_problems
    owned_sites, owned_classified, owned_problems = owned_write_sites(root)
    problems += owned_problems
    try:
        prims = check_primitives(root)
    except TranslationError as exc:  # the plan is still emitted (so that the proofs see it); the check reports the broken tie
        prims = []
        problems.append(str(exc))
    lines = [
        "(* GENERATED by harness/props/c13_translate.py from the schemathesis source on every run of ./check C13.  Do not edit. *)",
        "From Coq Require Import List NArith Bool.",
        "From Verif Require Import C13.Model_C13.",
        "Import ListNotations.",
        "Open Scope N_scope.",
        "",
        "(* One entry per draw site of the source: where a request value can come from, and whether that source of randomness is a",
        "   function of the configured seed (Seeded offset step) or of something else (Ambient kind). *)",
        "Definition gen_sites : list site := [",
    ]
    for i, s in enumerate(sites):
        sep = ";" if i + 1 < len(sites) else ""
        lines.append(f"  (* {clean_comment(s['where'])} *)")
        lines.append(f"  {render_site(s)}{sep}")
    lines += [
        "].",
        "",
        f"(* {clean_comment(cli_where)}: seed selection of the run command; given = --seed, deterministic = --generation-deterministic,",
        "   fresh = Random().getrandbits(128) *)",
        "Definition gen_cli_seed (given : option N) (deterministic : bool) (fresh : N) : option N :=",
        f"  {cli_body}.",
        "",
        "(* Process-wide mutable state that generation code writes and reads (carried from one run to the next in the same process):",
        "   40+ = in-place mutations of module-level objects / return values of lru_cache-d functions / class-level attributes,",
        "   70+ = the lru_cache-d functions themselves.  Memo / Registry are safe, RunWritten is not (Model_C13.cclass). *)",
        "Definition gen_carried : list csite := [",
    ]
    for i, c in enumerate(carried):
        sep = ";" if i + 1 < len(carried) else ""
        lines.append(f"  (* {clean_comment(c['where'])} *)")
        lines.append(f"  {render_csite(c)}{sep}")
    lines += [
        "].",
        "",
        "(* Writes to CALLER-OWNED CONFIGURATION: places where code reachable from a run assigns into / mutates in place an object the",
        "   caller handed to the engine (EngineConfig / ExecutionConfig / NetworkConfig / GenerationConfig / Override / checks config),",
        "   directly, through an alias, or one level below a shallow dataclasses.replace() / copy.copy().  A caller that reuses the",
        "   objects for a second run carries what the first run wrote (Model_C13.wsite).  None is the expected state. *)",
        "Definition gen_owned_writes : list wsite := [",
    ]
    for i, w in enumerate(owned_sites):
        sep = ";" if i + 1 < len(owned_sites) else ""
        lines.append(f"  (* {clean_comment(w['where'])} *)")
        lines.append(f"  {render_wsite(w)}{sep}")
    lines += ["].", ""]
    text = "\n".join(lines)
    return {"text": text, "sites": sites, "cli": cli_body, "primitives": prims, "problems": problems, "carried": carried,
            "owned_writes": owned_sites, "owned_classified": owned_classified,
            "snapshot_carriers": snapshot_carriers(root, carried)}


def write_gen(target: Path, text: str) -> bool:
    """Write only when the content changed (keeps incremental builds cheap); returns True if rewritten."""
    if target.exists() and target.read_text() == text:
        return False
    target.parent.mkdir(parents=True, exist_ok=True)
    tmp = target.with_suffix(".v.tmp")
    tmp.write_text(text)
    tmp.replace(target)
    return True


if __name__ == "__main__":
    res = translate()
    print(res["text"])
