"""C19, stage multi_schema_evaluation: the SAME filter sets asked about operations of several schemas that share labels.

A label (`METHOD path`) identifies an operation inside one schema only.  The filter set of a global hook, of a hook on a test
dispatcher or of a global auth provider is evaluated against the operations of every loaded schema, in whatever order the tests
run.  The property says: a registration applies to exactly the operations its own filters select - so the verdict for the k-th
operation of an evaluation sequence may depend on that operation's attributes (method, path, tags, operationId, its definition
for matcher functions) and on nothing that was evaluated before.

One history = registrations of hooks (global / schema.hooks / schema.hook / test, all decorator forms, apply_to / skip_for by
name, method, path, tag, operation_id, *_regex, matcher functions) and of auth providers (global / schema / test storage,
register / set_from_requests) on 2-3 REAL schema objects whose documents share labels but differ in tags / operationId /
deprecated / requestBody, then an evaluation sequence over their operations (same label from different schemas in both orders,
repeated).  Every evaluation = real dispatch (apply_to_all_dispatchers, APIOperation.as_strategy), real data generation
(as_strategy + Hypothesis draws, auth applied by the generator) and auths.set_on_case.  Compared with
  (a) the property read directly from the raw documents (oracle: a mismatch is a concrete failing input),
  (b) Model_C19.eval_trace / auth_trace with match_plain (the definitions of C19_filter_evaluation_pure, C19_auth_evaluation_pure),
  (c) the sentinel match_cached (C19_label_cache_refuted): the code must not behave like it where the two differ.
"""
from __future__ import annotations

import re

from harness import core
from harness.core import cN, cbool, clist, cnat, copt
from harness.props import c19 as B

# ----------------------------------------------------------------------------------------
# three API documents with the same labels and different attributes
# ----------------------------------------------------------------------------------------
def _opx(path, tags=None, opid=None, body=False, deprecated=False):
    d = B._op(path, tags, opid, body)
    if deprecated:
        d["deprecated"] = True
    return d


def _doc(title, paths):
    return {"openapi": "3.0.2", "info": {"title": title, "version": "1"}, "paths": paths}


RAW_B = _doc("b", {
    "/users": {
        "get": _opx("/users", ["admin"], "adminListUsers", deprecated=True),
        "post": _opx("/users", None, None, body=True),
    },
    "/users/{id}": {
        "get": _opx("/users/{id}", ["users", "admin"], "getUser"),
        "delete": _opx("/users/{id}", [], "deleteUser", deprecated=True),
        "put": _opx("/users/{id}", ["admin"], "replaceUser"),  # no request body here
    },
    "/items": {"patch": _opx("/items", ["items"], "patchItem", body=True)},
})
RAW_C = _doc("c", {
    "/users": {
        "get": _opx("/users", ["users"], "listUsers"),  # the attributes of schema 0: the same verdict is right here
        "post": _opx("/users", ["public"], "createUser", body=True, deprecated=True),
    },
    "/orders": {"get": _opx("/orders", ["users"], "listOrders")},
})
RAWS = [B.RAW, RAW_B, RAW_C]


def _mfacts():
    """What a filter may look at, read from the raw documents; idx = position in the universe of ALL schemas."""
    out = []
    for k, raw in enumerate(RAWS):
        for path, item in raw["paths"].items():
            for method, d in item.items():
                out.append({
                    "idx": len(out), "schema": k, "label": f"{method.upper()} {path}", "method": method, "path": path,
                    "tags": d.get("tags"), "opid": d.get("operationId"), "deprecated": bool(d.get("deprecated")), "body": "requestBody" in d,
                })
    return out


MFACTS = _mfacts()


def describe(u):
    f = MFACTS[u]
    return f"{f['label']} of schema {f['schema']} (tags={f['tags']}, operationId={f['opid']!r}, deprecated={f['deprecated']}, requestBody={f['body']})"


# ---------- matcher functions (real ones, given to apply_to / skip_for) and their reading of the raw document ----------
def m_deprecated(ctx):
    return bool(ctx.operation.definition.raw.get("deprecated", False))


def m_tagged(ctx):
    return bool(ctx.operation.tags)


def m_has_body(ctx):
    return "requestBody" in ctx.operation.definition.raw


def m_is_get(ctx):
    return ctx.operation.method.upper() == "GET"


MS_FUNCS = [m_deprecated, m_tagged, m_has_body, m_is_get]
MS_FUNC_ORACLE = [lambda f: f["deprecated"], lambda f: bool(f["tags"]), lambda f: f["body"], lambda f: f["method"] == "get"]
MS_FUNC_NAMES = [fn.__name__ for fn in MS_FUNCS]
MS_REGEXES = [("path", "id"), ("tag", "^a"), ("tag", "s$"), ("operation_id", "User$"), ("operation_id", "^(admin|delete)"), ("name", "users$"), ("method", "^p")]


def _regex_holds(attr, pat, fact):
    have = fact[B.FACT_KEY[attr]]
    if have is None:
        return False
    if attr == "method":
        have = have.upper()
    haves = have if isinstance(have, list) else [have]
    return any(re.search(pat, h, re.IGNORECASE if attr == "method" else 0) for h in haves)


MS_FUNC_TABLE = [[f["idx"] for f in MFACTS if orc(f)] for orc in MS_FUNC_ORACLE]
MS_REGEX_TABLE = [[f["idx"] for f in MFACTS if _regex_holds(a, p, f)] for a, p in MS_REGEXES]

# criteria of one apply_to / skip_for call: attr -> value | list, attr_regex -> pattern, func -> name of a matcher function
MS_CRIT = [
    {"tag": "admin"}, {"tag": "users"}, {"tag": ["public", "items"]}, {"operation_id": "listUsers"}, {"operation_id": "adminListUsers"},
    {"operation_id": ["getUser", "createUser"]}, {"func": "m_deprecated"}, {"func": "m_tagged"}, {"func": "m_has_body"},
    {"tag_regex": "^a"}, {"tag_regex": "s$"}, {"operation_id_regex": "User$"}, {"operation_id_regex": "^(admin|delete)"}, {"path_regex": "id"},
    {"path": "/users"}, {"method": "GET"}, {"name": "GET /users"}, {"method": "get", "tag": "admin"}, {"path": "/users", "func": "m_deprecated"},
    {"name": ["POST /users", "PUT /users/{id}"], "tag": "admin"}, {"func": "m_is_get", "operation_id_regex": "User$"}, {"name_regex": "users$", "tag": "users"},
    {"method": ["put", "delete"], "func": "m_tagged"}, {"path": "/none"},
]


def ms_match(crit, fact) -> bool:
    """Does one apply_to / skip_for call select the operation?  Read from the documentation of the filters: every given criterion holds."""
    for key, want in crit.items():
        if key == "func":
            if not MS_FUNC_ORACLE[MS_FUNC_NAMES.index(want)](fact):
                return False
        elif key.endswith("_regex"):
            if not _regex_holds(key[: -len("_regex")], want, fact):
                return False
        elif not B.expected_match({key: want}, fact):
            return False
    return True


def ms_selected(filters, fact) -> bool:
    inc = [c for kind, c in filters if kind == "apply_to"]
    exc = [c for kind, c in filters if kind == "skip_for"]
    if any(ms_match(c, fact) for c in exc):
        return False
    return not inc or any(ms_match(c, fact) for c in inc)


def ms_kwargs(crit):
    kw = {}
    for key, want in crit.items():
        if key == "func":
            kw["func"] = MS_FUNCS[MS_FUNC_NAMES.index(want)]
        else:
            kw[key] = list(want) if isinstance(want, list) else want
    return kw


def ms_c_call(crit):
    call = {"func": None, "crit": {}}
    for key, want in crit.items():
        if key == "func":
            call["func"] = MS_FUNC_NAMES.index(want)
        elif key.endswith("_regex"):
            call["crit"][key[: -len("_regex")]] = [None, MS_REGEXES.index((key[: -len("_regex")], want))]
        else:
            call["crit"][key] = [want, None]
    return B.c_call(call, func_table=MS_FUNC_TABLE, regex_table=MS_REGEX_TABLE)


# ----------------------------------------------------------------------------------------
# environment: n real schema objects, the global dispatcher / storage, one test
# ----------------------------------------------------------------------------------------
class MultiEnv:
    def __init__(self, n):
        import schemathesis
        from schemathesis import auths as A
        from schemathesis import hooks as H

        self.H, self.A, self.n = H, A, n
        B.Env.flush_global(self)
        A.GLOBAL_AUTH_STORAGE.unregister()
        self.schemas = [schemathesis.openapi.from_dict(RAWS[k]) for k in range(n)]

        def test(case):
            pass

        self.test = test
        self.tdisp = H.HookDispatcher.add_dispatcher(test)
        self.disps = [H.GLOBAL_HOOK_DISPATCHER] + [s.hooks for s in self.schemas] + [self.tdisp]
        self.ops = {f["idx"]: self.schemas[f["schema"]][f["path"]][f["method"].upper()] for f in MFACTS if f["schema"] < n}
        self.op_index = {id(o): u for u, o in self.ops.items()}
        self.ran = []  # (registration id, index of the operation in ctx) for every call of a hook during real generation

    def closure(self, r):
        if r["scope"] == "global":
            return self.H.GLOBAL_HOOK_DISPATCHER.register
        if r["scope"] == "test":
            return self.tdisp.register
        s = self.schemas[r["schema"]]
        return s.hooks.register if r["scope"] == "schema" else s.hook

    def disp_index(self, r):
        return 0 if r["scope"] == "global" else (self.n + 1 if r["scope"] == "test" else 1 + r["schema"])

    def close(self):
        self.H.GLOBAL_HOOK_DISPATCHER.unregister_all()
        self.A.GLOBAL_AUTH_STORAGE.unregister()
        B.Env.flush_global(self)


def ms_make_fn(env, kind, rid, name):
    """One function object per registration; works under a real strategy (records the operation of its context) and under FakeStrategy."""
    from hypothesis import strategies as st

    def record(ctx):
        B.RAN.append(rid)
        env.ran.append((rid, env.op_index.get(id(ctx.operation), -1)))

    if kind == "map":
        def fn(ctx, value):
            record(ctx)
            return value
    elif kind == "filter":
        def fn(ctx, value):
            record(ctx)
            return True
    elif kind == "flatmap":
        def fn(ctx, value):
            record(ctx)
            return st.just(value)
    else:
        def fn(ctx, strategy):
            if isinstance(strategy, B.FakeStrategy):
                strategy.log.append(("call", rid))
                return strategy
            return strategy.map(lambda v: (record(ctx), v)[1])
    fn.__name__ = fn.__qualname__ = name
    fn.fid = rid
    return fn


def _chain(t, fs):
    for k, c in fs:
        t = getattr(t, k)(**ms_kwargs(c))
    return t


def ms_register(env, r, fn):
    target = env.closure(r)
    if r["form"] == "function":
        _chain(target, r["filters"])(fn)
    elif r["form"] == "apply":
        env.schemas[0].hooks.apply(fn, name=r["hook"])(env.test)
    elif r["form"] == "named":
        _chain(target, r["filters"])(r["hook"])(fn)
    elif r["form"] == "named_inner":
        _chain(target(r["hook"]), r["filters"])(fn)
    else:
        half = len(r["filters"]) // 2
        _chain(_chain(target, r["filters"][:half])(r["hook"]), r["filters"][half:])(fn)


def ms_auth_register(env, a):
    import requests.auth

    A = env.A
    if a["storage"] == "test":
        _chain(env.schemas[0].auth.apply(B.make_provider_cls(a["id"])), a["filters"])(env.test)
        return
    storage = A.GLOBAL_AUTH_STORAGE if a["storage"] == "global" else env.schemas[a["schema"]].auth
    if a["form"] == "register":
        _chain(storage.register(), a["filters"])(B.make_provider_cls(a["id"]))
    else:
        auth = requests.auth.HTTPBasicAuth("u", "p")
        auth.cid = a["id"]
        _chain(storage.set_from_requests(auth), a["filters"])


def _auth_of(case):
    if getattr(case, "_auth", None) is not None:
        return case._auth.cid
    if case.headers and "Authorization" in case.headers:
        return int(case.headers["Authorization"].split("-")[1])
    return None


def ms_eval(env, u, with_test, seed, examples=2):
    """Present operation u to the dispatchers and storages: real dispatch, real data generation, set_on_case."""
    import hypothesis

    H, A = env.H, env.A
    o = env.ops[u]
    ctx = H.HookContext(o)
    tdisp = env.tdisp if with_test else None
    rows = []
    for tg in B.PARAM_TARGETS:
        log = []
        H.apply_to_all_dispatchers(o, ctx, tdisp, B.FakeStrategy(log), tg)
        rows.append([[B.FAKE_KIND[k], fid] for k, fid in B.resolve_log(log)])
    log = []
    o.schema.get_case_strategy = lambda *a, **k: B.FakeStrategy(log)  # instance attribute of OUR schema object
    try:
        o.as_strategy(hooks=tdisp)
    finally:
        del o.schema.get_case_strategy
    rows.append([[B.FAKE_KIND[k], fid] for k, fid in B.resolve_log(log)])
    # real data generation; the generator applies auth itself
    storage = A.AuthStorageMark.get(env.test) if with_test else None
    del env.ran[:]
    seen_auth = []
    strategy = o.as_strategy(hooks=tdisp, auth_storage=storage)

    @hypothesis.seed(seed)
    @hypothesis.settings(max_examples=examples, database=None, deadline=None, derandomize=False, phases=[hypothesis.Phase.generate],
                         suppress_health_check=list(hypothesis.HealthCheck))
    @hypothesis.given(case=strategy)
    def run_one(case):
        seen_auth.append(_auth_of(case))

    run_one()
    ran = sorted({rid for rid, w in env.ran if w == u})
    stray = sorted({(rid, w) for rid, w in env.ran if w != u})
    case = o.Case()
    try:
        A.set_on_case(case, A.AuthContext(operation=o, app=None), storage)
        direct = _auth_of(case)
    except Exception as exc:  # noqa: BLE001
        direct = f"raises:{type(exc).__name__}"
    return {"rows": rows, "ran": ran, "stray": [list(x) for x in stray], "auth_direct": direct,
            "auth_generated": sorted(set(seen_auth), key=lambda x: (x is None, x))}


def ms_run(hist, seed=0):
    """Execute the events on real objects -> one observation per eval event."""
    env = MultiEnv(hist["schemas"])
    funcs, out = {}, []
    try:
        for ev in hist["events"]:
            if ev[0] == "register":
                r = ev[1]
                kind = next(k for k in B.ORACLE_KINDS if r["hook"].startswith(k + "_"))
                fn = ms_make_fn(env, kind, r["id"], r["fn_name"])
                funcs[r["id"]] = (fn, r)
                ms_register(env, r, fn)
            elif ev[0] == "unregister":
                fn, r = funcs[ev[1]]
                env.disps[env.disp_index(r)].unregister(fn)
            elif ev[0] == "auth":
                ms_auth_register(env, ev[1])
            elif ev[0] == "auth_unregister":
                (env.A.GLOBAL_AUTH_STORAGE if ev[1] == "global" else env.schemas[ev[1]].auth).unregister()
            else:
                out.append(ms_eval(env, ev[1], ev[2], seed))
    finally:
        for s in env.schemas:
            s.hooks.unregister_all()
        env.close()
    return out


# ----------------------------------------------------------------------------------------
# the property read directly
# ----------------------------------------------------------------------------------------
def ms_expected(hist):
    live, stor, out = {}, {"global": [], "test": []}, []
    for ev in hist["events"]:
        if ev[0] == "register":
            live[ev[1]["id"]] = ev[1]
        elif ev[0] == "unregister":
            live.pop(ev[1], None)
        elif ev[0] == "auth":
            a = ev[1]
            key = a["storage"] if a["storage"] != "schema" else a["schema"]
            stor.setdefault(key, []).append(a)
        elif ev[0] == "auth_unregister":
            stor[ev[1]] = []
        else:
            _, u, with_test = ev
            f = MFACTS[u]

            def in_scope(r):
                if r["scope"] == "global":
                    return True
                if r["scope"] == "test":
                    return with_test
                return r["schema"] == f["schema"]

            sel = [r for r in live.values() if in_scope(r) and ms_selected(r["filters"], f)]
            per_target = [sorted(r["id"] for r in sel if B.hook_target(r["hook"]) == tg) for tg in B.ORACLE_TARGETS_COQ]
            ran = sorted(r["id"] for r in sel if B.hook_target(r["hook"]) != "body" or f["body"])
            charge = stor["test"] if with_test and stor["test"] else (stor.get(f["schema"]) or stor["global"])
            auth = next((a["id"] for a in charge if ms_selected(a["filters"], f)), None)
            out.append({"per_target": per_target, "ran": ran, "auth": auth})
    return out


def ms_oracle(hist, real):
    """-> list of messages: registrations / providers applied contrary to their own filters."""
    bad = []
    evals = [(j, ev) for j, ev in enumerate(hist["events"]) if ev[0] == "eval"]
    regs = {ev[1]["id"]: ev[1] for ev in hist["events"] if ev[0] == "register"}
    auths = {ev[1]["id"]: ev[1] for ev in hist["events"] if ev[0] == "auth"}
    before = []
    for (j, ev), obs, exp in zip(evals, real, ms_expected(hist)):
        u = ev[1]
        where = f"event {j}: evaluation of {describe(u)}{' with the test dispatcher/storage' if ev[2] else ''}, after the evaluation of {before or 'nothing'}"

        def reg_desc(rid):
            r = regs.get(rid)
            if r is None:
                return f"#{rid}"
            return f"#{rid} ({r['hook']}, {r['form']} form on {r['scope']}{'' if r['scope'] in ('global', 'test') else ' of schema %d' % r['schema']}, own filters {r['filters'] or 'none'})"

        for ti, tg in enumerate(B.ORACLE_TARGETS_COQ):
            got = sorted(fid for _, fid in obs["rows"][ti])
            if got != exp["per_target"][ti]:
                extra = [x for x in got if x not in exp["per_target"][ti]]
                missing = [x for x in exp["per_target"][ti] if x not in got]
                bad.append(f"{where}: dispatch for {tg} applied hook registrations {got}, their own filters select {exp['per_target'][ti]}"
                           + (f"; wrongly applied {[reg_desc(x) for x in extra]}" if extra else "")
                           + (f"; wrongly skipped {[reg_desc(x) for x in missing]}" if missing else ""))
                break
        if obs["ran"] != exp["ran"]:
            extra = [x for x in obs["ran"] if x not in exp["ran"]]
            missing = [x for x in exp["ran"] if x not in obs["ran"]]
            bad.append(f"{where}: real data generation ran hook registrations {obs['ran']}, their own filters select {exp['ran']}"
                       + (f"; wrongly applied {[reg_desc(x) for x in extra]}" if extra else "")
                       + (f"; wrongly skipped {[reg_desc(x) for x in missing]}" if missing else ""))
        if obs["stray"]:
            bad.append(f"{where}: hooks ran with the context of ANOTHER operation: {obs['stray']}")

        def auth_desc(aid):
            a = auths.get(aid)
            return "none" if a is None else f"#{aid} ({a['form']} on {a['storage']}{'' if a['storage'] != 'schema' else ' %d' % a['schema']}, own filters {a['filters'] or 'none'})"

        if obs["auth_direct"] != exp["auth"]:
            bad.append(f"{where}: set_on_case authenticated with provider {auth_desc(obs['auth_direct']) if not isinstance(obs['auth_direct'], str) else obs['auth_direct']}, "
                       f"the first provider in charge whose own filters select the operation is {auth_desc(exp['auth'])}")
        elif obs["auth_generated"] != [exp["auth"]]:
            bad.append(f"{where}: generated cases carried the credentials of providers {obs['auth_generated']}, "
                       f"the first provider in charge whose own filters select the operation is {auth_desc(exp['auth'])}")
        before = before + [f"{MFACTS[u]['label']} of schema {MFACTS[u]['schema']}"]
    return bad


# ----------------------------------------------------------------------------------------
# the model: Model_C19.eval_observe / auth_eval_observe
# ----------------------------------------------------------------------------------------
def _closure_index(r, n):
    if r["scope"] == "global":
        return 0
    if r["scope"] == "test":
        return 1 + 2 * n
    return 1 + 2 * r["schema"] + (0 if r["scope"] == "schema" else 1)


def _disp_index(r, n):
    return 0 if r["scope"] == "global" else (n + 1 if r["scope"] == "test" else 1 + r["schema"])


def c_eval_observe(hist):
    n = hist["schemas"]
    regs = {ev[1]["id"]: ev[1] for ev in hist["events"] if ev[0] == "register"}
    out, n_dec = [], 0
    for ev in hist["events"]:
        if ev[0] == "eval":
            out.append(f"(QEval {cnat(1 + MFACTS[ev[1]]['schema'])} {copt(cnat(n + 1) if ev[2] else None, 'nat')} {B.c_oper(MFACTS[ev[1]])})")
        elif ev[0] == "unregister":
            out.append(f"(QOp (OUnregister {cnat(_disp_index(regs[ev[1]], n))} {cN(ev[1])}))")
        elif ev[0] == "register":
            r = ev[1]
            c = cnat(_closure_index(r, n))
            fn = "{| h_id := %s; h_name := %s; h_arity := 2%%nat |}" % (cN(r["id"]), B.c_hname(r["fn_name"]))
            fl = [(cbool(k == "apply_to"), ms_c_call(cr)) for k, cr in r["filters"]]
            if r["form"] == "apply":
                out.append(f"(QOp (ODirect {cnat(n + 1)} {fn} {B.c_hname(r['hook'])}))")
                continue
            if r["form"] == "function":
                outer, inner = fl, None
            elif r["form"] == "named":
                outer, inner = fl, []
            elif r["form"] == "named_inner":
                outer, inner = [], fl
            else:
                half = len(fl) // 2
                outer, inner = fl[:half], fl[half:]
            out += [f"(QOp (OFilter {c} {i} {call}))" for i, call in outer]
            if inner is None:
                out.append(f"(QOp (ORegFn {c} {fn}))")
            else:
                out.append(f"(QOp (ORegName {c} {B.c_hname(r['hook'])}))")
                out += [f"(QOp (ODecFilter {cnat(n_dec)} {i} {call}))" for i, call in inner]
                out.append(f"(QOp (ODecApply {cnat(n_dec)} {fn}))")
                n_dec += 1
    scopes = "[" + "; ".join(["Global"] + ["Schema"] * n + ["Test"]) + "]"
    closures = [0] + [1 + k for k in range(n) for _ in (0, 1)] + [n + 1]
    return f"(eval_observe {scopes} {clist([cnat(c) for c in closures], 'nat')} {clist(out, 'qevent')})"


def c_auth_eval_observe(hist):
    n = hist["schemas"]
    out, w = [], 0
    have_test = False
    for ev in hist["events"]:
        if ev[0] == "eval":
            f = MFACTS[ev[1]]
            out.append(f"(AQEval {copt(cN(0) if ev[2] and have_test else None, 'N')} {cnat(1 + f['schema'])} {B.c_oper(f)})")
        elif ev[0] == "auth_unregister":
            out.append(f"(AQOp (AUnregister {cnat(0 if ev[1] == 'global' else 1 + ev[1])}))")
        elif ev[0] == "auth":
            a = ev[1]
            fl = [f"(AQOp (AFilter {cnat(w)} {cbool(k == 'apply_to')} {ms_c_call(c)}))" for k, c in a["filters"]]
            if a["storage"] == "test":
                out += [f"(AQOp (AApply {cN(a['id'])}))"] + fl + [f"(AQOp (ACall {cnat(w)} {cN(0)}))"]
                have_test = True
            else:
                s = cnat(0 if a["storage"] == "global" else 1 + a["schema"])
                if a["form"] == "register":
                    out += [f"(AQOp (ARegister {s}))"] + fl + [f"(AQOp (ACall {cnat(w)} {cN(a['id'])}))"]
                else:
                    out += [f"(AQOp (AFromRequests {s} {cN(a['id'])}))"] + fl
            w += 1
    return f"(auth_eval_observe {cnat(1 + n)} {clist(out, 'aqevent')})"


def canon_eval_traces(v):
    plain, cached = B.unsym(v)
    conv = lambda tr: [[B.canon_model_applied(c) for c in per_target] for per_target in tr]  # noqa: E731
    return conv(plain), conv(cached)


def canon_auth_traces(v):
    def one(x):
        x = B.unsym(x)
        if isinstance(x, tuple) and x[0] == "AuthBy":
            return x[1]
        return None if x == "AuthNone" else "raises:IncorrectUsage"

    plain, cached = v
    return [one(x) for x in plain], [one(x) for x in cached]


# ----------------------------------------------------------------------------------------
# histories
# ----------------------------------------------------------------------------------------
def _hr(i, scope, form, hook, fn_name, filters, schema=0):
    return ["register", {"id": i, "scope": scope, "schema": schema, "form": form, "hook": hook, "fn_name": fn_name, "filters": filters}]


def _ar(i, storage, form, filters, schema=0):
    return ["auth", {"id": i, "storage": storage, "schema": schema, "form": form, "filters": filters}]


def _u(schema, label):
    return next(f["idx"] for f in MFACTS if f["schema"] == schema and f["label"] == label)


# always run first: one filtered global / test extension, the same label from two schemas in both orders, repeated
MS_FIXED = [
    {"schemas": 2, "events": [
        _hr(0, "global", "function", "map_query", "map_query", [["apply_to", {"tag": "admin"}]]),
        _ar(0, "global", "register", [["apply_to", {"operation_id": "adminListUsers"}]]),
        ["eval", _u(1, "GET /users"), False], ["eval", _u(0, "GET /users"), False], ["eval", _u(1, "GET /users"), False]]},
    {"schemas": 2, "events": [
        _hr(0, "global", "function", "map_query", "map_query", [["apply_to", {"tag": "admin"}]]),
        _ar(0, "global", "register", [["apply_to", {"operation_id": "adminListUsers"}]]),
        ["eval", _u(0, "GET /users"), False], ["eval", _u(1, "GET /users"), False], ["eval", _u(0, "GET /users"), False]]},
    {"schemas": 3, "events": [
        _hr(0, "global", "named", "filter_headers", "marker", [["skip_for", {"func": "m_deprecated"}]]),
        _hr(1, "test", "named_inner", "before_generate_cookies", "tag_b", [["apply_to", {"operation_id": ["getUser", "createUser"]}]]),
        _ar(0, "global", "requests", [["skip_for", {"tag": "users"}]]), _ar(1, "global", "register", []),
        ["eval", _u(0, "POST /users"), True], ["eval", _u(2, "POST /users"), True], ["eval", _u(1, "POST /users"), True],
        ["eval", _u(1, "GET /users"), True], ["eval", _u(2, "GET /users"), True], ["eval", _u(0, "GET /users"), True]]},
    {"schemas": 2, "events": [
        _hr(0, "test", "apply", "map_headers", "tag_d", []),
        _hr(1, "global", "named_split", "flatmap_case", "tag_e", [["apply_to", {"path": "/users/{id}"}], ["skip_for", {"tag_regex": "^a"}]]),
        _ar(0, "test", "register", [["apply_to", {"func": "m_has_body"}]]), _ar(1, "schema", "register", [], schema=1),
        ["eval", _u(0, "PUT /users/{id}"), True], ["eval", _u(1, "PUT /users/{id}"), True], ["eval", _u(1, "DELETE /users/{id}"), False],
        ["eval", _u(0, "DELETE /users/{id}"), False],
        _hr(2, "schema_hook", "function", "map_body", "map_body", [["apply_to", {"tag": "items"}]], schema=1), ["unregister", 0],
        ["eval", _u(0, "PATCH /items"), True], ["eval", _u(1, "PATCH /items"), True], ["eval", _u(0, "PATCH /items"), False]]},
]

def gen_ms_history(rng):
    n = rng.choice([2, 2, 3])
    present = [f for f in MFACTS if f["schema"] < n]
    by_label = {}
    for f in present:
        by_label.setdefault(f["label"], []).append(f["idx"])
    shared = [us for us in by_label.values() if len(us) >= 2]

    def filters(nf):
        return [[rng.choice(["apply_to", "apply_to", "skip_for"]), c] for c in rng.sample(MS_CRIT, nf)]

    regs = []
    for i in range(rng.choice([1, 2, 2, 3, 4])):
        scope = rng.choice(["global"] * 9 + ["test"] * 4 + ["schema"] * 4 + ["schema_hook"] * 3)
        form = rng.choice(["function", "function", "named", "named", "named_inner", "named_split", "apply"])
        hook = f"{rng.choice(B.ORACLE_KINDS)}_{rng.choice(B.ORACLE_TARGETS)}"
        fl = filters(rng.choice([0, 1, 1, 1, 1, 2, 2, 3]))
        if form == "apply":
            scope, fl = "test", []
        fn_name = hook if form == "function" or rng.random() < 0.2 else f"custom_hook_{i}"
        regs.append(_hr(i, scope, form, hook, fn_name, fl, schema=rng.randrange(n)))
    auths, have_test = [], False
    for i in range(rng.choice([0, 1, 1, 2, 3])):
        storage = rng.choice(["global"] * 5 + ["schema"] * 3 + ["test"] * 2)
        if storage == "test":
            if have_test:
                storage = "global"
            have_test = have_test or storage == "test"
        auths.append(_ar(i, storage, "register" if storage == "test" else rng.choice(["register", "register", "requests"]),
                         filters(rng.choice([0, 1, 1, 1, 2])), schema=rng.randrange(n)))

    def evals(k):
        out = []
        while len(out) < k:
            if shared and rng.random() < 0.75:
                us = list(rng.choice(shared))
                rng.shuffle(us)
                seq = us + ([us[0]] if rng.random() < 0.5 else [])
            else:
                seq = [rng.choice(present)["idx"]]
            wt = rng.random() < 0.6
            out += [["eval", u, wt if rng.random() < 0.8 else not wt] for u in seq]
        return out

    setup = regs + auths
    rng.shuffle(setup)
    if rng.random() < 0.75 or len(setup) < 2:
        events = setup + evals(rng.choice([3, 4, 5, 6, 8]))
    else:
        cut = rng.randrange(1, len(setup))
        events = setup[:cut] + evals(rng.choice([2, 3, 4]))
        if rng.random() < 0.5:
            done = [e[1] for e in setup[:cut] if e[0] == "register"]
            if done:
                events.append(["unregister", rng.choice(done)["id"]])
        if rng.random() < 0.2:
            events.append(["auth_unregister", rng.choice(["global"] + list(range(n)))])
        events += setup[cut:] + evals(rng.choice([2, 3, 4]))
    return {"schemas": n, "events": events}


def ms_nontrivial(hist):
    """Two DIFFERENT operations with one label are evaluated, and some registration that reaches both carries filters."""
    us = {ev[1] for ev in hist["events"] if ev[0] == "eval"}
    labels = [MFACTS[u]["label"] for u in us]
    collide = len(labels) != len(set(labels))
    filtered = any((ev[0] == "register" and ev[1]["filters"] and ev[1]["scope"] in ("global", "test"))
                   or (ev[0] == "auth" and ev[1]["filters"] and ev[1]["storage"] in ("global", "test")) for ev in hist["events"])
    return collide and filtered


# ----------------------------------------------------------------------------------------
def stage(chk: core.Check, boost=1):
    quick = chk.tier == "quick"
    rng = chk.rng
    n_gen = (70 if quick else 700) * boost
    runs = []
    for i in range(len(MS_FIXED) + n_gen):
        hist = MS_FIXED[i] if i < len(MS_FIXED) else gen_ms_history(rng)
        try:
            real = ms_run(hist, seed=rng.randrange(1 << 30))
        except Exception as exc:  # noqa: BLE001
            chk.fail(f"evaluation sequence over several schemas crashed: {type(exc).__name__}: {exc}"[:300], {"multi_schema_history": hist})
            continue
        runs.append((hist, real))
    hook_model = core.coq_eval(B.IMPORTS, [c_eval_observe(h) for h, _ in runs], shard=15)
    auth_model = core.coq_eval(B.IMPORTS, [c_auth_eval_observe(h) for h, _ in runs], shard=15)
    wrong = disagree = n_eval = collisions = 0
    distinguishing = like_sentinel = 0
    first_like_sentinel = None
    for (hist, real), hv, av in zip(runs, hook_model, auth_model):
        n_eval += len(real)
        chk.seen({"multi_schema_history": hist}, ms_nontrivial(hist))
        us = [ev[1] for ev in hist["events"] if ev[0] == "eval"]
        collisions += len({u for u in us}) - len({MFACTS[u]["label"] for u in us})
        chk.count("multi:schemas:%d" % hist["schemas"])
        for ev in hist["events"]:
            if ev[0] == "register":
                chk.count(f"multi:hook:{ev[1]['scope']}:{'filtered' if ev[1]['filters'] else 'unfiltered'}")
                for _, c in ev[1]["filters"]:
                    for key in c:
                        chk.count(f"multi:criterion:{key}")
            elif ev[0] == "auth":
                chk.count(f"multi:auth:{ev[1]['storage']}:{'filtered' if ev[1]['filters'] else 'unfiltered'}")
        bad = ms_oracle(hist, real)
        if bad:
            wrong += 1
            chk.fail(bad[0], {"multi_schema_history": hist}, detail={"further_mismatches_in_this_history": len(bad) - 1, "next": bad[1:3]})
        plain, cached = canon_eval_traces(hv)
        aplain, acached = canon_auth_traces(av)
        real_rows = [obs["rows"] for obs in real]
        real_auth = [obs["auth_direct"] for obs in real]
        if real_rows != plain:
            disagree += 1
            chk.disagree("several schemas: real dispatch vs Model_C19.eval_trace match_plain: " + (B.first_diff(real_rows, plain) or "")[:200],
                         {"multi_schema_history": hist}, "see difference", "see difference")
        elif real_auth != aplain:
            disagree += 1
            chk.disagree("several schemas: auths.set_on_case vs Model_C19.auth_trace match_plain", {"multi_schema_history": hist}, real_auth, aplain)
        if plain != cached or aplain != acached:
            distinguishing += 1
            if (plain != cached and real_rows == cached) or (aplain != acached and real_auth == acached):
                like_sentinel += 1
                first_like_sentinel = first_like_sentinel or hist
    if distinguishing and like_sentinel == distinguishing:
        chk.fail("filter verdicts behave like Model_C19.match_cached (remembered per operation label) on every history where that differs "
                 "from a pure evaluation (C19_label_cache_refuted)", {"multi_schema_history": first_like_sentinel})
    chk.stages["multi_schema_evaluation"] = {
        "histories": len(runs), "fixed": len(MS_FIXED), "evaluations": n_eval, "evaluations_of_a_label_seen_before_on_another_operation": collisions,
        "oracle_wrong_histories": wrong, "model_disagrees": disagree, "histories_where_label_cache_sentinel_differs": distinguishing,
        "of_those_code_behaves_like_sentinel": like_sentinel,
    }


def replay_one(hist):
    real = ms_run(hist)
    print("schemas", hist["schemas"])
    evals = iter(zip(real, ms_expected(hist)))
    for j, ev in enumerate(hist["events"]):
        if ev[0] != "eval":
            print(f"  event {j}: {ev}")
            continue
        obs, exp = next(evals)
        got = [sorted(fid for _, fid in row) for row in obs["rows"]]
        ok = got == exp["per_target"] and obs["ran"] == exp["ran"] and obs["auth_direct"] == exp["auth"] and obs["auth_generated"] == [exp["auth"]]
        print(f"  event {j}: eval {describe(ev[1])} test={ev[2]}: dispatch {got} / own filters {exp['per_target']}; generation ran {obs['ran']} / {exp['ran']}; "
              f"auth {obs['auth_direct']} (generated {obs['auth_generated']}) / {exp['auth']}" + ("" if ok else "   <-- differs"))
    bad = ms_oracle(hist, real)
    for m in bad:
        print("  [VIOLATION]", m)
    print("->", "FAILS" if bad else "passes")
