"""C02 - negative-mode test data really violates the schema and is labelled so.

Stages: proofs (Properties_C02.v) -> correspondence A: real openapi_cases draws (negative and positive mode,
explicit-argument shapes, both values of generation.modes) against Model_C02.label_case evaluated in Coq;
the strategy handed to draw(), the drawn value, every reject() and SkipTest are observed through wrappers; the class of
header / cookie parameters is computed by the model from the schema as declared (Model_C02.header_class) -> correspondence D:
as_json_schema + can_negate_headers of declared header / cookie parameters against header_prop_schema / header_class ->
correspondence B: negate_constraints / change_type / remove_required_property run with a scripted draw against
the Gallina mutations, python-jsonschema against Model_C02.valid -> correspondence C: coerce / wire_valid ->
correspondence E: is_non_empty_query, jsonify_python_specific_types and the URL of the prepared request (serialize_case + requests)
against Model_C02 Part E (query dicts with lists of None, nested empties, dicts) -> oracle E: negative cases of query-only,
all-optional operations sent over the real transport to a loopback server, the received query string judged against the declared schema ->
oracle search: every labelled part of every negative draw validated with python-jsonschema against an
independently built location schema (raw and through string coercion), SkipTest vs cases vs Unsatisfiable.
"""
from __future__ import annotations

import copy
import json
import os
import re
from urllib.parse import unquote_plus

from harness import core
from harness.core import cN, cZ, cbool, clist, cnat, copt, cstr, ctuple, cjson, pstr, popt

LEVEL = "proof"
IMPORTS = ["Common.Str", "Common.Json", "C02.Model_C02"]

LOCS = ["path", "header", "cookie", "query"]
LK = {"path": "LPath", "header": "LHeader", "cookie": "LCookie", "query": "LQuery"}
CK = {"path": "CPath", "header": "CHeaders", "cookie": "CCookies", "query": "CQuery", "body": "CBody"}
CONTAINER = {"path": "path_parameters", "header": "headers", "cookie": "cookies", "query": "query"}
KIND_OF_COMPONENT = {"query": "CQuery", "path_parameters": "CPath", "headers": "CHeaders", "cookies": "CCookies", "body": "CBody"}

# (schema, class seen by can_negate_*, a single value can violate it on its own)
PATH_SCHEMAS = [
    ({"type": "string"}, "PStrOnly", False),
    ({"type": "integer"}, "POther", True),
    ({}, "PTop", False),
    ({"type": "boolean"}, "POther", True),
    ({"type": "string", "enum": ["a", "b"]}, "POther", True),
    ({"type": "integer", "minimum": 3}, "POther", True),
    # without a top-level type (OpenAPI 3 only)
    ({"enum": ["a", "b"]}, "POther", True),
    ({"minimum": 3}, "POther", True),
    ({"description": "free form", "title": "T"}, "PTop", False),  # annotations only: the accept-anything schema
]
HEADER_SCHEMAS = [
    ({"type": "string"}, "PStrOnly", False),
    ({}, "PStrOnly", False),  # transform_keywords: headers get type string by default
    ({"type": "integer"}, "POther", True),
    ({"type": "string", "enum": ["a", "b"]}, "POther", True),
    ({"type": "boolean"}, "POther", True),
    ({"enum": ["a", "b"]}, "POther", True),  # no top-level type
    # string headers / cookies with each constraint keyword (a text value can violate them), indices 6..13
    ({"type": "string", "pattern": "^[a-z]{3}$"}, "POther", True),
    ({"type": "string", "minLength": 3}, "POther", True),
    ({"type": "string", "maxLength": 3}, "POther", True),
    ({"type": "string", "format": "date"}, "POther", True),
    ({"type": "string", "minLength": 2, "maxLength": 5}, "POther", True),
    ({"type": "string", "format": "ipv4"}, "POther", True),
    ({"type": "string", "pattern": "^[a-z]+$", "minLength": 2}, "POther", True),  # pattern + length: the converter rewrites the quantifier
    ({"type": "string", "enum": ["only"], "description": "one value"}, "POther", True),
    # annotations the converter drops: still the plain string header (14); an annotation it keeps (15): claimed negatable, is not (F7)
    ({"type": "string", "description": "free text", "title": "T"}, "PStrOnly", False),
    ({"type": "string", "example": "x"}, "POther", False),
]
CONSTRAINED_HEADERS = [3, 5, 6, 7, 8, 9, 10, 11, 12, 13, 2, 4]  # a value of the header / cookie can violate the declared schema
ANNOTATED_HEADER = 15
HEADER_EXAMPLES = {6: "abc", 7: "abcd", 8: "ab", 9: "2020-01-31", 10: "abc", 11: "10.0.0.1", 12: "abc", 13: "only", 14: "v", 15: "v"}
QUERY_SCHEMAS = [
    ({"type": "integer"}, "POther", True),
    ({"type": "string"}, "PStrOnly", False),
    ({}, "PTop", False),
    ({"type": "boolean"}, "POther", True),
    ({"type": "string", "enum": ["a", "b"]}, "POther", True),
    ({"type": "integer", "maximum": 10}, "POther", True),
    # without a top-level type (OpenAPI 3 only)
    ({"enum": [1, 2]}, "POther", True),
    ({"minimum": 3}, "POther", True),
    ({"anyOf": [{"type": "integer"}, {"type": "boolean"}]}, "POther", True),
    ({"description": "free form", "title": "T"}, "PTop", False),  # annotations only: the accept-anything schema
]
SCHEMAS = {"path": PATH_SCHEMAS, "header": HEADER_SCHEMAS, "cookie": HEADER_SCHEMAS, "query": QUERY_SCHEMAS}
# (schema, can_negate)
BODY_SCHEMAS = [
    ({}, False),
    ({"additionalProperties": {}}, False),
    ({"type": "integer"}, True),
    ({"type": "object", "properties": {"a": {"type": "integer"}}, "required": ["a"], "additionalProperties": False}, True),
    ({"type": "string", "minLength": 3}, True),
    ({"type": "array", "items": {"type": "boolean"}}, True),
    # without a top-level type: properties/required only, items only, enum only, combinators only; nullable
    ({"properties": {"a": {"type": "integer"}, "b": {"type": "string"}}, "required": ["a"]}, True),
    ({"items": {"type": "integer"}}, True),
    ({"enum": [1, "a"]}, True),
    ({"anyOf": [{"type": "integer"}, {"type": "string", "minLength": 2}]}, True),
    ({"allOf": [{"properties": {"a": {"type": "boolean"}}}], "required": ["a"]}, True),
    ({"type": "integer", "nullable": True}, True),
    ({"properties": {"a": {"type": "integer"}}, "additionalProperties": False}, True),
]
TYPELESS_BODY = [6, 7, 8, 9, 10, 12]


def _own_format_checker():
    """The harness own reading of the formats used in the header table (python-jsonschema Draft 4 knows neither date nor uuid)."""
    import datetime
    import ipaddress

    import jsonschema

    fc = jsonschema.FormatChecker(formats=())

    @fc.checks("date", raises=ValueError)
    def _date(value):  # RFC 3339 full-date
        if not isinstance(value, str):
            return True
        if not re.fullmatch(r"[0-9]{4}-[0-9]{2}-[0-9]{2}", value):
            raise ValueError(value)
        datetime.date(int(value[:4]), int(value[5:7]), int(value[8:]))
        return True

    @fc.checks("ipv4", raises=ValueError)
    def _ipv4(value):
        if not isinstance(value, str):
            return True
        if not re.fullmatch(r"[0-9]{1,3}(\.[0-9]{1,3}){3}", value):
            raise ValueError(value)
        ipaddress.IPv4Address(value)
        return True

    return fc


FORMATS = _own_format_checker()
KNOWN_FORMATS = ("date", "ipv4")


def declared_schema(schema, version=3):
    """The harness own reading of a schema AS DECLARED in the document as Draft 4 (never the converter of the code under test):
    everything is Draft 4 already except nullable / x-nullable."""
    if isinstance(schema, list):
        return [declared_schema(x, version) for x in schema]
    if not isinstance(schema, dict):
        return schema
    key = "nullable" if version == 3 else "x-nullable"
    out = {}
    for k, v in schema.items():
        if k == key:
            continue
        if k in ("properties",):
            out[k] = {n: declared_schema(x, version) for n, x in v.items()}
        elif k in ("items", "additionalProperties", "not", "anyOf", "allOf", "oneOf"):
            out[k] = declared_schema(v, version)
        else:
            out[k] = v
    if schema.get(key) is True:
        return {"anyOf": [out, {"type": "null"}]}
    return out


def valid_example(loc, idx):
    """A value that satisfies the parameter schema as declared (what a caller would pass explicitly)."""
    sch = SCHEMAS[loc][idx][0]
    if loc in ("header", "cookie") and idx in HEADER_EXAMPLES:
        return HEADER_EXAMPLES[idx]
    if "enum" in sch:
        v = sch["enum"][0]
    elif sch.get("type") == "integer" or "minimum" in sch or "anyOf" in sch:
        v = 5
    elif sch.get("type") == "boolean":
        v = True
    else:
        v = "v"
    if loc in ("header", "cookie"):
        return wire_text(v)  # header and cookie values are text
    return v


def empty_indices(loc):
    return [i for i, (_, cls, _) in enumerate(SCHEMAS[loc]) if cls == "PTop"]


def typed_indices(loc):
    return [i for i, (sch, _, _) in enumerate(SCHEMAS[loc]) if "type" in sch]
MEDIA_OK = ["application/json", "text/plain", "application/xml"]
MEDIA_BAD = "application/x-verif-unknown"


# ----------------------------------------------------------------------------------------
# operation shapes
# ----------------------------------------------------------------------------------------
def gen_shape(rng, force=None):
    """An abstract operation: parameters per location, body alternatives, explicit arguments."""
    shape = {"params": {}, "explicit": {}, "body": None, "body_explicit": False, "version": 2 if rng.random() < 0.25 else 3}
    names = {"path": ["id", "key"], "header": ["X-A", "X-B"], "cookie": ["ca", "cb"], "query": ["q", "r", "s"]}
    for loc in LOCS:
        k = rng.choice([0, 0, 1, 1, 2, 3] if loc == "query" else [0, 0, 1, 1, 2])
        ps = []
        if shape["version"] == 2 and loc == "cookie":
            k = 0  # Swagger 2.0 has no cookie parameters
        for name in names[loc][:k]:
            idx = rng.randrange(len(SCHEMAS[loc]))
            if rng.random() < (0.12 if loc == "path" else 0.35):
                idx = 0 if loc != "query" else 1  # the plain string schema: the not-negatable class
            elif loc == "path" and idx == 0 and rng.random() < 0.7:
                idx = 1  # a string-only path parameter makes the negative strategy empty (slow): keep it rare
            if shape["version"] == 2 and "type" not in SCHEMAS[loc][idx][0]:
                idx = rng.choice(typed_indices(loc))  # Swagger 2.0 non-body parameters always carry a type
            if loc in ("header", "cookie") and idx == ANNOTATED_HEADER and rng.random() < 0.7:
                idx = 14  # the kept-annotation header empties the negative strategy of the whole operation (F7, slow): keep it rare
            ps.append({"name": name, "schema_idx": idx, "required": True if loc == "path" else rng.random() < 0.5})
        shape["params"][loc] = ps
        # explicit argument: not given / {} / some of the names / all names / a name that is not a parameter
        mode = rng.choice(["none", "none", "none", "empty", "partial", "full", "extra", "empty_schema"])
        ex_of = lambda plist: {p["name"]: valid_example(loc, p["schema_idx"]) for p in plist}  # noqa: E731
        if shape["version"] == 3 and loc in ("path", "query") and rng.random() < 0.15:
            # an accept-anything parameter ({} or annotations only) next to a typed one, supplied explicitly
            ps = [
                {"name": names[loc][0], "schema_idx": rng.choice(empty_indices(loc)), "required": True if loc == "path" else rng.random() < 0.6},
                {"name": names[loc][1], "schema_idx": rng.choice([i for i in typed_indices(loc) if SCHEMAS[loc][i][2]]), "required": True if loc == "path" else rng.random() < 0.5},
            ]
            if rng.random() < 0.5:
                ps.reverse()
            shape["params"][loc] = ps
            mode = "empty_schema"
        if mode == "none":
            ex = None
        elif mode == "empty":
            ex = {}
        elif mode == "partial":
            ex = ex_of(ps[: max(0, len(ps) - 1)]) if ps else {"zz": "v"}
        elif mode == "full":
            ex = ex_of(ps)
        elif mode == "empty_schema":
            ex = ex_of([p for p in ps if SCHEMAS[loc][p["schema_idx"]][1] == "PTop"]) or (ex_of(ps[:1]) if ps else None)
        else:
            ex = {"zz": "1"}
            if ps and rng.random() < 0.5:
                ex.update(ex_of(ps[:1]))
        shape["explicit"][loc] = ex
    kind = rng.random()
    if kind < 0.35:
        shape["body"] = None
    else:
        alts = []
        medias = list(MEDIA_OK)
        rng.shuffle(medias)
        for m in medias[: rng.choice([1, 1, 2])]:
            alts.append({"media": m, "schema_idx": rng.choice(TYPELESS_BODY) if rng.random() < 0.4 else rng.randrange(len(BODY_SCHEMAS))})
        if rng.random() < 0.12:
            alts[rng.randrange(len(alts))]["media"] = MEDIA_BAD
        if rng.random() < 0.3:
            for a in alts:
                a["schema_idx"] = rng.choice([0, 1])
        if shape["version"] == 2:
            for a in alts:  # Swagger 2.0: one body schema, several consumes
                a["schema_idx"] = alts[0]["schema_idx"]
        shape["body"] = {"required": rng.random() < 0.5, "alts": alts}
        shape["body_explicit"] = rng.random() < 0.15
    if force == "no_explicit":
        shape["explicit"] = {loc: None for loc in LOCS}
        shape["body_explicit"] = False
    return shape


def gen_header_focus(rng):
    """Operations whose only violable inputs are headers / cookies: every constrained string (or typed) header schema of the
    table, in a header and in a cookie, alone in the operation or next to inputs that cannot be negated (a plain string
    header, an accept-anything path parameter, a body that accepts everything), and once next to a negatable query."""
    jobs = []
    for n, idx in enumerate(CONSTRAINED_HEADERS + [14, ANNOTATED_HEADER]):
        for loc in ("header", "cookie"):
            version = 2 if (loc == "header" and "type" in HEADER_SCHEMAS[idx][0] and rng.random() < 0.25) else 3
            shape = {"params": {l: [] for l in LOCS}, "explicit": {l: None for l in LOCS}, "body": None, "body_explicit": False, "version": version}
            name, other = ("X-A", "X-B") if loc == "header" else ("ca", "cb")
            ps = [{"name": name, "schema_idx": idx, "required": rng.random() < 0.3}]
            company = rng.choice(["alone", "alone", "plain_sibling", "constrained_sibling", "plain_other_location", "open_body", "top_path", "query"])
            if company == "plain_sibling":
                ps.append({"name": other, "schema_idx": rng.choice([0, 1, 14] if version == 3 else [0, 14]), "required": False})
                if rng.random() < 0.5:
                    ps.reverse()
            elif company == "constrained_sibling" and idx != ANNOTATED_HEADER:
                ps.append({"name": other, "schema_idx": rng.choice([i for i in CONSTRAINED_HEADERS if version == 3 or "type" in HEADER_SCHEMAS[i][0]]), "required": rng.random() < 0.3})
            elif company == "plain_other_location" and version == 3:
                oloc = "cookie" if loc == "header" else "header"
                shape["params"][oloc] = [{"name": "X-B" if oloc == "header" else "cb", "schema_idx": 0, "required": False}]
            elif company == "open_body":
                shape["body"] = {"required": rng.random() < 0.5, "alts": [{"media": "application/json", "schema_idx": rng.choice([0, 1])}]}
            elif company == "top_path" and version == 3:
                shape["params"]["path"] = [{"name": "id", "schema_idx": 2, "required": True}]
            elif company == "query":
                shape["params"]["query"] = [{"name": "q", "schema_idx": 0, "required": rng.random() < 0.5}]
            shape["params"][loc] = ps
            jobs.append((shape, "Neg", ["Neg"] if (n + (loc == "cookie")) % 2 == 0 else ["Pos", "Neg"]))
    return jobs


def v2_schema(schema):
    if isinstance(schema, dict):
        return {("x-nullable" if k == "nullable" else k): (v2_schema(v) if k != "enum" else v) for k, v in schema.items()}
    if isinstance(schema, list):
        return [v2_schema(x) for x in schema]
    return schema


def param_object_v2(loc, p):
    """Swagger 2.0: the keywords sit in the parameter object itself."""
    return {"name": p["name"], "in": loc, "required": p["required"], **copy.deepcopy(SCHEMAS[loc][p["schema_idx"]][0])}


def declared_header(shape, loc, p):
    """What the document declares for one header / cookie parameter, as the model reads it: (is 2.0, the dict holding the
    keywords, the parameter-level example values)."""
    if shape.get("version", 3) == 2:
        return True, param_object_v2(loc, p), []
    return False, copy.deepcopy(SCHEMAS[loc][p["schema_idx"]][0]), []


def build_document_v2(shape):
    segs = "".join("/{%s}" % p["name"] for p in shape["params"]["path"])
    path = "/x" + segs
    params = []
    for loc in LOCS:
        if loc == "cookie":
            continue
        for p in shape["params"][loc]:
            params.append(param_object_v2(loc, p))
    op = {"responses": {"200": {"description": "ok"}}}
    if shape["body"] is not None:
        alts = shape["body"]["alts"]
        params.append({"name": "body", "in": "body", "required": shape["body"]["required"], "schema": v2_schema(copy.deepcopy(BODY_SCHEMAS[alts[0]["schema_idx"]][0]))})
        op["consumes"] = [a["media"] for a in alts]
    if params:
        op["parameters"] = params
    return {"swagger": "2.0", "info": {"title": "t", "version": "1"}, "paths": {path: {"post": op}}}, path


def build_document(shape):
    if shape.get("version", 3) == 2:
        return build_document_v2(shape)
    segs = "".join("/{%s}" % p["name"] for p in shape["params"]["path"])
    path = "/x" + segs
    params = []
    for loc in LOCS:
        for p in shape["params"][loc]:
            params.append(
                {"name": p["name"], "in": loc, "required": p["required"], "schema": copy.deepcopy(SCHEMAS[loc][p["schema_idx"]][0])}
            )
    op = {"responses": {"200": {"description": "ok"}}}
    if params:
        op["parameters"] = params
    if shape["body"] is not None:
        op["requestBody"] = {
            "required": shape["body"]["required"],
            "content": {a["media"]: {"schema": copy.deepcopy(BODY_SCHEMAS[a["schema_idx"]][0])} for a in shape["body"]["alts"]},
        }
    return {"openapi": "3.0.2", "info": {"title": "t", "version": "1"}, "paths": {path: {"post": op}}}, path


def location_schema(shape, loc):
    """The harness own JSON Schema of one location (what a value of the location must satisfy)."""
    props, required = {}, []
    for p in shape["params"][loc]:
        s = declared_schema(copy.deepcopy(SCHEMAS[loc][p["schema_idx"]][0]), shape.get("version", 3))
        if loc in ("header", "cookie"):
            s.setdefault("type", "string")
        if loc == "path" and s.get("type") == "string":
            s.setdefault("minLength", 1)
        props[p["name"]] = s
        if p["required"] or loc == "path":
            required.append(p["name"])
    out = {"type": "object", "properties": props, "additionalProperties": False}
    if required:
        out["required"] = required
    return out


# ----------------------------------------------------------------------------------------
# observation of the real openapi_cases
# ----------------------------------------------------------------------------------------
class Observer:
    """Wraps get_parameters_strategy, _get_body_strategy and reject of specs/openapi/_hypothesis.py."""

    def __init__(self):
        import schemathesis.specs.openapi._hypothesis as H

        self.H = H
        self.state = {}
        self.events = []
        import schemathesis.specs.openapi.negative.mutations as M

        self.M = M
        self.orig = (H.get_parameters_strategy, H._get_body_strategy, H.reject)
        self.orig_mreject = M.reject
        self.n_cases = 0
        self.n_rejects = 0
        self.excluded = {}

    def __enter__(self):
        H = self.H
        orig_params, orig_body, orig_reject = self.orig
        obs = self

        def get_parameters_strategy(operation, strategy_factory, location, generation_config, exclude=()):
            if location == "path":
                obs.state = {}  # a new execution of openapi_cases starts with the path parameters
            strategy = orig_params(operation, strategy_factory, location, generation_config, exclude=exclude)
            is_none = repr(strategy) == "none()"
            fname = strategy_factory.__name__

            def rec(value):
                obs.state[location] = {"factory": fname, "none": is_none, "value": copy.deepcopy(value)}
                return value

            return strategy.map(rec)

        def _get_body_strategy(parameter, strategy_factory, operation, generation_config):
            strategy = orig_body(parameter, strategy_factory, operation, generation_config)
            fname = strategy_factory.__name__
            media = parameter.media_type

            def rec(value):
                obs.state["body"] = {"factory": fname, "media": media, "notset": value is H.NOT_SET}
                return value

            obs.state["body_chosen"] = media
            return strategy.map(rec)

        def reject():
            obs.events.append({"kind": "reject", "state": obs.state})
            obs.state = {}
            obs.n_rejects += 1
            if obs.n_cases == 0 and obs.n_rejects > 12:
                raise Enough()  # Hypothesis would go on to Unsatisfiable; a dozen observations are enough
            return orig_reject()

        def mutation_reject():
            obs.n_rejects += 1
            if obs.n_cases == 0 and obs.n_rejects > 40:
                raise Enough()
            return obs.orig_mreject()

        obs.M.reject = mutation_reject

        # the schema handed to the strategy factory is the location schema AFTER the exclusion of explicit names
        import functools

        obs.orig_factories = (H.make_positive_strategy, H.make_negative_strategy, dict(H.GENERATOR_MODE_TO_STRATEGY_FACTORY))

        def spy(fn):
            @functools.wraps(fn)
            def inner(schema, operation_name, location, media_type, generation_config, custom_formats=None):
                if location != "body":
                    obs.excluded[location] = {"properties": list(schema.get("properties", {})), "required": list(schema.get("required", []))}
                return fn(schema, operation_name, location, media_type, generation_config, custom_formats)

            return inner

        spied = {obs.orig_factories[0]: spy(obs.orig_factories[0]), obs.orig_factories[1]: spy(obs.orig_factories[1])}
        H.make_positive_strategy = spied[obs.orig_factories[0]]
        H.make_negative_strategy = spied[obs.orig_factories[1]]
        for k, v in list(H.GENERATOR_MODE_TO_STRATEGY_FACTORY.items()):
            H.GENERATOR_MODE_TO_STRATEGY_FACTORY[k] = spied[v]

        H.get_parameters_strategy = get_parameters_strategy
        H._get_body_strategy = _get_body_strategy
        H.reject = reject
        return self

    def __exit__(self, *exc):
        H = self.H
        H.get_parameters_strategy, H._get_body_strategy, H.reject = self.orig
        self.M.reject = self.orig_mreject
        H.make_positive_strategy, H.make_negative_strategy = self.orig_factories[0], self.orig_factories[1]
        H.GENERATOR_MODE_TO_STRATEGY_FACTORY.update(self.orig_factories[2])
        return False


class Enough(BaseException):
    """Stops a run in which every attempt is rejected (what Hypothesis reports as Unsatisfiable, only sooner)."""


def run_operation(obs, shape, mode, modes, seed_value, n):
    """Draw cases from the real strategy; returns (events, final) with final in ok/skip/unsat/raises:<Type>."""
    import schemathesis
    from hypothesis import HealthCheck, Phase, given, seed, settings
    from hypothesis.errors import Unsatisfiable

    from schemathesis.core.control import SkipTest
    from schemathesis.generation import GenerationConfig, GenerationMode

    GM = {"Pos": GenerationMode.POSITIVE, "Neg": GenerationMode.NEGATIVE}
    raw, path = build_document(shape)
    operation = schemathesis.openapi.from_dict(raw)[path]["POST"]
    kwargs = {}
    for loc in LOCS:
        if shape["explicit"][loc] is not None:
            kwargs[CONTAINER[loc]] = copy.deepcopy(shape["explicit"][loc])
    if shape["body_explicit"]:
        kwargs["body"] = {"explicit": 1}
        kwargs["media_type"] = "application/json"
    strategy = operation.as_strategy(
        generation_mode=GM[mode], generation_config=GenerationConfig(modes=[GM[m] for m in modes]), **kwargs
    )
    obs.events = []
    obs.state = {}
    obs.n_cases = 0
    obs.n_rejects = 0
    obs.excluded = {}

    @seed(seed_value)
    @settings(max_examples=n, database=None, derandomize=False, deadline=None, suppress_health_check=list(HealthCheck), phases=[Phase.generate])
    @given(strategy)
    def collect(case):
        obs.events.append({"kind": "case", "state": obs.state, "case": case})
        obs.state = {}
        obs.n_cases += 1

    final = "ok"
    try:
        collect()
    except SkipTest:
        obs.events.append({"kind": "skip", "state": obs.state})
        final = "skip"
    except (Unsatisfiable, Enough):
        final = "unsat"
    except Exception as exc:  # noqa: BLE001
        obs.events.append({"kind": "raises", "state": obs.state, "error": type(exc).__name__})
        final = f"raises:{type(exc).__name__}"
    return obs.events, final, operation


# ----------------------------------------------------------------------------------------
# rendering the model input
# ----------------------------------------------------------------------------------------
class Ids:
    """Abstract value identifiers: equal (Python ==) values get the same id."""

    def __init__(self):
        self.values = []

    def of(self, v):
        for i, w in enumerate(self.values):
            try:
                if type(v) is type(w) and v == w or (v == w and not isinstance(v, bool) and not isinstance(w, bool)):
                    return i
                if v == w:
                    return i
            except Exception:  # noqa: BLE001
                pass
        self.values.append(v)
        return len(self.values) - 1


def c_dict(d, ids):
    return clist([ctuple(cstr(str(k)), cN(ids.of(v))) for k, v in d.items()], "(str * N)")


def c_jdict(d):
    return clist([ctuple(cstr(str(k)), cjson(v)) for k, v in d.items()], "(str * json)")


def c_hparam(name, v2, decl, exs, required):
    return f"{{| h_name := {cstr(name)}; h_decl := {c_jdict(decl)}; h_examples := {clist([cjson(e) for e in exs], 'json')}; h_required := {cbool(required)} |}}"


def c_loc(shape, loc, drawn):
    ids = Ids()
    if loc in ("header", "cookie"):
        # the class of a header / cookie is computed by the MODEL from the schema as declared (Model_C02.header_class)
        hs = []
        for p in shape["params"][loc]:
            v2, decl, exs = declared_header(shape, loc, p)
            hs.append(c_hparam(p["name"], v2, decl, exs, p["required"]))
        ps = f"(header_params {cbool(shape.get('version', 3) == 2)} {clist(hs, 'hparam')})"
    else:
        ps = clist([ctuple(cstr(p["name"]), SCHEMAS[loc][p["schema_idx"]][1]) for p in shape["params"][loc]], "(str * pclass)")
    ex = shape["explicit"][loc]
    e = "ENotSet" if ex is None else f"(EDict {c_dict(ex, ids)})"
    if drawn is None:
        d = "DNone"
    else:
        d = f"(DDict {c_dict(drawn, ids)})"
    return f"{{| l_params := {ps}; l_explicit := {e}; l_draw := {d} |}}"


def c_body(shape, state, mode):
    b = shape["body"]
    alts = []
    if b is not None:
        for a in b["alts"]:
            alts.append(f"{{| a_can_negate := {cbool(BODY_SCHEMAS[a['schema_idx']][1])}; a_required := {cbool(b['required'])} |}}")
    rec = state.get("body")
    chosen = state.get("body_chosen")
    choice = 0
    media_ok = True
    if b is not None and chosen is not None:
        cands = [a for a in b["alts"] if BODY_SCHEMAS[a["schema_idx"]][1]] if mode == "Neg" else list(b["alts"])
        if not cands:
            cands = list(b["alts"])
        medias = [a["media"] for a in cands]
        choice = medias.index(chosen) if chosen in medias else 0
        media_ok = chosen != MEDIA_BAD
    other_ok = b is not None and any(a["media"] != MEDIA_BAD for a in b["alts"])
    return (
        "{| b_explicit := %s; b_custom_nonbytes := false; b_alts := %s; b_choice := %s; b_media_ok := %s; "
        "b_other_media_ok := %s; b_drawn_notset := %s |}"
        % (
            cbool(shape["body_explicit"]),
            clist(alts, "alt"),
            cnat(choice),
            cbool(media_ok),
            cbool(other_ok),
            cbool(bool(rec and rec["notset"])),
        )
    )


def c_op(shape, state, mode):
    def drawn(loc):
        rec = state.get(loc)
        return None if rec is None else rec["value"]

    return "{| i_path := %s; i_header := %s; i_cookie := %s; i_query := %s; i_body := %s |}" % (
        c_loc(shape, "path", drawn("path")),
        c_loc(shape, "header", drawn("header")),
        c_loc(shape, "cookie", drawn("cookie")),
        c_loc(shape, "query", drawn("query")),
        c_body(shape, state, mode),
    )


def impl_strategy(rec):
    if rec is None:
        return None
    if rec.get("none"):
        return "SNone"
    return {"make_positive_strategy": "SPos", "make_negative_strategy": "SNeg"}[rec["factory"]]


def impl_view(event, shape):
    """Canonical (outcome, parts) of what the implementation did."""
    from schemathesis.core import NOT_SET

    if event["kind"] in ("skip", "reject"):
        return {"outcome": event["kind"].capitalize()}
    if event["kind"] == "raises":
        return {"outcome": "RaisesSerialization" if event["error"] == "SerializationNotPossible" else "Raises:" + event["error"]}
    case = event["case"]
    comps = {KIND_OF_COMPONENT[k.value]: {"POSITIVE": "Pos", "NEGATIVE": "Neg"}[v.mode.name] for k, v in case.meta.components.items()}
    parts = {}
    for loc in LOCS:
        value = getattr(case, CONTAINER[loc])
        parts[CK[loc]] = {"label": comps.get(CK[loc]), "present": value is not None, "strategy": impl_strategy(event["state"].get(loc))}
    brec = event["state"].get("body")
    parts["CBody"] = {
        "label": comps.get("CBody"),
        "present": case.body is not NOT_SET,
        "strategy": "SNone" if brec is None else {"make_positive_strategy": "SPos", "make_negative_strategy": "SNeg"}[brec["factory"]],
    }
    return {"outcome": "Case", "mode": {"POSITIVE": "Pos", "NEGATIVE": "Neg"}[case.meta.generation.mode.name], "parts": parts, "order": list(comps)}


def model_view(v):
    if v in ("Skip", "Reject", "RaisesSerialization"):
        return {"outcome": v}
    assert v[0] == "Case", v
    lbl = v[1]
    parts = {}
    order = []
    for p in lbl["parts"]:
        label = popt(p["p_label"])
        parts[p["p_kind"]] = {"label": label, "present": p["p_present"], "strategy": p["p_strategy"]}
        if label is not None:
            order.append(p["p_kind"])
    return {"outcome": "Case", "mode": lbl["case_mode"], "parts": parts, "order": order}


def event_input(shape, event, mode, modes):
    st = {k: (v if k in ("body", "body_chosen") else {"strategy": impl_strategy(v), "value": v["value"]}) for k, v in event["state"].items()}
    return {"shape": shape, "mode": mode, "modes": modes, "draws": json.loads(json.dumps(st, default=repr))}


# ----------------------------------------------------------------------------------------
# oracle on one negative case
# ----------------------------------------------------------------------------------------
INT_RE = re.compile(r"-?[0-9]+\Z")


def wire_text(v):
    if v is True:
        return "true"
    if v is False:
        return "false"
    if v is None:
        return "null"
    if isinstance(v, list) and len(v) == 1:
        return wire_text(v[0]) if not isinstance(v[0], list) else None  # style=form, explode: q=[x] is sent as q=x
    return str(v) if isinstance(v, (int, float, str)) else None


def wire_valid_value(schema, v):
    """Is the text form of v, read as the declared type, valid for the parameter schema?"""
    t = wire_text(v)
    if t is None:
        return False
    if "anyOf" in schema:
        return any(wire_valid_value(sub, v) for sub in schema["anyOf"])
    ty = schema.get("type")
    if ty is None and ("minimum" in schema or "maximum" in schema) and INT_RE.match(t):
        ty = "integer"  # a typeless numeric bound applies to text that reads as a number
    if ty == "integer":
        if not INT_RE.match(t):
            return False
        n = int(t)
        return schema.get("minimum", n) <= n <= schema.get("maximum", n)
    if ty == "boolean":
        return t in ("true", "false")
    if "enum" in schema:
        return t in [wire_text(e) for e in schema["enum"]]
    if ty not in (None, "string"):
        return True  # arrays / objects / null as text: not judged
    import jsonschema

    text_schema = {k: schema[k] for k in ("minLength", "maxLength", "pattern", "format") if k in schema}
    return jsonschema.Draft4Validator(text_schema, format_checker=FORMATS).is_valid(t)


def wire_valid_location(lschema, value):
    if not isinstance(value, dict):
        return False
    props = lschema["properties"]
    if any(k not in props for k in value):
        return False
    if any(k not in value for k in lschema.get("required", [])):
        return False
    return all(wire_valid_value(props[k], v) for k, v in value.items())


def oracle_case(chk, shape, event, mode, stats):
    """Property text on one generated case of negative mode."""
    import jsonschema

    from schemathesis.core import NOT_SET

    case = event["case"]
    inp = event_input(shape, event, mode, None)
    comps = {k.value: v.mode.name for k, v in case.meta.components.items()}
    if case.meta.generation.mode.name != "NEGATIVE":
        chk.fail("negative-mode case not labelled negative", inp)
        return
    if "NEGATIVE" not in comps.values():
        chk.fail("negative case without a negative component", inp, comps)
        return
    neg_present_invalid = 0
    all_neg_wire_valid = True
    dropped_entry = False
    for loc in LOCS:
        label = comps.get(CONTAINER[loc])
        value = getattr(case, CONTAINER[loc])
        if label is None:
            continue
        if value is None:
            if label == "NEGATIVE":
                stats["absent_labelled_negative"] += 1
                chk.fail("absent component labelled negative", inp, {"component": CONTAINER[loc]}, region="absent_part_labelled_negative")
            continue
        explicit = shape["explicit"][loc] or {}
        lschema = location_schema(shape, loc)
        judged = {k: (unquote_plus(v) if loc == "path" and isinstance(v, str) else v) for k, v in dict(value).items()} if hasattr(value, "items") else value
        ok = jsonschema.Draft4Validator(lschema, format_checker=FORMATS).is_valid(judged)
        stats["parts_checked"] += 1
        if label == "NEGATIVE":
            if ok and explicit:
                # the MERGED part (explicit + generated) conforms to the declared schema of the whole location;
                # the region is decided by the model for this very input (after the run, in one Coq batch)
                stats["merged_valid_negative"] += 1
                stats.setdefault("_pending_merged", []).append((shape, event, mode, loc, {"component": CONTAINER[loc], "value": repr(value)[:200]}))
            elif ok:
                chk.fail("component labelled negative is valid for its schema", inp, {"component": CONTAINER[loc], "value": repr(value)[:200]})
            elif explicit:
                neg_present_invalid += 1
                all_neg_wire_valid = False  # text-form reading only for wholly generated parts
            else:
                neg_present_invalid += 1
                received = None
                if loc == "query" and isinstance(value, dict):
                    # what the prepared request really carries (None items and empty lists send nothing, lists repeat the name)
                    try:
                        pairs = case_query_pairs(case)
                    except Exception:  # noqa: BLE001
                        pairs = None
                    if pairs is not None:
                        names = [k for k, _ in pairs]
                        received = dict(pairs) if len(set(names)) == len(names) else False
                        if any(k not in names for k in value):
                            dropped_entry = True
                        if not pairs and wire_valid_location(lschema, {}):
                            stats["query_sent_without_pairs"] = stats.get("query_sent_without_pairs", 0) + 1
                            chk.fail("query labelled negative is sent without any query string, and no query is valid for the declared schema", inp,
                                     {"component": "query", "value": repr(value)[:200]})
                            all_neg_wire_valid = False
                            continue
                if received is False:
                    all_neg_wire_valid = False  # a repeated name
                elif wire_valid_location(lschema, judged if received is None else received):
                    stats["wire_valid_negative_parts"] += 1
                else:
                    all_neg_wire_valid = False
        else:
            explicit_ok = all(k in lschema["properties"] and (jsonschema.Draft4Validator(lschema["properties"][k], format_checker=FORMATS).is_valid(v) or wire_valid_value(lschema["properties"][k], v)) for k, v in explicit.items())
            if explicit_ok and not ok and not wire_valid_location(lschema, judged):
                chk.fail("component labelled positive violates its schema", inp, {"component": CONTAINER[loc], "value": repr(value)[:200]})
    blabel = comps.get("body")
    if blabel is not None and not shape["body_explicit"] and shape["body"] is not None:
        media = case.media_type
        alt = next((a for a in shape["body"]["alts"] if a["media"] == media), None)
        if case.body is NOT_SET:
            if blabel == "NEGATIVE":
                stats["notset_body_labelled_negative"] += 1
                chk.fail("absent body labelled negative", inp, region="notset_body_labelled_negative")
        elif alt is not None:
            ok = jsonschema.Draft4Validator(declared_schema(BODY_SCHEMAS[alt["schema_idx"]][0])).is_valid(case.body)
            stats["parts_checked"] += 1
            if blabel == "NEGATIVE" and ok:
                chk.fail("body labelled negative is valid for its schema", inp, {"body": repr(case.body)[:200]})
            elif blabel == "NEGATIVE":
                neg_present_invalid += 1
                all_neg_wire_valid = False
            elif blabel == "POSITIVE" and not ok:
                chk.fail("body labelled positive violates its schema", inp, {"body": repr(case.body)[:200]})
    if neg_present_invalid and all_neg_wire_valid:
        stats["cases_valid_on_the_wire"] += 1
        if dropped_entry:
            stats["cases_valid_after_dropped_entry"] = stats.get("cases_valid_after_dropped_entry", 0) + 1
            chk.fail("negative case: the offending query entry sends nothing, what is sent is valid", inp, region="negated_entry_dropped_on_wire")
        else:
            chk.fail("negative case is valid once values are turned into text", inp, region="coercion_gap")


def resolve_merged(chk, stats):
    """Merged (explicit + generated) parts labelled negative although valid: the region is the MODEL's verdict on the exact input."""
    pend = stats.pop("_pending_merged", [])
    if not pend:
        return
    exprs = []
    for shape, event, mode, loc, detail in pend:
        rec = event["state"].get(loc)
        exprs.append(f"draw_overwrites_explicit {c_loc(shape, loc, None if rec is None else rec['value'])}")
    for (shape, event, mode, loc, detail), over in zip(pend, core.coq_eval(IMPORTS, exprs)):
        chk.fail(
            "merged component (explicit + generated) labelled negative is valid for the declared schema of its location",
            event_input(shape, event, mode, None), detail, region="explicit_overwritten_by_draw" if over is True else None,
        )


def code_location_schema_names(shape, loc):
    """Names and required list of the location schema before exclusion (parameters_to_json_schema + the path rule)."""
    names = [p["name"] for p in shape["params"][loc]]
    required = list(names) if loc == "path" else [p["name"] for p in shape["params"][loc] if p["required"]]
    return names, required


ANNOTATION_KEYS = ("title", "description", "default", "deprecated", "example", "examples", "externalDocs")
TEXT_POOL = ["", "a", "zz", "abc", "abcdefghijklmnopqrstuvwxyz0123456789", "0", "-1", "12", "true", "null", "2020-01-31", "10.0.0.1", "x y", "%", "\u00e9"]


def header_verdict(schema):
    """Independent reading of ONE header / cookie schema as declared (never can_negate_headers): is there a value of the
    header that violates the schema and survives serialisation?  Every header value is text on the wire, so the candidates
    are texts, read as the declared type.  ("value", text) = yes, with a witness; ("no", None) = certainly not (the schema
    is type string plus annotations); (None, None) = not decided here (no demand is derived from it)."""
    declared = dict(schema)
    declared.setdefault("type", "string")
    if declared.get("format") is not None and declared["format"] not in KNOWN_FORMATS:
        return None, None
    for text in TEXT_POOL:
        if not wire_valid_value(declared, text):
            return "value", text
    if declared["type"] == "string" and all(k == "type" or k in ANNOTATION_KEYS or k.startswith("x-") for k in declared):
        return "no", None
    return None, None


def truly_negatable(shape):
    """Independent reading of the whole operation: can some input be violated?
    Returns (negatable, only by omitting a required header / cookie, some header schema not decided)."""
    value_level = False
    by_removal = False
    undecided = False
    for loc in LOCS:
        for p in shape["params"][loc]:
            sch, _, flag = SCHEMAS[loc][p["schema_idx"]]
            if loc in ("header", "cookie"):
                verdict, _ = header_verdict(sch)
                assert verdict is None or (verdict == "value") == flag, (sch, verdict, flag)  # the table agrees with the reading
                if verdict == "value":
                    value_level = True
                elif p["required"]:
                    by_removal = True
                if verdict is None:
                    undecided = True
            elif flag or loc == "query":
                value_level = True  # a query with declared parameters is always violable by an undeclared name
    if shape["body"] is not None and any(BODY_SCHEMAS[a["schema_idx"]][1] for a in shape["body"]["alts"]):
        value_level = True
    return value_level or by_removal, (by_removal and not value_level), undecided


def has_annotated_header(shape):
    return any(p["schema_idx"] == ANNOTATED_HEADER for loc in ("header", "cookie") for p in shape["params"][loc])


def oracle_operation(chk, shape, mode, modes, events, final, stats):
    """Property text on one operation in negative mode without explicit arguments: an operation with an input that can be
    violated gets negative cases (no SkipTest, not every draw rejected = positive-only data when positive is enabled too);
    one with none is skipped (modes [negative]) instead of failing or producing cases."""
    if mode != "Neg" or any(v is not None for v in shape["explicit"].values()) or shape["body_explicit"]:
        return
    if shape["body"] is not None and any(a["media"] == MEDIA_BAD for a in shape["body"]["alts"]):
        return
    neg, only_removal, undecided = truly_negatable(shape)
    if undecided:
        return
    string_path = any(SCHEMAS["path"][p["schema_idx"]][1] == "PStrOnly" for p in shape["params"]["path"])
    annotated = has_annotated_header(shape)
    inp = {"shape": shape, "mode": mode, "modes": modes}
    n_cases = sum(1 for e in events if e["kind"] == "case")
    n_label_rejects = sum(1 for e in events if e["kind"] == "reject")  # openapi_cases found nothing negated in the draw
    if neg and final == "skip":
        stats["skip_although_negatable"] += 1
        chk.fail("operation with an input that can be violated is skipped", inp, {"final": final}, region="required_string_header_skipped" if only_removal else None)
    elif neg and final == "unsat" and n_cases == 0 and n_label_rejects > 12:
        # every draw of the negative strategy was rejected because no part was negated: with positive mode enabled as well the
        # operation is only ever tested with positive data
        stats["rejected_although_negatable"] += 1
        chk.fail("operation with an input that can be violated gets no negative cases (every negative draw is rejected, positive data only)", inp,
                 {"final": final, "rejected_draws": n_label_rejects}, region="required_string_header_skipped" if only_removal else None)
    elif neg and final == "unsat" and n_cases == 0 and annotated:
        stats["unsat_although_negatable"] += 1
        chk.fail("operation with an input that can be violated gets no negative cases (Unsatisfiable)", inp, {"final": final}, region="annotated_string_header_unsatisfiable")
    elif not neg and final == "unsat" and modes == ["Neg"]:
        stats["unsat_instead_of_skip"] += 1
        region = "string_path_unsatisfiable" if string_path else "annotated_string_header_unsatisfiable" if annotated else None
        chk.fail("operation that cannot be negated ends in Unsatisfiable instead of a skip", inp, {"final": final}, region=region)
    elif not neg and final == "ok" and n_cases:
        chk.fail("operation that cannot be negated produced negative cases", inp, {"cases": n_cases})


# ----------------------------------------------------------------------------------------
def stage_labels(chk, n_ops, n_examples):
    rng = chk.rng
    stats = {
        "operations": 0, "events": 0, "cases": 0, "skips": 0, "rejects": 0, "raises": 0, "unsat": 0,
        "parts_checked": 0, "absent_labelled_negative": 0, "notset_body_labelled_negative": 0,
        "wire_valid_negative_parts": 0, "cases_valid_on_the_wire": 0, "skip_although_negatable": 0, "unsat_instead_of_skip": 0,
        "merged_valid_negative": 0, "exclusion_checks": 0, "rejected_although_negatable": 0, "unsat_although_negatable": 0, "header_focus_operations": 0,
    }
    corpus = [json.loads(p.read_text()) for p in sorted((core.VERIF / "corpus" / "C02").glob("shape_*.json"))]
    jobs = [(c["shape"], c.get("mode", "Neg"), c.get("modes", ["Neg"])) for c in corpus]
    for i in range(n_ops):
        shape = gen_shape(rng, force="no_explicit" if i % 3 == 0 else None)
        r = rng.random()
        if r < 0.6:
            jobs.append((shape, "Neg", ["Neg"]))
        elif r < 0.85:
            jobs.append((shape, "Neg", ["Pos", "Neg"]))
        else:
            jobs.append((shape, "Pos", rng.choice([["Pos"], ["Pos", "Neg"]])))
    focus = gen_header_focus(rng)
    stats["header_focus_operations"] = len(focus)
    jobs = jobs[: len(corpus)] + focus + jobs[len(corpus):]
    pending = []
    excl_jobs = []
    hdr_jobs = {}
    with Observer() as obs:
        for shape, mode, modes in jobs:
            events, final, operation = run_operation(obs, shape, mode, modes, rng.getrandbits(32), n_examples)
            stats["operations"] += 1
            for loc in ("header", "cookie"):
                if shape["params"][loc]:
                    key = json.dumps([shape.get("version", 3), loc, shape["params"][loc]], sort_keys=True)
                    hdr_jobs.setdefault(key, (shape, loc, bool(obs.H.can_negate_headers(operation, loc))))
            for loc, got in obs.excluded.items():
                names, required = code_location_schema_names(shape, loc)
                excl_jobs.append((shape, loc, list(shape["explicit"][loc] or {}), names, required, got))
            chk.count(f"final:{final.split(':')[0]}:{mode}")
            if final == "unsat":
                stats["unsat"] += 1
            seen_states = set()
            for ev in events:
                key = json.dumps(event_input(shape, ev, mode, modes)["draws"], sort_keys=True, default=repr) + ev["kind"]
                stats["events"] += 1
                stats[{"case": "cases", "skip": "skips", "reject": "rejects", "raises": "raises"}[ev["kind"]]] += 1
                if ev["kind"] == "case" and mode == "Neg":
                    oracle_case(chk, shape, ev, mode, stats)
                if key in seen_states:
                    continue
                seen_states.add(key)
                pending.append((shape, ev, mode, modes))
            oracle_operation(chk, shape, mode, modes, events, final, stats)
    # the model on every distinct observation
    exprs = []
    for shape, ev, mode, modes in pending:
        op = c_op(shape, ev["state"], mode)
        exprs.append(f"(let op := {op} in (label_case {mode} {clist(modes, 'gmode')} op, draws_fit {mode} op))")
    model = core.coq_eval(IMPORTS, exprs)
    for (shape, ev, mode, modes), (m_out, m_fit) in zip(pending, model):
        impl = impl_view(ev, shape)
        mod = model_view(m_out)
        inp = event_input(shape, ev, mode, modes)
        nontrivial = ev["kind"] != "case" or any(p["label"] is None for p in impl["parts"].values()) or len({p["label"] for p in impl["parts"].values()}) > 1
        chk.seen(inp, nontrivial)
        chk.count("event:" + ev["kind"])
        if impl != mod:
            chk.disagree("openapi_cases vs Model_C02.label_case", inp, impl, mod)
        elif ev["kind"] == "case" and m_fit is not True:
            chk.disagree("drawn values do not fit the assumed contract (draws_fit)", inp, impl, {"draws_fit": m_fit})
        elif ev["kind"] == "case":
            chk.sample({"mode": mode, "modes": modes, "explicit": shape["explicit"], "labels": {k: v["label"] for k, v in impl["parts"].items()}})
    stats["distinct_observations"] = len(pending)
    resolve_merged(chk, stats)
    # can_negate_headers of the code against the model predicate over the classes computed from the declared schemas
    hdr = list(hdr_jobs.values())
    exprs = [f"can_negate_headers (l_params {c_loc(shape, loc, None)})" for shape, loc, _ in hdr]
    for (shape, loc, got), mod in zip(hdr, core.coq_eval(IMPORTS, exprs)):
        stats["can_negate_headers_checks"] = stats.get("can_negate_headers_checks", 0) + 1
        inp = {"version": shape.get("version", 3), "location": loc,
               "parameters": [{"name": p["name"], "required": p["required"], "schema": SCHEMAS[loc][p["schema_idx"]][0]} for p in shape["params"][loc]]}
        chk.seen({"can_negate_headers": inp}, got)
        if got != mod:
            chk.disagree("can_negate_headers vs Model_C02.can_negate_headers (header_params ...)", inp, got, mod)
    # the exclusion step of get_parameters_strategy against Model_C02.exclude_names
    exprs = []
    for shape, loc, excluded, names, required, got in excl_jobs:
        sch = {"properties": {n: {} for n in names}, "additionalProperties": False, "type": "object", "required": required}
        r = f"(exclude_names {clist([cstr(n) for n in excluded], 'str')} {c_kws(sch)})"
        exprs.append(f"(map fst (props_of {r}), required_of {r})")
    for (shape, loc, excluded, names, required, got), (m_props, m_req) in zip(excl_jobs, core.coq_eval(IMPORTS, exprs)):
        stats["exclusion_checks"] += 1
        mod = {"properties": [pstr(x) for x in m_props], "required": [pstr(x) for x in (popt(m_req) or [])]}
        chk.seen({"exclusion": [loc, excluded, names, required]}, bool(excluded))
        if got != mod:
            chk.disagree("get_parameters_strategy exclusion of explicit names vs Model_C02.exclude_names",
                         {"location": loc, "parameters": names, "required": required, "explicit_names": excluded}, got, mod)
    return stats


# ----------------------------------------------------------------------------------------
# stage B: the three mutations with a scripted draw
# ----------------------------------------------------------------------------------------
TYPES = {"null": "TNull", "boolean": "TBool", "integer": "TInt", "number": "TNum", "string": "TStr", "array": "TArr", "object": "TObj"}
TYPES_BACK = {v: k for k, v in TYPES.items()}
KNAMES = {
    "type": "NType", "enum": "NEnum", "minimum": "NMin", "maximum": "NMax", "minLength": "NMinLen", "maxLength": "NMaxLen",
    "required": "NRequired", "properties": "NProps", "additionalProperties": "NAddProps", "items": "NItems", "minItems": "NMinItems",
}
SUBS = [{}, {"type": "integer"}, {"type": "string"}, {"type": "boolean"}, {"type": "object"}]
PROP_NAMES = ["a", "b", "ab", "B", "é", ""]


def gen_fragment(rng, loc):
    """A schema of the modelled fragment, keys in random order."""
    s = {}
    keys = [k for k in KNAMES if rng.random() < 0.4]
    if loc in ("query", "header", "cookie") and rng.random() < 0.5:
        keys = ["properties", "additionalProperties", "type", "required"]
    rng.shuffle(keys)
    for k in keys:
        if k == "type":
            if loc in ("query", "header", "cookie") and "properties" in keys and rng.random() < 0.8:
                s[k] = "object"
            else:
                s[k] = rng.choice(list(TYPES)) if rng.random() < 0.7 else rng.sample(list(TYPES), rng.choice([1, 2, 3]))
        elif k == "enum":
            s[k] = rng.sample([1, 2, "a", "", None, True, [1], {"a": 1}], rng.choice([1, 2, 3]))
        elif k in ("minimum", "maximum"):
            s[k] = rng.choice([-2, 0, 1, 3, 10])
        elif k in ("minLength", "maxLength", "minItems"):
            s[k] = rng.choice([0, 1, 1, 2, 5])
        elif k == "required":
            s[k] = rng.sample(PROP_NAMES, rng.choice([0, 1, 1, 2, 3]))
        elif k == "properties":
            s[k] = {n: copy.deepcopy(rng.choice(SUBS)) for n in rng.sample(PROP_NAMES, rng.choice([0, 1, 2, 3]))}
        elif k == "additionalProperties":
            s[k] = rng.random() < 0.3
        elif k == "items":
            s[k] = copy.deepcopy(rng.choice(SUBS))
    return s


def c_kw(k, v):
    if k == "type":
        ts = [v] if isinstance(v, str) else v
        return f"(KType {clist([TYPES[t] for t in ts], 'jtype')})"
    if k == "enum":
        return f"(KEnum {clist([cjson(x) for x in v], 'json')})"
    if k == "minimum":
        return f"(KMin {cZ(v)})"
    if k == "maximum":
        return f"(KMax {cZ(v)})"
    if k == "minLength":
        return f"(KMinLen {cN(v)})"
    if k == "maxLength":
        return f"(KMaxLen {cN(v)})"
    if k == "minItems":
        return f"(KMinItems {cN(v)})"
    if k == "required":
        return f"(KRequired {clist([cstr(x) for x in v], 'str')})"
    if k == "properties":
        return "(KProps " + clist([ctuple(cstr(n), cjson(sub)) for n, sub in v.items()], "(str * json)") + ")"
    if k == "additionalProperties":
        return f"(KAddProps {cbool(v)})"
    if k == "items":
        return f"(KItems {cjson(v)})"
    raise KeyError(k)


def c_kws(d):
    return clist([c_kw(k, v) for k, v in d.items() if k != "not"], "kw")


def c_mschema(d):
    return f"{{| kept := {c_kws(d)}; negated := {c_kws(d.get('not', {}))} |}}"


def pjson(v):
    if v == "JNull":
        return None
    tag = v[0]
    if tag == "JBool":
        return v[1]
    if tag == "JInt":
        return v[1]
    if tag == "JStr":
        return pstr(v[1])
    if tag == "JArr":
        return [pjson(x) for x in v[1]]
    if tag == "JObj":
        return {pstr(k): pjson(x) for k, x in v[1]}
    raise ValueError(v)


def p_kws(kws):
    out = {}
    for kw in kws:
        tag, val = kw[0], kw[1]
        if tag == "KType":
            out["type"] = [TYPES_BACK[t] for t in val]
        elif tag == "KEnum":
            out["enum"] = [pjson(x) for x in val]
        elif tag == "KMin":
            out["minimum"] = val
        elif tag == "KMax":
            out["maximum"] = val
        elif tag == "KMinLen":
            out["minLength"] = val
        elif tag == "KMaxLen":
            out["maxLength"] = val
        elif tag == "KMinItems":
            out["minItems"] = val
        elif tag == "KRequired":
            out["required"] = [pstr(x) for x in val]
        elif tag == "KProps":
            out["properties"] = {pstr(n): pjson(sub) for n, sub in val}
        elif tag == "KAddProps":
            out["additionalProperties"] = val
        elif tag == "KItems":
            out["items"] = pjson(val)
    return out


def norm_schema(d):
    """Canonical form for comparison: a one-element type list and a type string are the same thing."""
    out = {}
    for k, v in d.items():
        if k == "type":
            out[k] = [v] if isinstance(v, str) else list(v)
        elif k == "not":
            out[k] = norm_schema(v)
        else:
            out[k] = v
    return out


def p_mschema(v):
    m = popt(v)
    if m is None:
        return None
    out = p_kws(m["kept"])
    if m["negated"]:
        out["not"] = p_kws(m["negated"])
    return norm_schema(out)


class ScriptedDraw:
    """draw() replaying fixed choices: sampled_from -> index (mod length), shared FeatureStrategy -> fixed enabled set."""

    def __init__(self, idxs, enabled):
        self.idxs = list(idxs)
        self.enabled = set(enabled)
        self.calls = 0

    def __call__(self, strategy):
        from hypothesis.strategies._internal.strategies import SampledFromStrategy

        inner = getattr(strategy, "wrapped_strategy", strategy)
        if isinstance(inner, SampledFromStrategy):
            els = list(inner.elements)
            i = self.idxs[self.calls] if self.calls < len(self.idxs) else 0
            self.calls += 1
            return els[i % len(els)]
        flags = self

        class Flags:
            def is_enabled(self, name):
                return name in flags.enabled

        return Flags()


MLOC = {"body": "MBody", "query": "MQuery", "path": "MPath", "header": "MHeader", "cookie": "MCookie"}
VALUE_POOL = [None, True, False, -3, 0, 1, 2, 3, 5, 10, 11, "", "a", "ab", "abcdef", [], [1], [1, "a"], [True, False, None], {}, {"a": 1}, {"a": "x"},
              {"b": True}, {"a": 1, "b": 2}, {"ab": {}}, {"zz": 1}, {"a": 1, "zz": 2}, {"": 0}, {"B": [], "é": None}]


def stage_mutations(chk, n):
    import jsonschema

    from schemathesis.specs.openapi.negative import mutations as M
    from schemathesis.specs.openapi.negative.utils import can_negate

    rng = chk.rng
    stats = {"runs": 0, "success": 0, "failure": 0, "validity_checks": 0, "unsound_instances_inside_regions": 0, "chained_inputs": 0}
    jobs = []
    corpus = [json.loads(p.read_text()) for p in sorted((core.VERIF / "corpus" / "C02").glob("mutation_*.json"))]
    for c in corpus:
        jobs.append(c)
    for _ in range(n):
        loc = rng.choice(["body", "body", "query", "path", "header", "cookie"])
        schema = gen_fragment(rng, loc)
        which = rng.choice(["negate_constraints", "change_type", "remove_required_property"])
        jobs.append(
            {
                "which": which, "loc": loc, "form": loc == "body" and rng.random() < 0.1, "schema": schema,
                "idxs": [rng.randrange(8), rng.randrange(8)],
                "enabled": rng.sample(list(KNAMES) + list(TYPES) + PROP_NAMES, rng.choice([0, 1, 3, 6])),
                "chain": which != "negate_constraints" and rng.random() < 0.3,
            }
        )
    exprs = []
    runs = []
    for job in jobs:
        loc = job["loc"]
        ctx = M.MutationContext(keywords=job["schema"], non_keywords={}, location=loc, media_type="application/x-www-form-urlencoded" if job["form"] else None)
        cctx = f"{{| c_loc := {MLOC[loc]}; c_form := {cbool(job['form'])} |}}"
        original = copy.deepcopy(job["schema"])
        work = copy.deepcopy(job["schema"])
        if job.get("chain"):
            # a mutated schema (with a not keyword) as the input of the second mutation
            res0 = M.negate_constraints(ctx, ScriptedDraw([0], []), work)
            if res0 != M.MutationResult.SUCCESS:
                work = copy.deepcopy(job["schema"])
            else:
                stats["chained_inputs"] += 1
            original = copy.deepcopy(work)
        draw = ScriptedDraw(job["idxs"], job["enabled"])
        try:
            cantop = not can_negate(work) if job["which"] == "negate_constraints" else False
            res = getattr(M, job["which"])(ctx, draw, work)
            impl = norm_schema(work) if res == M.MutationResult.SUCCESS else None
        except Exception as exc:  # noqa: BLE001
            impl = f"raises {type(exc).__name__}"
            cantop = False
        values = rng.sample(VALUE_POOL, 8)
        for name, sub in original.get("properties", {}).items():
            values.append({name: rng.choice([1, "s", True, {}])})
        if original.get("required"):
            values.append({k: 1 for k in original["required"]})
            values.append({k: 1 for k in original["required"][1:]})
        vals = clist([cjson(v) for v in values], "json")
        m_in = c_mschema(original)
        if job["which"] == "negate_constraints":
            en = clist([KNAMES[k] for k in job["enabled"] if k in KNAMES], "kname")
            call = f"negate_constraints {cctx} {cbool(cantop)} {c_kws(original)} {{| n_idx := {cnat(job['idxs'][0])}; n_enabled := {en} |}}"
            region = f"(fun m' => negate_region {c_kws(original)} m')"
        elif job["which"] == "change_type":
            en = clist([TYPES[k] for k in job["enabled"] if k in TYPES], "jtype")
            call = f"change_type {cctx} {m_in} {{| t_idx1 := {cnat(job['idxs'][0])}; t_enabled := {en}; t_idx2 := {cnat(job['idxs'][1])} |}}"
            region = f"(fun m' => change_type_region {m_in} m')"
        else:
            en = clist([cstr(k) for k in job["enabled"] if k in PROP_NAMES], "str")
            call = f"remove_required_property {m_in} {{| r_idx1 := {cnat(job['idxs'][0])}; r_enabled := {en}; r_idx2 := {cnat(job['idxs'][1])} |}}"
            region = f"(fun m' => closed_object {m_in})"
        exprs.append(
            f"(let r := {call} in (r, match r with Some m' => {region} m' | None => true end, "
            f"map (valid sub_valid_simple {m_in}) {vals}, match r with Some m' => map (valid sub_valid_simple m') {vals} | None => [] end))"
        )
        runs.append((job, original, impl, values))
    model = core.coq_eval(IMPORTS, exprs)
    for (job, original, impl, values), (m_res, m_region, m_valid_orig, m_valid_mut) in zip(runs, model):
        stats["runs"] += 1
        inp = {k: job[k] for k in ("which", "loc", "form", "idxs", "enabled")} | {"schema": original}
        mod = p_mschema(m_res)
        chk.seen(inp, impl is not None)
        chk.count(f"mutation:{job['which']}:{'success' if impl else 'failure'}")
        stats["success" if impl else "failure"] += 1
        if impl != mod:
            chk.disagree(f"mutations.{job['which']} vs Model_C02.{job['which']}", inp, impl, mod)
            continue
        # validity: python-jsonschema against Model_C02.valid, on the original and on the mutated schema
        try:
            v_orig = [jsonschema.Draft4Validator(original).is_valid(v) for v in values]
            v_mut = [jsonschema.Draft4Validator(impl).is_valid(v) for v in values] if impl else []
        except Exception as exc:  # noqa: BLE001
            chk.count(f"validator_error:{type(exc).__name__}")
            continue
        stats["validity_checks"] += len(v_orig) + len(v_mut)
        if v_orig != list(m_valid_orig) or v_mut != list(m_valid_mut):
            chk.disagree("python-jsonschema vs Model_C02.valid", {**inp, "values": values, "mutated": impl},
                         {"original": v_orig, "mutated": v_mut}, {"original": m_valid_orig, "mutated": m_valid_mut})
            continue
        # soundness as the theorems state it: valid for the mutated schema and for the original only outside the regions
        both = [v for v, a, b in zip(values, v_orig, v_mut) if a and b]
        if both:
            if m_region is True:
                chk.disagree(f"{job['which']}: a value valid for both schemas inside the region of the soundness theorem",
                             {**inp, "mutated": impl}, {"values": both[:3]}, {"region": True})
            else:
                stats["unsound_instances_inside_regions"] += 1
    return stats


# ----------------------------------------------------------------------------------------
# stage D: the class of a header / cookie parameter from the schema as declared (no data generation)
# ----------------------------------------------------------------------------------------
def gen_declared_header(rng):
    """A header / cookie parameter as a document would declare it: keywords in random order and combination."""
    version = 2 if rng.random() < 0.3 else 3
    loc = "header" if version == 2 or rng.random() < 0.6 else "cookie"
    nullable = "x-nullable" if version == 2 else "nullable"
    pool = {
        "type": lambda: rng.choice(["string"] * 6 + ["integer", "boolean", "number", "array"] + (["file"] if version == 2 else [])),
        "enum": lambda: rng.choice([["a", "b"], ["only"], [1, 2], []]),
        "pattern": lambda: rng.choice(["^[a-z]{3}$", "^a", "[0-9]+"]),
        "minLength": lambda: rng.choice([0, 0, 1, 3]),
        "maxLength": lambda: rng.choice([0, 3, 100]),
        "format": lambda: rng.choice(["date", "ipv4", "unknownfmt", "binary"]),
        "example": lambda: rng.choice(["x", 1, None]),
        "examples": lambda: ["x", "y"],
        "title": lambda: "T",
        "description": lambda: "free text",
        "default": lambda: "d",
        "deprecated": lambda: True,
        "readOnly": lambda: rng.random() < 0.5,
        "x-internal": lambda: "yes",
        nullable: lambda: rng.random() < 0.6,
        "minimum": lambda: 3,
        "maxItems": lambda: 2,
        "items": lambda: {"type": "string"},
    }
    keys = [k for k in pool if rng.random() < (0.55 if k == "type" else 0.12)]
    if rng.random() < 0.2:
        keys = rng.choice([[], ["type"], ["description", "type"], ["type", "title", "default"]])
    rng.shuffle(keys)
    schema = {k: pool[k]() for k in keys}
    if version == 2:
        schema.setdefault("type", "string")  # a 2.0 non-body parameter always carries a type
    param = {"name": "X-A" if loc == "header" else "ca", "in": loc, "required": rng.random() < 0.3}
    if rng.random() < 0.3:
        param["description"] = "parameter level text"
    exs = []
    if rng.random() < 0.12:
        many = {"one": {"value": "p"}, "two": {"summary": "no value"}, "three": {"value": 7}}
        param["x-examples" if version == 2 else "examples"] = many
        exs += ["p", 7]
    if rng.random() < 0.15:
        param["x-example" if version == 2 else "example"] = "q"
        exs.append("q")
    if version == 2:
        param.update(schema)
        decl = dict(param)
    else:
        param["schema"] = schema
        decl = dict(schema)
    return {"version": version, "loc": loc, "param": param, "schema": schema, "decl": decl, "examples": exs}


def jdict_back(v):
    return {pstr(k): pjson(x) for k, x in v}


def stage_header_class(chk, n):
    import schemathesis
    import schemathesis.specs.openapi._hypothesis as H
    from schemathesis.specs.openapi.parameters import parameters_to_json_schema

    rng = chk.rng
    stats = {"parameters": 0, "class_other": 0, "schemas_compared_exactly": 0, "oracle_verdicts_compared": 0, "rejected_by_the_code": 0}
    cases = []
    for idx, (sch, _, _) in enumerate(HEADER_SCHEMAS):  # the table used by the data generation stage first
        for version, loc in ((3, "header"), (3, "cookie"), (2, "header")):
            if version == 2 and "type" not in sch:
                continue
            p = {"name": "X-A" if loc == "header" else "ca", "schema_idx": idx, "required": idx % 2 == 0}
            shape = {"version": version}
            v2, decl, exs = declared_header(shape, loc, p)
            param = param_object_v2(loc, p) if v2 else {"name": p["name"], "in": loc, "required": p["required"], "schema": copy.deepcopy(sch)}
            cases.append({"version": version, "loc": loc, "param": param, "schema": copy.deepcopy(sch), "decl": decl, "examples": exs})
    for _ in range(n):
        cases.append(gen_declared_header(rng))
    runs = []
    exprs = []
    # one document per dialect, one path per declared parameter
    docs = {}
    for n, c in enumerate(cases):
        c["path"] = f"/x{n}"
        head = {"swagger": "2.0"} if c["version"] == 2 else {"openapi": "3.0.2"}
        doc = docs.setdefault(c["version"], {**head, "info": {"title": "t", "version": "1"}, "paths": {}})
        doc["paths"][c["path"]] = {"post": {"parameters": [copy.deepcopy(c["param"])], "responses": {"200": {"description": "ok"}}}}
    loaded = {version: schemathesis.openapi.from_dict(doc) for version, doc in docs.items()}
    for c in cases:
        try:
            operation = loaded[c["version"]][c["path"]]["POST"]
            params = getattr(operation, "headers" if c["loc"] == "header" else "cookies")
            conv = parameters_to_json_schema(operation, params)["properties"][c["param"]["name"]]
            impl = {"schema": conv, "class": "POther" if H.can_negate_headers(operation, c["loc"]) else "PStrOnly"}
        except Exception as exc:  # noqa: BLE001
            stats["rejected_by_the_code"] += 1
            chk.count(f"header_class_rejected:{type(exc).__name__}")
            continue
        v2 = cbool(c["version"] == 2)
        d, e = c_jdict(c["decl"]), clist([cjson(x) for x in c["examples"]], "json")
        exprs.append(f"(let d := {d} in let e := {e} in (header_prop_schema {v2} d e, header_class {v2} d e, hdr_exact d, header_value_violable d))")
        runs.append((c, impl))
    for (c, impl), (m_schema, m_class, m_exact, m_violable) in zip(runs, core.coq_eval(IMPORTS, exprs, shard=60)):
        stats["parameters"] += 1
        inp = {k: c[k] for k in ("version", "loc", "param", "examples")}
        chk.seen({"header_class": inp}, impl["class"] == "POther")
        chk.count(f"header_class:{impl['class']}")
        stats["class_other"] += impl["class"] == "POther"
        if impl["class"] != m_class:
            chk.disagree("can_negate_headers on one parameter vs Model_C02.header_class of the declared schema", inp, impl, {"class": m_class, "schema": jdict_back(m_schema)})
            continue
        if m_exact is True:
            stats["schemas_compared_exactly"] += 1
            mod = jdict_back(m_schema)
            if json.dumps(impl["schema"], sort_keys=True) != json.dumps(mod, sort_keys=True):
                chk.disagree("as_json_schema of a header / cookie parameter vs Model_C02.header_prop_schema", inp, impl["schema"], mod)
                continue
        # the harness reading used by the operation oracle against the predicate the theorems are stated with
        verdict, witness = header_verdict(c["schema"])
        if verdict is not None:
            stats["oracle_verdicts_compared"] += 1
            if (verdict == "value") != (m_violable is True):
                chk.disagree("header_verdict of the oracle vs Model_C02.header_value_violable", inp, {"verdict": verdict, "witness": witness}, {"header_value_violable": m_violable})
    return stats


# ----------------------------------------------------------------------------------------
# stage C: text form of scalar values
# ----------------------------------------------------------------------------------------
def stage_coercion(chk, n):
    from schemathesis.specs.openapi._hypothesis import jsonify_python_specific_types

    rng = chk.rng
    vals = [None, True, False, 0, -1, 5, 10**12, -(10**20), "5", "-3", "", "-", "true", "false", "null", "abc", "05", "5 ", "+5", "٣", "1e3"]
    for _ in range(n):
        k = rng.random()
        if k < 0.4:
            vals.append(rng.choice([-1, 1]) * rng.getrandbits(rng.choice([1, 8, 40, 70])))
        else:
            vals.append("".join(rng.choice("0123456789-truefalsn ") for _ in range(rng.choice([1, 2, 4, 6]))))
    prims = [("PInt", {"type": "integer"}), ("PBool", {"type": "boolean"}), ("PString", {"type": "string"})]
    exprs = [f"(coerce {cjson(v)}, {clist([f'wire_valid {p} (match coerce {cjson(v)} with Some w => w | None => [] end)' for p, _ in prims], 'bool')})" for v in vals]
    model = core.coq_eval(IMPORTS, exprs)
    bad = 0
    for v, (m_text, m_valid) in zip(vals, model):
        impl_text = str(jsonify_python_specific_types({"k": v})["k"])
        chk.seen({"coerce": v}, True)
        if pstr(popt(m_text)) != impl_text:
            chk.disagree("jsonify_python_specific_types + str vs Model_C02.coerce", v, impl_text, pstr(popt(m_text)))
            bad += 1
            continue
        ours = [wire_valid_value(sch, v) for _, sch in prims]
        if ours != list(m_valid):
            chk.disagree("wire validity of the oracle vs Model_C02.wire_valid", v, ours, m_valid)
            bad += 1
    return {"values": len(vals), "disagreements": bad}


# ----------------------------------------------------------------------------------------
# stage E: the query ON THE WIRE (containers).  Correspondence of is_non_empty_query, jsonify_python_specific_types and the
# prepared request URL with Model_C02 Part E; then an oracle on what a loopback server really receives.
# ----------------------------------------------------------------------------------------
PRIMS = {"integer": "PInt", "boolean": "PBool", "string": "PString"}
QKEYS = ["limit", "flag", "ids", "zz", "", "é", "a b"]
QSCALARS = [None, None, True, False, 0, -1, 5, 12, 10**12, "", "5", "-3", "true", "false", "null", "abc", "a b&c=d", "é", "it's", "back\\slash", "None"]
QCONTAINERS = [
    [], [None], [None, None], [[]], [[], None], [None, 1], [None, 5], [1, 2], [None, "a"], [True], [False, None], [[None]], [[1, None]], [{}], [{"a": None}], [""],
    [None, [], None], [[], []], [[[]]], ["a", "b"], [None, "true"], [None, None, 7],
    {}, {"a": None}, {"a": {}}, {"a": {"b": None}}, {"a": [None]}, {"": 1}, {"a": True, "b": [True, None]}, {"a": {"b": {"c": False}}}, {"x": []},
]


def gen_qvalue(rng, depth=0):
    r = rng.random()
    if r < 0.35:
        return copy.deepcopy(rng.choice(QCONTAINERS))
    if r < 0.7 or depth >= 2:
        v = rng.choice(QSCALARS)
        if isinstance(v, int) and not isinstance(v, bool) and rng.random() < 0.3:
            v = rng.choice([-1, 1]) * rng.getrandbits(rng.choice([3, 20, 66]))
        return v
    if r < 0.88:
        return [gen_qvalue(rng, depth + 1) for _ in range(rng.choice([0, 1, 1, 2, 3]))]
    return {rng.choice(["a", "b", "", "é", "it's"]): gen_qvalue(rng, depth + 1) for _ in range(rng.choice([0, 1, 2]))}


def gen_qdecl(rng):
    names = rng.sample(["limit", "flag", "ids", "a b"], rng.choice([1, 1, 2, 3]))
    return {n: (rng.choice(["integer", "integer", "boolean", "string"]), rng.random() < 0.25) for n in names}


def c_qdecl(decl):
    return clist([ctuple(cstr(n), f"{{| q_type := {PRIMS[t]}; q_required := {cbool(r)} |}}") for n, (t, r) in decl.items()], "(str * qparam)")


def qdecl_location_schema(decl):
    """The location schema parameters_to_json_schema builds for such a query, written by the harness."""
    out = {"type": "object", "properties": {n: {"type": t} for n, (t, _) in decl.items()}, "additionalProperties": False}
    req = [n for n, (_, r) in decl.items() if r]
    if req:
        out["required"] = req
    return out


def decode_query_string(qs):
    """The key=value pairs a server decodes from the raw query string, in order."""
    if not qs:
        return []
    out = []
    for item in qs.split("&"):
        k, _, v = item.partition("=")
        out.append((unquote_plus(k), unquote_plus(v)))
    return out


def wire_valid_pairs(decl, pairs, array_names=()):
    """The harness reading of the received query against the DECLARED parameters: every name declared, a non-array name sent once,
    each text in the lexical space of the declared type (items type for arrays), every required name there."""
    names = [k for k, _ in pairs]
    for k, text in pairs:
        if k not in decl:
            return False
        ty = decl[k][0]
        if k not in array_names and names.count(k) != 1:
            return False
        if ty == "integer" and not INT_RE.match(text):
            return False
        if ty == "boolean" and text not in ("true", "false"):
            return False
    return all(n in names for n, (_, r) in decl.items() if r)


_WIRE_OP = {}


def prepared_query_pairs(query):
    """What RequestsTransport.serialize_case + requests really put into the URL for case.query == query (no network)."""
    import requests
    import schemathesis

    if "op" not in _WIRE_OP:
        raw = {"openapi": "3.0.2", "info": {"title": "t", "version": "1"},
               "paths": {"/x": {"post": {"parameters": [{"name": "limit", "in": "query", "required": False, "schema": {"type": "integer"}}], "responses": {"200": {"description": "ok"}}}}}}
        _WIRE_OP["op"] = schemathesis.openapi.from_dict(raw)["/x"]["POST"]
    case = _WIRE_OP["op"].Case(query=query)
    return case_query_pairs(case)


def case_query_pairs(case):
    import requests
    from urllib.parse import urlsplit

    kw = case.as_transport_kwargs(base_url="http://127.0.0.1:9")
    url = requests.Request(method=kw["method"], url=kw["url"], params=kw["params"]).prepare().url
    return decode_query_string(urlsplit(url).query)


def stage_query_wire(chk, n):
    import jsonschema

    from schemathesis.specs.openapi._hypothesis import jsonify_python_specific_types
    from schemathesis.specs.openapi.negative import is_non_empty_query

    rng = chk.rng
    fixed = [
        ({"limit": ("integer", False)}, {"limit": [None]}), ({"limit": ("integer", False)}, {"limit": [None, None]}),
        ({"limit": ("integer", False)}, {"limit": 5, "zz": []}), ({"limit": ("integer", False)}, {"limit": [None, 1]}),
        ({"limit": ("integer", False)}, {"limit": None}), ({"limit": ("integer", False)}, {"limit": {}}), ({"limit": ("integer", False)}, {"limit": [[]]}),
        ({"limit": ("integer", False)}, {}), ({"limit": ("integer", True)}, {"limit": [None]}), ({"flag": ("boolean", False)}, {"flag": [True]}),
        ({"limit": ("integer", False), "flag": ("boolean", False)}, {"limit": [None], "flag": [None, None]}),
        ({"limit": ("integer", False)}, {"zz": {"a": [None]}}), ({"limit": ("integer", False)}, {"limit": {"a": None}}),
    ]
    cases = list(fixed)
    for path in sorted((core.VERIF / "corpus" / "C02").glob("query_*.json")):
        c = json.loads(path.read_text())
        cases.append(({k: (t, bool(r)) for k, (t, r) in c["declared"].items()}, c["query"]))
    for _ in range(n):
        decl = gen_qdecl(rng)
        q = {}
        for _ in range(rng.choice([0, 1, 1, 2, 2, 3])):
            k = rng.choice(list(decl) + QKEYS) if rng.random() < 0.8 else rng.choice(QKEYS)
            q[k] = gen_qvalue(rng)
            if k in decl and rng.random() < 0.35:  # a value of the declared type
                q[k] = {"integer": rng.choice([0, 5, -7]), "boolean": rng.choice([True, False]), "string": rng.choice(["", "abc", "5"])}[decl[k][0]]
        cases.append((decl, q))
    exprs = []
    for decl, q in cases:
        cq, cd = c_jdict(q), c_qdecl(decl)
        exprs.append(
            f"(let q := {cq} in let d := {cd} in (is_non_empty_query q, jsonify_query q, wire_count q, query_wire q, "
            f"(valid_query d q, match query_wire q with Some ps => Some (wire_valid_query d ps) | None => None end, entry_dropped q), "
            f"(query_survives d q, passes_query_filter is_non_empty_query d q)))"
        )
    model = core.coq_eval(IMPORTS, exprs)
    stats = {"queries": len(cases), "guard_true": 0, "empty_on_wire": 0, "texts_compared": 0, "entry_dropped": 0, "theorem_instances": 0, "disagreements": 0}
    for (decl, q), (m_guard, m_json, m_count, m_wire, (m_valid, m_wvalid, m_dropped), (m_surv, m_pass)) in zip(cases, model):
        inp = {"declared": {k: list(v) for k, v in decl.items()}, "query": q}
        containers = any(isinstance(v, (list, dict)) for v in q.values())
        chk.seen({"query_wire": inp}, containers)
        bad = stats["disagreements"]
        i_guard = bool(is_non_empty_query(copy.deepcopy(q)))
        if i_guard != m_guard:
            chk.disagree("is_non_empty_query vs Model_C02.is_non_empty_query", inp, i_guard, m_guard)
            stats["disagreements"] += 1
        i_json = jsonify_python_specific_types(copy.deepcopy(q))
        m_json_py = {pstr(k): pjson(v) for k, v in m_json}
        if i_json != m_json_py or [type(v) for v in i_json.values()] != [type(v) for v in m_json_py.values()]:
            chk.disagree("jsonify_python_specific_types vs Model_C02.jsonify_query", inp, i_json, m_json_py)
            stats["disagreements"] += 1
        pairs = prepared_query_pairs(copy.deepcopy(i_json))
        if len(pairs) != m_count:
            chk.disagree("number of key=value pairs of the prepared request URL vs Model_C02.wire_count", inp, pairs, m_count)
            stats["disagreements"] += 1
        m_pairs = popt(m_wire)
        if m_pairs is not None:
            stats["texts_compared"] += 1
            m_pairs = [(pstr(k), pstr(t)) for k, t in m_pairs]
            if m_pairs != pairs:
                chk.disagree("prepared request URL (serialize_case + requests) vs Model_C02.query_wire", inp, pairs, m_pairs)
                stats["disagreements"] += 1
            ours = wire_valid_pairs(decl, pairs)
            if popt(m_wvalid) != ours:
                chk.disagree("wire reading of the oracle vs Model_C02.wire_valid_query", inp, ours, popt(m_wvalid))
                stats["disagreements"] += 1
        i_valid = jsonschema.Draft4Validator(qdecl_location_schema(decl)).is_valid(q)
        if i_valid != m_valid:
            chk.disagree("python-jsonschema on the location schema vs Model_C02.valid_query", inp, i_valid, m_valid)
            stats["disagreements"] += 1
        i_dropped = any(k not in [p[0] for p in pairs] for k in q)
        if i_dropped != m_dropped:
            chk.disagree("entry without any pair in the prepared URL vs Model_C02.entry_dropped", inp, i_dropped, m_dropped)
            stats["disagreements"] += 1
        stats["guard_true"] += bool(i_guard)
        stats["empty_on_wire"] += not pairs
        stats["entry_dropped"] += bool(i_dropped)
        if stats["disagreements"] == bad and m_pass is True and m_surv is True and m_pairs is not None:
            # an instance of C02_negative_query_on_wire_partial, re-checked on the implementation
            stats["theorem_instances"] += 1
            if not pairs or wire_valid_pairs(decl, pairs):
                chk.disagree("C02_negative_query_on_wire_partial instance does not hold on the implementation", inp, pairs, "non-empty and invalid")
        if i_guard and not pairs:
            # the guard let a value through that is sent without any pair: what C02_query_guard_sound excludes
            chk.fail("is_non_empty_query accepts a query that is sent without any key=value pair", inp,
                     {"is_non_empty_query": True, "sent": "", "valid_for_location_schema": i_valid})
    stats.update(extracted_object_tie(chk, max(40, n // 4)))
    return stats


def extracted_object_tie(chk, n):
    """serialization.py extracted_object (through operation.get_parameter_serializer) and what is sent afterwards, against
    Model_C02.extracted_object / wire_count."""
    import schemathesis

    from schemathesis.specs.openapi._hypothesis import jsonify_python_specific_types

    rng = chk.rng
    name, schema, extra = wire_param(WIRE_OPERATIONS[EXPLODED_OPERATION][0])
    raw = {"openapi": "3.0.2", "info": {"title": "t", "version": "1"},
           "paths": {"/x": {"post": {"parameters": [{"name": name, "in": "query", "required": False, "schema": schema, **extra}], "responses": {"200": {"description": "ok"}}}}}}
    serialize = schemathesis.openapi.from_dict(raw)["/x"]["POST"].get_parameter_serializer("query")
    members = [{"x": [None]}, {"x": []}, {"x": 1}, {"x": None}, {}, {"x": [[]], "y": 2}, {"zz": 3, "x": "a"}, {"f": 1}, {"f": [None]}, 5, None, "", [], [None], [{"x": 1}], True]
    cases = [{"f": {"x": [None]}}, {"f": {"x": []}}, {"f": {}}, {"f": None}, {"zz": [None]}, {"f": {"x": 1}, "zz": []}, {"zz": 1, "f": {"zz": [None]}}, {"x": 2, "f": {"x": [None]}}]
    for _ in range(n):
        q = {}
        for _ in range(rng.choice([1, 1, 2, 3])):
            k = rng.choice(["f", "f", "x", "zz", ""])
            q[k] = copy.deepcopy(rng.choice(members)) if k == "f" or rng.random() < 0.3 else gen_qvalue(rng)
        cases.append(q)
    exprs = [f"(let q := extracted_object {cstr(name)} {c_jdict(q)} in (q, wire_count q, is_non_empty_query {c_jdict(q)}))" for q in cases]
    bad = 0
    hits = 0
    for q, (m_q, m_count, m_guard) in zip(cases, core.coq_eval(IMPORTS, exprs)):
        inp = {"exploded_object_parameter": name, "query": q}
        chk.seen({"extracted_object": q}, name in q)
        got = serialize(copy.deepcopy(q))
        mod = [(pstr(k), pjson(v)) for k, v in m_q]
        if list(got.items()) != mod:
            chk.disagree("serialization.extracted_object vs Model_C02.extracted_object", inp, list(got.items()), mod)
            bad += 1
            continue
        pairs = prepared_query_pairs(jsonify_python_specific_types(copy.deepcopy(got)))
        if len(pairs) != m_count:
            chk.disagree("pairs of the prepared URL after extracted_object vs Model_C02.wire_count", inp, pairs, m_count)
            bad += 1
        if m_guard is True and not pairs:
            hits += 1
            chk.fail("is_non_empty_query accepts a query that is sent without any key=value pair once the serializer has run", inp,
                     {"serialized": repr(got)[:200]}, region="guard_before_serializer")
    return {"extracted_object_queries": len(cases), "extracted_object_disagreements": bad, "guard_passed_but_nothing_sent_after_serializer": hits}


WIRE_OPERATIONS = [
    [("limit", {"type": "integer"})],
    [("limit", {"type": "integer"}), ("flag", {"type": "boolean"})],
    [("flag", {"type": "boolean"})],
    [("ids", {"type": "array", "items": {"type": "integer"}}), ("limit", {"type": "integer"})],
    [("limit", {"type": "integer", "minimum": 0}), ("sort", {"type": "string", "enum": ["asc", "desc"]})],
    # a declared object with explode true: the serializer extracted_object runs after the guard (finding F9)
    [("f", {"type": "object", "properties": {"x": {"type": "integer"}}, "additionalProperties": False}, {"style": "form", "explode": True})],
]
EXPLODED_OPERATION = 5


def wire_param(p):
    """(name, schema, extra fields of the parameter object)"""
    return (p[0], p[1], p[2] if len(p) > 2 else {})


def wire_pool(params):
    """Values a mutated location schema may produce (legality is decided per mutated schema): lists of None, nested empties,
    mixed, alone and next to valid values and undeclared names."""
    good = {"integer": 5, "boolean": True, "array": [1, 2], "string": "asc", "object": {"x": 1}}
    params = [wire_param(p)[:2] for p in params]
    names = [n for n, _ in params]
    pool = []
    for n in names:
        for v in ([None], [None, None], [], [[]], [[], None], {}, None, [None, 1], [None, "a"], {"a": None}, [None, [], None], [[None]]):
            pool.append({n: v})
    if len(names) > 1:
        a, b = names[0], names[1]
        pool += [{a: [None], b: [None]}, {a: [], b: [None, None]}, {a: [None], b: [[]]}, {b: [None], a: good[dict(params)[a]["type"]]}]
    first = names[0]
    ok = good[dict(params)[first]["type"]]
    if dict(params)[first]["type"] == "object":
        pool += [{first: {"x": [None]}}, {first: {"x": []}}, {first: {"x": [[]]}}, {first: {"x": None}}, {first: {"x": 1, "y": []}}, {first: {"y": [None]}}]
    pool += [{"zz": [None]}, {"zz": []}, {first: ok, "zz": []}, {first: ok, "zz": [None]}, {"zz": [None], "yy": []}, {first: ok, "zz": [[]]}, {first: [None], "zz": [None]}]
    return pool


def run_wire_operation(params, modes, seed_value, n, biased, rec):
    """Negative cases of an operation whose only input is an all-optional query, sent over the real transport to the loopback
    server; yields (case, raw query string received).  biased: from_schema of the negative strategy also offers the pool values
    that are valid for the mutated schema it was called with (legal draws of from_schema, made frequent)."""
    import jsonschema
    import schemathesis
    import schemathesis.specs.openapi.negative as N
    from hypothesis import HealthCheck, Phase, given, seed, settings
    from hypothesis import strategies as st
    from hypothesis.errors import Unsatisfiable

    from schemathesis.generation import GenerationConfig, GenerationMode

    GM = {"Pos": GenerationMode.POSITIVE, "Neg": GenerationMode.NEGATIVE}
    raw = {"openapi": "3.0.2", "info": {"title": "t", "version": "1"},
           "paths": {"/x": {"post": {"parameters": [{"name": nm, "in": "query", "required": False, "schema": copy.deepcopy(s), **extra} for nm, s, extra in map(wire_param, params)],
                                     "responses": {"200": {"description": "ok"}}}}}}
    operation = schemathesis.openapi.from_dict(raw)["/x"]["POST"]
    strategy = operation.as_strategy(generation_mode=GM["Neg"], generation_config=GenerationConfig(modes=[GM[m] for m in modes]))
    pool = wire_pool(params)
    orig = N.from_schema

    def from_schema_biased(schema, **kw):
        real = orig(schema, **kw)
        try:
            validator = jsonschema.Draft4Validator(schema)
            legal = [v for v in pool if validator.is_valid(v)]
        except Exception:  # noqa: BLE001
            legal = []
        if not legal:
            return real
        return st.one_of(real, st.sampled_from(legal).map(copy.deepcopy))

    out = []
    session = None
    if rec is not None:
        import requests

        session = requests.Session()

    @seed(seed_value)
    @settings(max_examples=n, database=None, derandomize=False, deadline=None, suppress_health_check=list(HealthCheck), phases=[Phase.generate])
    @given(strategy)
    def collect(case):
        if rec is None:  # no network: the URL of the prepared request
            import requests

            kw = case.as_transport_kwargs(base_url="http://127.0.0.1:9")
            url = requests.Request(method=kw["method"], url=kw["url"], params=kw["params"]).prepare().url
            out.append((case, "/" + url.split("/", 3)[3]))
            return
        rec.take()
        case.call(base_url=rec.url, session=session)
        got = rec.take()
        target = got[0]["target"] if got else None
        out.append((case, target))

    if biased:
        N.from_schema = from_schema_biased
    try:
        collect()
    except Unsatisfiable:
        pass
    finally:
        N.from_schema = orig
        if session is not None:
            session.close()
    return out


def oracle_wire_case(chk, params, modes, biased, case, target, stats):
    exploded = any(extra.get("explode") and s["type"] == "object" for _, s, extra in map(wire_param, params))
    flat = []  # the names a server reads: the members of an exploded object stand for the object
    for n, s, extra in map(wire_param, params):
        if s["type"] == "object" and extra.get("explode"):
            flat += list(s["properties"].items())
        else:
            flat.append((n, s))
    params_full, params = params, flat
    decl = {n: ((s.get("items", {}).get("type", "string") if s["type"] == "array" else s["type"]), False) for n, s in params}
    arrays = [n for n, s in params if s["type"] == "array"]
    comps = {k.value: v.mode.name for k, v in case.meta.components.items()}
    query = case.query
    inp = {"wire_op": [list(p) for p in params_full], "modes": modes, "biased_draws": biased, "query": json.loads(json.dumps(query, default=repr)), "labels": comps}
    stats["cases"] += 1
    chk.seen({"wire_case": [inp["wire_op"], inp["query"]]}, isinstance(query, dict) and any(isinstance(v, (list, dict)) for v in query.values()))
    if target is None:
        return
    if case.meta.generation.mode.name != "NEGATIVE" or comps.get("query") != "NEGATIVE":
        chk.fail("negative-mode case of a query-only operation without the labels (case: negative, query: negative)", inp, comps)
        return
    qs = target.partition("?")[2]
    pairs = decode_query_string(qs)
    ok = wire_valid_pairs(decl, pairs, arrays)
    for n, s in params:  # the remaining keywords of the declared schemas, read from the text
        for k, text in pairs:
            if ok and k == n and "enum" in s and text not in s["enum"]:
                ok = False
            if ok and k == n and "minimum" in s and INT_RE.match(text) and int(text) < s["minimum"]:
                ok = False
    if not ok:
        stats["invalid_on_the_wire"] += 1
        return
    detail = {"received": target, "case.query": repr(query)[:200]}
    if not pairs:
        stats["sent_without_query"] += 1
        chk.fail("case labelled negative (query: negative, the only part) is sent WITHOUT any query string: the API receives the plain valid request", inp, detail,
                 region="guard_before_serializer" if exploded else None)
    elif isinstance(query, dict) and any(k not in [p[0] for p in pairs] for k in query):
        stats["valid_after_dropped_entry"] += 1
        chk.fail("case labelled negative: the offending query entry sends nothing, the received query is valid for the declared schema", inp, detail,
                 region="negated_entry_dropped_on_wire")
    else:
        stats["valid_as_text"] += 1
        chk.fail("negative case is valid once values are turned into text", inp, detail, region="coercion_gap")


def stage_query_on_wire(chk, n_natural, n_biased):
    from harness.loopback import Recorder

    rng = chk.rng
    stats = {"operations": 0, "cases": 0, "invalid_on_the_wire": 0, "sent_without_query": 0, "valid_after_dropped_entry": 0, "valid_as_text": 0}
    rec = Recorder()
    rec.server.RequestHandlerClass.disable_nagle_algorithm = True  # header and body are written separately: 40 ms per request otherwise
    try:
        for i, params in enumerate(WIRE_OPERATIONS):
            for biased, n in ((False, n_natural if i == 0 else n_natural // 4), (True, n_biased)):
                modes = ["Neg"] if (i + biased) % 2 == 0 else ["Pos", "Neg"]
                stats["operations"] += 1
                for case, target in run_wire_operation(params, modes, rng.getrandbits(32), n, biased, rec):
                    oracle_wire_case(chk, params, modes, biased, case, target, stats)
    finally:
        rec.close()
    return stats


# ----------------------------------------------------------------------------------------
# Part F: the validator behind the guard of negative_schema reads the declared schema as Draft 4 (BOOLEAN exclusive bounds)
# ----------------------------------------------------------------------------------------
EXCL = [None, True, False]


def gen_bool_exclusive_schema(rng, has_min, has_max, exmin, exmax, wellformed=False):
    """A numeric schema in the Draft 4 / OpenAPI 2.0-3.0 form: minimum / maximum with boolean exclusive flags, keys in random order."""
    entries = []
    t = rng.choice(["number", "number", "integer"] if wellformed else ["number", "number", "integer", "integer", None, ["number", "null"]])
    if t is not None:
        entries.append(("type", t))
    lo = rng.choice([-5, -1, 0, 0, 0, 1, 2, 10])
    hi = rng.choice([0, 1, 2, 5, 10, 50, 100, 100])
    if wellformed and has_min and has_max and hi <= lo + 1:
        hi = lo + rng.choice([3, 10, 100])
    if has_min:
        entries.append(("minimum", lo))
    if has_max:
        entries.append(("maximum", hi))
    if exmin is not None:
        entries.append(("exclusiveMinimum", exmin))
    if exmax is not None:
        entries.append(("exclusiveMaximum", exmax))
    if rng.random() < 0.2:
        entries.append((rng.choice(["description", "title"]), "d"))
    rng.shuffle(entries)
    return dict(entries)


def guard_values(schema):
    vals = [-1, 0, 1, 2, None, True, False, "", "a", [], {}, 10**20]
    for k in ("minimum", "maximum"):
        if k in schema:
            vals += [schema[k] - 1, schema[k], schema[k] + 1]
    out = []
    for v in vals:
        if not any(type(v) is type(w) and v == w for w in out):
            out.append(v)
    return out


def capture_guard(schema, location, tag):
    """The filter_values closure negative_schema hands to from_schema(mutated).filter(...), captured by a stub from_schema."""
    import schemathesis.specs.openapi.negative as N
    from hypothesis import HealthCheck, Phase, given, seed, settings
    from hypothesis import strategies as st
    from hypothesis.errors import Unsatisfiable

    from schemathesis.generation import GenerationConfig

    captured = []

    class Stub:
        def filter(self, f):
            captured.append(f)
            return st.just(None)

    orig = N.from_schema
    N.from_schema = lambda s, **kw: Stub()
    try:
        strategy = N.negative_schema(copy.deepcopy(schema), tag, location, "application/json" if location == "body" else None, GenerationConfig(), custom_formats={})

        @seed(0)
        @settings(max_examples=1, database=None, derandomize=False, deadline=None, suppress_health_check=list(HealthCheck), phases=[Phase.generate])
        @given(strategy)
        def once(_):
            pass

        try:
            once()
        except Unsatisfiable:
            pass
        except Exception:  # noqa: BLE001  the mutation code refuses the schema (a flag without its bound): only get_validator is tied
            pass
    finally:
        N.from_schema = orig
    return captured[0] if captured else None


def stage_guard_validator(chk, rounds):
    """Correspondence: the real guard (get_validator and the filter inside negative_schema) against Model_C02.guard_is_valid Draft4 /
    location_guard_keeps Draft4, and an independent Draft4Validator on the declared schema against Model_C02.declared_valid, on
    numeric schemas with every combination of minimum / maximum / boolean exclusives, values around the bounds and around 0 / 1."""
    import jsonschema

    from schemathesis.specs.openapi.negative import CacheKey, get_validator, is_non_empty_query

    rng = chk.rng
    schemas = [
        {"type": "number", "maximum": 100, "exclusiveMaximum": False},
        {"type": "number", "minimum": 0, "exclusiveMinimum": False, "maximum": 100, "exclusiveMaximum": False},
        {"type": "number", "minimum": 0, "exclusiveMinimum": True, "maximum": 10},
        {"type": "integer", "minimum": 0, "exclusiveMinimum": False, "maximum": 50, "exclusiveMaximum": False},
        {"type": "integer", "minimum": 1, "exclusiveMinimum": True},
        {"exclusiveMaximum": True, "maximum": 5},
        {"type": "integer", "exclusiveMinimum": True},
    ]
    for _ in range(rounds):
        for has_min in (False, True):
            for has_max in (False, True):
                for exmin in EXCL:
                    for exmax in EXCL:
                        schemas.append(gen_bool_exclusive_schema(rng, has_min, has_max, exmin, exmax))
    nonce = f"verif-guard-{os.getpid()}-{rng.getrandbits(32)}"
    cases = []
    exprs = []
    for i, s in enumerate(schemas):
        vals = guard_values(s)
        required = rng.random() < 0.5
        queries = [{"limit": v} for v in vals if v is not None and not isinstance(v, (list, dict))] + [{}, {"zz": 1}, {"limit": 1, "zz": 1}]
        cases.append((s, vals, required, queries))
        req = clist([cstr("limit")] if required else [], "str")
        exprs.append(
            f"(let s := {c_jdict(s)} in let props := [({cstr('limit')}, s)] in (num_fragment s, "
            f"map (fun v => (guard_is_valid Draft4 s v, declared_valid s v, guard_is_valid Draft7 s v)) {clist([cjson(v) for v in vals], 'json')}, "
            f"map (fun q => (location_guard_keeps Draft4 props {req} q, location_is_valid declared_valid props {req} q)) "
            f"{clist([c_jdict(q) for q in queries], '(list (str * json))')}))"
        )
    model = core.coq_eval(IMPORTS, exprs)
    cap = {"disagree": 0, "fail": 0}

    def disagree(*a):  # a different validator class disagrees on hundreds of inputs: the first ones are enough
        cap["disagree"] += 1
        if cap["disagree"] <= 12:
            chk.disagree(*a)

    def fail(*a):
        cap["fail"] += 1
        if cap["fail"] <= 12:
            chk.fail(*a)

    stats = {"schemas": len(schemas), "values": 0, "queries": 0, "draft_sensitive_values": 0, "kept_by_guard": 0, "filters_captured": 0, "disagreements": 0}
    for i, ((s, vals, required, queries), (m_frag, m_vals, m_qs)) in enumerate(zip(cases, model)):
        if m_frag is not True:
            disagree("generated schema outside Model_C02.num_fragment", {"guard_schema": s}, "in the fragment", m_frag)
            continue
        reference = jsonschema.Draft4Validator(copy.deepcopy(s))
        validator = get_validator(CacheKey(f"{nonce}-{i}", "body", copy.deepcopy(s)))
        body_filter = capture_guard(s, "body", f"{nonce}-b{i}")
        lschema = {"type": "object", "properties": {"limit": copy.deepcopy(s)}, "required": ["limit"] if required else [], "additionalProperties": False}
        if not required:
            del lschema["required"]
        lreference = jsonschema.Draft4Validator(copy.deepcopy(lschema))
        query_filter = capture_guard(lschema, "query", f"{nonce}-q{i}")
        stats["filters_captured"] += (body_filter is not None) + (query_filter is not None)
        for v, (m_guard, m_decl, m_d7) in zip(vals + [0.5, 1.0, 99.5], list(m_vals) + [(None, None, None)] * 3):
            inp = {"guard_schema": s, "value": v}
            stats["values"] += 1
            chk.seen({"guard": [list(s.items()), repr(v)]}, m_guard is not None and m_guard != m_d7)
            stats["draft_sensitive_values"] += m_guard is not None and m_guard != m_d7
            i_guard = bool(validator.is_valid(v))
            i_ref = bool(reference.is_valid(v))
            if m_guard is not None and i_guard != m_guard:
                disagree("get_validator(...).is_valid vs Model_C02.guard_is_valid Draft4", inp, i_guard, m_guard)
                stats["disagreements"] += 1
            if m_decl is not None and i_ref != m_decl:
                disagree("independent jsonschema.Draft4Validator on the declared schema vs Model_C02.declared_valid", inp, i_ref, m_decl)
                stats["disagreements"] += 1
            kept = [not i_guard]
            if body_filter is not None:
                i_keep = bool(body_filter(v))
                kept.append(i_keep)
                if m_guard is not None and i_keep != (not m_guard):
                    disagree("filter of negative_schema (location body) vs Model_C02.guard_keeps Draft4", inp, i_keep, not m_guard)
                    stats["disagreements"] += 1
            stats["kept_by_guard"] += any(kept)
            if any(kept) and i_ref:
                # what C02_guard_kept_value_invalid excludes: the guard lets a value through that is valid for the declared schema
                fail("the guard of negative_schema keeps (emits as negative data) a value that is VALID for the declared schema under Draft 4", inp,
                         {"get_validator.is_valid": i_guard, "filter_values": kept[1:] or None, "independent Draft4Validator.is_valid": i_ref,
                          "validator class": type(validator).__name__})
        for q, (m_keep, m_lvalid) in zip(queries, m_qs):
            inp = {"guard_location_schema": lschema, "query": q}
            stats["queries"] += 1
            i_lref = bool(lreference.is_valid(q))
            if i_lref != m_lvalid:
                disagree("independent Draft4Validator on the declared location schema vs Model_C02.location_is_valid declared_valid", inp, i_lref, m_lvalid)
                stats["disagreements"] += 1
            if query_filter is None:
                continue
            i_keep = bool(query_filter(copy.deepcopy(q)))
            expected = bool(is_non_empty_query(copy.deepcopy(q))) and m_keep
            if i_keep != expected:
                disagree("filter of negative_schema (location query) vs is_non_empty_query and Model_C02.location_guard_keeps Draft4", inp, i_keep, expected)
                stats["disagreements"] += 1
            if i_keep and i_lref:
                fail("the guard of negative_schema keeps (emits as negative data) a query that is VALID for the declared location schema under Draft 4", inp,
                         {"filter_values": True, "independent Draft4Validator.is_valid": True})
    stats["valid_values_kept_by_guard"] = cap["fail"]
    return stats


GUARD_OP_KINDS = ["body", "body_object", "query_required", "query_optional", "body_and_query", "v2_body", "v2_query"]


def gen_guard_operation(rng, kind):
    """An operation whose body / query is a numeric schema with boolean exclusive bounds (well-formed: a flag only next to its bound)."""
    def num():
        has_min, has_max = rng.choice([(True, True), (True, True), (True, False), (False, True)])
        exmin = rng.choice([True, False, False, None]) if has_min else None
        exmax = rng.choice([True, False, False, None]) if has_max else None
        if exmin is None and exmax is None:
            if has_max:
                exmax = False
            else:
                exmin = rng.choice([True, False])
        return gen_bool_exclusive_schema(rng, has_min, has_max, exmin, exmax, wellformed=True)

    op = {"kind": kind, "body": None, "query": None, "required": True, "version": 2 if kind.startswith("v2") else 3}
    if kind in ("body", "v2_body", "body_and_query"):
        op["body"] = num()
    if kind == "body_object":
        op["body"] = {"type": "object", "properties": {"percent": num()}, "required": ["percent"], "additionalProperties": False}
    if kind in ("query_required", "query_optional", "body_and_query", "v2_query"):
        op["query"] = num()
        op["required"] = kind != "query_optional"
    return op


def guard_document(op):
    if op["version"] == 2:
        params = []
        if op["query"] is not None:
            params.append({"name": "limit", "in": "query", "required": op["required"], **copy.deepcopy(op["query"])})
        if op["body"] is not None:
            params.append({"name": "payload", "in": "body", "required": True, "schema": copy.deepcopy(op["body"])})
        return {"swagger": "2.0", "info": {"title": "t", "version": "1"}, "consumes": ["application/json"],
                "paths": {"/x": {"post": {"parameters": params, "responses": {"200": {"description": "ok"}}}}}}
    operation = {"responses": {"200": {"description": "ok"}}}
    if op["query"] is not None:
        operation["parameters"] = [{"name": "limit", "in": "query", "required": op["required"], "schema": copy.deepcopy(op["query"])}]
    if op["body"] is not None:
        operation["requestBody"] = {"required": True, "content": {"application/json": {"schema": copy.deepcopy(op["body"])}}}
    return {"openapi": "3.0.2", "info": {"title": "t", "version": "1"}, "paths": {"/x": {"post": operation}}}


def run_guard_operation(op, modes, seed_value, n):
    import schemathesis
    from hypothesis import HealthCheck, Phase, given, seed, settings
    from hypothesis.errors import Unsatisfiable

    from schemathesis.generation import GenerationConfig, GenerationMode

    GM = {"Pos": GenerationMode.POSITIVE, "Neg": GenerationMode.NEGATIVE}
    operation = schemathesis.openapi.from_dict(guard_document(op))["/x"]["POST"]
    strategy = operation.as_strategy(generation_mode=GM["Neg"], generation_config=GenerationConfig(modes=[GM[m] for m in modes]))
    out = []

    @seed(seed_value)
    @settings(max_examples=n, database=None, derandomize=False, deadline=None, suppress_health_check=list(HealthCheck), phases=[Phase.generate])
    @given(strategy)
    def collect(case):
        out.append(case)

    try:
        collect()
    except Unsatisfiable:
        pass
    return out


def oracle_guard_case(chk, op, modes, case, stats):
    """Every part of the case against an independent Draft4Validator built from the schema as declared in the document."""
    import jsonschema

    from schemathesis.core import NOT_SET

    comps = {k.value: v.mode.name for k, v in case.meta.components.items()}
    declared = {}
    if op["body"] is not None:
        declared["body"] = op["body"]
    if op["query"] is not None:
        declared["query"] = {"type": "object", "properties": {"limit": op["query"]}, "additionalProperties": False, **({"required": ["limit"]} if op["required"] else {})}
    stats["cases"] += 1
    base = {"guard_op": op, "modes": modes, "labels": comps}
    if case.meta.generation.mode.name != "NEGATIVE":
        chk.fail("case from the negative strategy is not labelled negative", base, case.meta.generation.mode.name)
        return
    present_negative = 0
    for part, schema in declared.items():
        value = getattr(case, part)
        if part not in comps or value is NOT_SET or (part != "body" and value is None):
            continue
        printable = json.loads(json.dumps(value, default=repr))
        chk.seen({"guard_case": [op, part, printable]}, True)
        valid = jsonschema.Draft4Validator(copy.deepcopy(schema)).is_valid(value)
        inp = dict(base, part=part, value=printable)
        if comps[part] == "NEGATIVE":
            present_negative += 1
            if valid:
                stats["negative_but_valid"] += 1
                chk.fail(f"case labelled negative: its {part}, labelled negative, is VALID for the declared schema (independent Draft 4 validator, boolean exclusive bounds)", inp,
                         {"declared": schema, part: repr(value)[:200], "case.meta.generation.mode": "NEGATIVE"})
            else:
                stats["negative_invalid"] += 1
        elif not valid:
            stats["positive_but_invalid"] += 1
            chk.fail(f"{part} labelled positive is INVALID for the declared schema (independent Draft 4 validator, boolean exclusive bounds)", inp,
                     {"declared": schema, part: repr(value)[:200]})
    if not present_negative:
        chk.fail("negative case without any present part labelled negative", base, repr(case)[:300])


def stage_guard_draws(chk, n_ops, n_examples):
    rng = chk.rng
    stats = {"operations": 0, "cases": 0, "negative_invalid": 0, "negative_but_valid": 0, "positive_but_invalid": 0}
    ops = [
        {"kind": "body", "version": 3, "query": None, "required": True, "body": {"type": "number", "minimum": 0, "exclusiveMinimum": False, "maximum": 100, "exclusiveMaximum": False}},
        {"kind": "query_required", "version": 3, "body": None, "required": True, "query": {"type": "integer", "minimum": 0, "exclusiveMinimum": False, "maximum": 50, "exclusiveMaximum": False}},
    ]
    while len(ops) < n_ops:
        ops.append(gen_guard_operation(rng, GUARD_OP_KINDS[len(ops) % len(GUARD_OP_KINDS)]))
    for i, op in enumerate(ops):
        modes = ["Neg"] if i % 2 == 0 else ["Pos", "Neg"]
        stats["operations"] += 1
        for case in run_guard_operation(op, modes, rng.getrandbits(32), n_examples):
            oracle_guard_case(chk, op, modes, case, stats)
    return stats


def replay_guard_operation(op, modes, seeds=(0, 1, 2), n=150):
    chk = core.Check("C02", "quick", 0)
    stats = {"operations": 0, "cases": 0, "negative_invalid": 0, "negative_but_valid": 0, "positive_but_invalid": 0}
    for s in seeds:
        for case in run_guard_operation(op, modes, s, n):
            oracle_guard_case(chk, op, modes, case, stats)
    fails = [f for f in chk.failures if f.get("region") is None]
    return f"FAILS ({len(fails)} of {stats['cases']} cases): " + "; ".join(sorted({str(f['detail'])[:100] for f in fails}))[:400] if fails else f"passes ({stats['cases']} cases)"


# ----------------------------------------------------------------------------------------
def run(chk: core.Check):
    quick = chk.tier == "quick"
    chk.trusted = [
        "Coq 8.16.1 kernel, vm_compute (witness lemmas and model evaluation); no axioms",
        "hand-written model theories/C02/Model_C02.v (label algebra of openapi_cases, three schema mutations on a Draft-4 fragment, "
        "validity of the fragment, the keyword dispatch of the guard validator on numeric schemas with boolean exclusive bounds (Draft 4 and the later-draft sentinel), string coercion of scalars, the query on the wire: jsonify, empty-dict rewriting, the requests / urlencode loop incl. containers, the guard is_non_empty_query)",
        "correspondence harness harness/props/c02.py (shape generator, wrappers around get_parameters_strategy/_get_body_strategy/reject, "
        "scripted draw stub, encoders, the Coq output parser)",
        "python-jsonschema Draft4Validator as the reference for validity (also used by the implementation filter); the harness own format checks for date and ipv4; "
        "the harness reading header_verdict (a header / cookie can be violated iff a text of its pool is rejected by the declared schema read as the declared type)",
    ]
    chk.assumptions = [
        "Hypothesis: none() returns None, an object strategy returns a dict, x.filter(p) only returns values satisfying p (draws_fit is re-checked on every observed draw)",
        "hypothesis-jsonschema: from_schema(s) returns values valid for s; canonicalish(s) == {} is taken as an input fact (cantop / class PTop)",
        "parameter names of one location are unique; no hooks are registered on the operation",
        "header / cookie schemas: keys of a declared schema are unique (a Python dict); the quantifier rewriting of pattern + length and the conversion of nested sub-schemas "
        "are not modelled (they never change whether the converted schema equals {type: string}; checked per run by the header_class stage)",
        "validity of sub-schemas under properties/items is an arbitrary function in the soundness theorems (python-jsonschema in the run)",
        "query on the wire: requests RequestEncodingMixin._encode_params and urllib.parse.urlencode(doseq=True) are modelled by reading (tied per run to the URL of the prepared "
        "request); percent-encoding is undone by the server (unquote_plus); query parameters without a serializer (no declared object type, arrays with the default explode); "
        "Python repr of nested strings only for printable ASCII without quote and backslash; no floats; the biased draws of oracle E only offer values that python-jsonschema "
        "accepts for the mutated schema from_schema was called with (legal draws of hypothesis-jsonschema, made frequent)",
    ]
    chk.rule = (
        "A: operation shapes from one PRNG (VERIF_SEED): 0-3 parameters per location over a table of schemas (plain string / {} / integer / boolean / enum / bounded, and without a top-level type: enum-only, minimum-only, anyOf-only), OpenAPI 3.0 (75%) or Swagger 2.0, "
        "required flags, explicit argument none/{}/partial/full/foreign name/exactly the accept-anything parameters per location (explicit values valid for the declared schema; 15% of path/query locations pair a {} or annotations-only parameter with a typed one), merged explicit+generated parts validated against the declared location schema, body none or 1-2 media types (one possibly without serializer) over "
        "negatable and non-negatable schemas (40% without a top-level type: properties/required, items, enum, anyOf, allOf only; nullable), optional or required, explicit or not; every labelled part validated against the schema as declared in the document (harness own conversion); mode Neg with modes [Neg] or [Pos,Neg], mode Pos; non-trivial = an observation "
        "(case/skip/reject/raise with the drawn values) whose labels are not uniform.  B: schemas of the fragment (random key subsets and orders, type lists, "
        "empty required, empty-string and non-ASCII property names, chained not-inputs) x location x scripted choices; non-trivial = the mutation succeeds.  "
        "C: integers up to 70 bits, booleans, null, digit/word-like strings.  D: header / cookie parameters as declared (the table + random key subsets and orders over type, enum, pattern, "
        "lengths incl. 0, formats, example(s), dropped annotations, vendor extensions, nullable, file, numeric keywords, parameter-level example(s); OpenAPI 3.0 and Swagger 2.0): converted schema and "
        "can_negate_headers against Model_C02.header_prop_schema / header_class, the oracle reading against header_value_violable; non-trivial = claimed negatable.  "
        "A also runs, on every seed, one operation per constrained header schema (enum, pattern, minLength, maxLength, format, typed) x {header, cookie} whose only violable input is that "
        "parameter (alone / plain sibling / constrained sibling / other location / open body / accept-anything path / query), modes [Neg] and [Pos,Neg].  E: query dicts over declared (integer / boolean / string, optional or required) and undeclared names, values from scalars "
        "(None, booleans, integers up to 66 bits, digit / word-like / reserved-character / non-ASCII strings) and containers (lists of None, nested empty lists, None mixed with values, dicts with None / "
        "empty / nested values, random nesting to depth 2); non-trivial = a container value.  Oracle E: 5 query-only operations with all parameters optional (integer; integer + boolean; boolean; integer array + integer; "
        "bounded integer + string enum), modes [Neg] and [Pos,Neg], natural Hypothesis draws plus draws where from_schema also offers lists of None / empty / nested-empty values that are valid for the mutated schema; "
        "each case is sent with case.call to a loopback server and the raw query string it received is decoded and judged.  "
        "F: numeric schemas in the Draft 4 / OpenAPI 2.0-3.0 form: every combination of minimum / maximum present or not x exclusiveMinimum / exclusiveMaximum absent / true / false (a flag also without its bound), "
        "type number / integer / none / list, bounds around 0 and 1, keys in random order; values around each bound, around 0 / 1, non-numbers, floats (implementation side only); the real get_validator and the filter "
        "closure of negative_schema (body, and the query location schema) against Model_C02.guard_is_valid / location_guard_keeps Draft4, an independent Draft4Validator against declared_valid; non-trivial = Draft 4 and the "
        "later-draft reading differ.  Oracle F: 9 operations (body number, object body with a numeric property, required / optional query parameter, body + query, Swagger 2.0 body / query) with well-formed boolean exclusive bounds, "
        "modes [Neg] and [Pos,Neg]: every labelled part of every real negative draw against an independent Draft4Validator built from the document.  Distinct by canonical JSON"
    )
    chk.proofs(["Common", "C02"])
    boost = 10 if chk.broken else 1
    chk.stages["mutations"] = stage_mutations(chk, 1500 if quick else 12000)
    chk.stages["coercion"] = stage_coercion(chk, 200 if quick else 3000)
    chk.stages["header_class"] = stage_header_class(chk, 400 if quick else 4000)
    chk.stages["query_wire"] = stage_query_wire(chk, 500 if quick else 5000)
    chk.stages["guard_validator"] = stage_guard_validator(chk, 2 if quick else 25)
    boost = 10 if chk.broken else 1
    def guard_tie(b):
        return any(t in str(b.get("what", "")) for t in ("guard_is_valid", "guard_keeps", "declared_valid", "num_fragment"))

    guard_broken = any(guard_tie(b) for b in chk.broken)
    chk.stages["guard_draws"] = stage_guard_draws(chk, (9 if quick else 40) * (2 if guard_broken else 1), (40 if quick else 150) * (2 if guard_broken else 1))
    if guard_broken and chk.stages["guard_draws"]["negative_but_valid"] and all(guard_tie(b) for b in chk.broken):
        boost = 1  # only the guard tie is broken and concrete end-to-end failing inputs are in hand: no tenfold search in the other stages
    chk.stages["query_on_wire"] = stage_query_on_wire(chk, (160 if quick else 1200) * (3 if boost > 1 else 1), (25 if quick else 200) * (3 if boost > 1 else 1))
    chk.stages["labels"] = stage_labels(chk, (125 if quick else 850) * boost, 6 if quick else 10)
    for f in chk.findings:
        chk.known(f, witness_fails(f["witness"]))
    # end-to-end failing inputs (what the loopback server received) are listed before function-level ones
    chk.failures.sort(key=lambda f: 0 if isinstance(f.get("input"), dict) and ("wire_op" in f["input"] or "guard_op" in f["input"]) else 1)


# ----------------------------------------------------------------------------------------
# canonical witnesses of the listed findings, replayed on the implementation
# ----------------------------------------------------------------------------------------
def _shape(params=None, body=None, explicit=None):
    shape = {"params": {loc: [] for loc in LOCS}, "explicit": {loc: None for loc in LOCS}, "body": body, "body_explicit": False}
    shape["params"].update(params or {})
    shape["explicit"].update(explicit or {})
    return shape


def witness_fails(w) -> bool:
    from schemathesis.core import NOT_SET

    kind = w["kind"]
    with Observer() as obs:
        if kind == "absent_part":
            shape = _shape({"query": [{"name": "q", "schema_idx": 0, "required": False}]})
            events, final, _ = run_operation(obs, shape, "Neg", ["Neg"], 1, 3)
            cases = [e["case"] for e in events if e["kind"] == "case"]
            return any(
                c.path_parameters is None and any(k.value == "path_parameters" and v.mode.name == "NEGATIVE" for k, v in c.meta.components.items())
                for c in cases
            )
        if kind == "notset_body":
            shape = _shape(body={"required": False, "alts": [{"media": "application/json", "schema_idx": 2}]})
            events, final, _ = run_operation(obs, shape, "Neg", ["Neg"], 1, 40)
            cases = [e["case"] for e in events if e["kind"] == "case"]
            return any(
                c.body is NOT_SET and c.query is None and c.meta.generation.mode.name == "NEGATIVE"
                and any(k.value == "body" and v.mode.name == "NEGATIVE" for k, v in c.meta.components.items())
                for c in cases
            )
        if kind == "string_path":
            shape = _shape({"path": [{"name": "id", "schema_idx": 0, "required": True}]})
            events, final, _ = run_operation(obs, shape, "Neg", ["Neg"], 1, 3)
            return final == "unsat"
        if kind == "required_header":
            shape = _shape({"header": [{"name": "X-A", "schema_idx": 0, "required": True}]})
            events, final, _ = run_operation(obs, shape, "Neg", ["Neg"], 1, 3)
            return final == "skip"
        if kind == "annotated_header":
            # an optional string header whose schema carries only a kept annotation (example): alone, and next to a negatable query
            alone = _shape({"header": [{"name": "X-A", "schema_idx": ANNOTATED_HEADER, "required": False}]})
            _, final_alone, _ = run_operation(obs, alone, "Neg", ["Neg"], 1, 3)
            with_query = _shape({"header": [{"name": "X-A", "schema_idx": ANNOTATED_HEADER, "required": False}],
                                 "query": [{"name": "q", "schema_idx": 0, "required": True}]})
            events, final_query, _ = run_operation(obs, with_query, "Neg", ["Neg"], 1, 3)
            return final_alone == "unsat" and final_query == "unsat" and not any(e["kind"] == "case" for e in events)
        if kind == "explicit_empty":
            params = {"header": [{"name": "X-A", "schema_idx": 2, "required": True}]}
            _, final_explicit, _ = run_operation(obs, _shape(params, explicit={"header": {}}), "Neg", ["Neg"], 1, 40)
            events, final_plain, _ = run_operation(obs, _shape(params), "Neg", ["Neg"], 1, 10)
            return final_explicit == "skip" and final_plain == "ok" and any(e["kind"] == "case" for e in events)
    if kind == "coercion":
        return coercion_replay(w) is not None
    if kind == "dropped_entry":
        return dropped_entry_replay(w) is not None
    if kind == "exploded_object":
        return exploded_object_replay(w) is not None
    return False


def exploded_object_replay(w):
    """Replays the recorded Hypothesis seeds on an optional object query parameter with explode true: a case labelled negative
    (query: negative) whose prepared URL has no query string at all."""
    for sd in w.get("seeds", [0, 1, 2]):
        for case, target in run_wire_operation(WIRE_OPERATIONS[EXPLODED_OPERATION], ["Neg"], sd, w.get("examples", 150), False, None):
            comps = {k.value: v.mode.name for k, v in case.meta.components.items()}
            if "?" not in target.rstrip("?") and case.meta.generation.mode.name == "NEGATIVE" and comps.get("query") == "NEGATIVE" and case.query:
                return {"seed": sd, "query": repr(dict(case.query)), "labels": comps, "url": target}
    return None


def dropped_entry_replay(w):
    """Replays the recorded Hypothesis seeds on an optional integer query parameter: a case labelled negative whose only offending
    entry (an undeclared name with an empty list / a list of None) sends nothing; the prepared URL carries limit=<integer> alone."""
    params = WIRE_OPERATIONS[0]
    for sd in w.get("seeds", [11, 15, 27]):
        for case, target in run_wire_operation(params, ["Neg"], sd, w.get("examples", 60), False, None):
            pairs = decode_query_string(target.partition("?")[2])
            comps = {k.value: v.mode.name for k, v in case.meta.components.items()}
            q = case.query
            if (
                pairs and wire_valid_pairs({"limit": ("integer", False)}, pairs) and isinstance(q, dict) and any(k not in [p[0] for p in pairs] for k in q)
                and case.meta.generation.mode.name == "NEGATIVE" and comps.get("query") == "NEGATIVE"
            ):
                return {"seed": sd, "query": repr(dict(q)), "labels": comps, "url": target}
    return None


def coercion_replay(w):
    """Replays the recorded Hypothesis seeds: a negative case whose query is valid for the integer parameter once sent as text."""
    import requests

    shape = _shape({"query": [{"name": "q", "schema_idx": 0, "required": True}]})
    with Observer() as obs:
        for sd in w.get("seeds", [35, 55]):
            events, _, _ = run_operation(obs, shape, "Neg", ["Neg"], sd, w.get("examples", 60))
            for e in events:
                if e["kind"] != "case":
                    continue
                case = e["case"]
                q = case.query
                comps = {k.value: v.mode.name for k, v in case.meta.components.items()}
                if (
                    isinstance(q, dict) and set(q) == {"q"} and not isinstance(q["q"], (int, float))
                    and wire_valid_value({"type": "integer"}, q["q"])
                    and case.meta.generation.mode.name == "NEGATIVE" and comps.get("query") == "NEGATIVE"
                ):
                    url = requests.Request("GET", "http://127.0.0.1/x", params=dict(q)).prepare().url
                    return {"seed": sd, "query": dict(q), "labels": comps, "url": url}
    return None


def coercion_witness():
    """A negative case for an integer query parameter whose value is a string of digits: q=<digits> on the wire."""
    import schemathesis
    from hypothesis import HealthCheck, Phase, find, settings
    from hypothesis.errors import NoSuchExample

    from schemathesis.generation import GenerationConfig, GenerationMode

    shape = _shape({"query": [{"name": "q", "schema_idx": 0, "required": True}]})
    raw, path = build_document(shape)
    operation = schemathesis.openapi.from_dict(raw)[path]["POST"]
    strategy = operation.as_strategy(generation_mode=GenerationMode.NEGATIVE, generation_config=GenerationConfig(modes=[GenerationMode.NEGATIVE]))

    def wanted(case):
        q = case.query
        return isinstance(q, dict) and set(q) == {"q"} and not isinstance(q["q"], (int, float)) and wire_valid_value({"type": "integer"}, q["q"])

    try:
        case = find(
            strategy, wanted,
            settings=settings(max_examples=1500, database=None, deadline=None, suppress_health_check=list(HealthCheck), phases=[Phase.generate], derandomize=True),
        )
    except NoSuchExample:
        return None
    comps = {k.value: v.mode.name for k, v in case.meta.components.items()}
    if case.meta.generation.mode.name == "NEGATIVE" and comps.get("query") == "NEGATIVE":
        import requests

        url = requests.Request("GET", "http://127.0.0.1/x", params=dict(case.query)).prepare().url
        return {"query": dict(case.query), "labels": comps, "url": url}
    return None


def replay_shape(shape, mode="Neg", modes=("Neg",), seeds=(0, 1, 2, 3), n=20):
    """Re-runs one operation shape on the implementation through the case oracle; returns the failures found."""
    chk = core.Check("C02", "quick", 0)
    chk.findings = []  # every failing part is reported, listed region or not
    stats = {k: 0 for k in ("parts_checked", "absent_labelled_negative", "notset_body_labelled_negative", "wire_valid_negative_parts", "cases_valid_on_the_wire", "merged_valid_negative")}
    stats.update({k: 0 for k in ("skip_although_negatable", "rejected_although_negatable", "unsat_although_negatable", "unsat_instead_of_skip")})
    with Observer() as obs:
        for sd in seeds:
            events, final, _ = run_operation(obs, shape, mode, list(modes), sd, n)
            for ev in events:
                if ev["kind"] == "case" and mode == "Neg":
                    oracle_case(chk, shape, ev, mode, stats)
            oracle_operation(chk, shape, mode, list(modes), events, final, stats)
    resolve_merged(chk, stats)
    return chk.failures


def replay_wire_operation(params, modes, seeds=(0, 1, 2), n=120, n_biased=40):
    """Re-runs one query-only operation (natural and biased draws) over the loopback server; reports the cases labelled negative
    that arrived as a valid request."""
    from harness.loopback import Recorder

    chk = core.Check("C02", "quick", 0)
    chk.findings = []
    stats = {"operations": 0, "cases": 0, "invalid_on_the_wire": 0, "sent_without_query": 0, "valid_after_dropped_entry": 0, "valid_as_text": 0}
    rec = Recorder()
    rec.server.RequestHandlerClass.disable_nagle_algorithm = True
    try:
        for sd in seeds:
            for biased, k in ((False, n), (True, n_biased)):
                for case, target in run_wire_operation(params, list(modes), sd, k, biased, rec):
                    oracle_wire_case(chk, params, list(modes), biased, case, target, stats)
    finally:
        rec.close()
    kinds = sorted({f["what"].split(":")[0][:110] + " [" + str(f["region"]) + "] e.g. " + str((f["detail"] or {}).get("case.query")) for f in chk.failures if f["region"] is None})
    listed = {k: v for k, v in stats.items() if k in ("valid_after_dropped_entry", "valid_as_text", "sent_without_query") and v}
    return ("FAILS: " + "; ".join(kinds)[:700] if kinds else "passes") + f"  ({stats['cases']} cases, inside listed regions: {listed})"


def replay(payload) -> int:
    for b in payload.get("broken_obligations_or_correspondence", []):
        print("broken:", b.get("kind"), b.get("what"))
        print("  input         :", json.dumps(b.get("input"), default=str)[:800])
        print("  implementation:", str(b.get("implementation"))[:800])
        print("  model         :", str(b.get("model"))[:800])
    seen = set()
    for f in payload.get("failing_inputs", []):
        inp = f.get("input") or {}
        if isinstance(inp, dict) and "wire_op" in inp:
            key = json.dumps([inp["wire_op"], inp["modes"]], sort_keys=True)
            if key not in seen:
                seen.add(key)
                print("query-only operation", json.dumps(inp["wire_op"]), inp["modes"])
                print("  ->", replay_wire_operation([tuple(x) for x in inp["wire_op"]], inp["modes"]))
            continue
        if isinstance(inp, dict) and "guard_op" in inp:
            key = json.dumps([inp["guard_op"], inp["modes"]], sort_keys=True)
            if key not in seen:
                seen.add(key)
                print("operation with boolean exclusive bounds", json.dumps(inp["guard_op"]), inp["modes"])
                print("  ->", replay_guard_operation(inp["guard_op"], inp["modes"]))
            continue
        if isinstance(inp, dict) and "guard_schema" in inp:
            import jsonschema

            from schemathesis.specs.openapi.negative import CacheKey, get_validator

            sch, v = inp["guard_schema"], inp["value"]
            kept = not get_validator(CacheKey("verif-replay-" + json.dumps(sch, sort_keys=True), "body", sch)).is_valid(v)
            ok = jsonschema.Draft4Validator(sch).is_valid(v)
            print("guard", json.dumps(sch), "value", json.dumps(v), "-> kept", kept, "valid for the declared schema", ok, "->", "FAILS" if kept and ok else "passes")
            continue
        if isinstance(inp, dict) and "guard_location_schema" in inp:
            continue
        if isinstance(inp, dict) and "declared" in inp and "query" in inp:
            from schemathesis.specs.openapi._hypothesis import jsonify_python_specific_types
            from schemathesis.specs.openapi.negative import is_non_empty_query

            q = inp["query"]
            guard = bool(is_non_empty_query(copy.deepcopy(q)))
            pairs = prepared_query_pairs(jsonify_python_specific_types(copy.deepcopy(q)))
            print("query", json.dumps(q), "-> is_non_empty_query", guard, "sent", pairs, "->", "FAILS" if guard and not pairs else "passes")
            continue
        shape = (f.get("input") or {}).get("shape")
        key = json.dumps([shape, (f.get("input") or {}).get("modes")], sort_keys=True)
        if shape is None or key in seen:
            continue
        seen.add(key)
        inp = f.get("input") or {}
        fails = [x for x in replay_shape(shape, inp.get("mode", "Neg"), inp.get("modes") or ("Neg",)) if x["region"] is None or x["region"] == f.get("region")]
        print("shape", json.dumps(shape)[:600])
        print("  ->", "FAILS: " + "; ".join(sorted({x["what"] + " " + str(x["detail"])[:120] for x in fails}))[:600] if fails else "passes")
    return 0
