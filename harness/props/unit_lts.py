"""Shared machinery for C05 / C11 / C12: the real unit phase under forced schedules vs the Coq LTS
(Model_C11), behaviour discovery, the reference automaton for event streams."""
from __future__ import annotations

import json

from harness import core
from harness.core import cbool, clist, cnat, copt
from harness.engine_util import default_responder, event_kind, run_engine
from harness.sched import run_forced

IMPORTS = ["C11.Model_C11"]

CODE = {"w_loop": 1, "w_fetch": 2, "w_put": 3, "w_check": 4, "w_send": 5, "dead": 6,
        "c_get": 10, "c_post": 11, "c_alive": 12, "c_done": 13, "c_empty": 14, "stop": 0}


def schema_with_ops(n_ops: int) -> dict:
    paths = {}
    for i in range(n_ops):
        paths[f"/r{i}/{{id}}"] = {
            "get": {
                "operationId": f"op{i}",
                "parameters": [{"name": "id", "in": "path", "required": True, "schema": {"type": "integer", "minimum": 1, "maximum": 1000000}}],
                "responses": {"200": {"description": "ok"}},
            }
        }
    return {"openapi": "3.0.2", "info": {"title": "t", "version": "1"}, "paths": paths}


def op_index(label: str | None) -> int | None:
    if not label:
        return None
    try:
        return int(label.split("/r")[1].split("/")[0])
    except (IndexError, ValueError):
        return None


def make_responder(kinds: list[str]):
    """kinds[i] in {'ok', 'fail'}: 'fail' answers 500 (the default not_a_server_error check fails)."""

    def responder(item):
        i = op_index(item["target"])
        if i is not None and i < len(kinds) and kinds[i] == "fail":
            return 500, [("Content-Type", "application/json")], b"{}"
        return 200, [("Content-Type", "application/json")], b"{}"

    return responder


def make_fault(kinds: list[str]):
    """'build': create_test raises for that operation; 'err': the test body raises after the response arrived."""
    from schemathesis.core.errors import InvalidSchema

    def fault(name, ctx, n):
        if name == "create_test":
            i = op_index(ctx["operation"].label)
            if i is not None and kinds[i] == "build":
                return InvalidSchema("injected")
        if name == "validate":
            i = op_index(ctx["case"].operation.label)
            if i is not None and kinds[i] == "err":
                return RuntimeError("injected")
        return None

    return fault


def abstract_events(evs) -> list:
    """Real engine events of one unit phase -> model events (ints are operation indices)."""
    out = []
    for e in evs:
        k = event_kind(e)
        if k == "ScenarioStarted":
            out.append(("ScStart", op_index(e.label)))
        elif k == "NonFatalError":
            item = ("NonFatal", op_index(e.label))
            if not out or out[-1] != item:  # several de-duplicated errors of one scenario count once
                out.append(item)
        elif k == "ScenarioFinished":
            out.append(("ScFinish", op_index(e.label), e.status.name))
        elif k == "Interrupted":
            out.append("Interrupt")
    return out


def abstract_model_trace(t) -> list:
    out = []
    for e in t:
        if e == "Interrupt":
            out.append("Interrupt")
        elif e[0] == "ScStart":
            out.append(("ScStart", e[1]))
        elif e[0] == "NonFatal":
            item = ("NonFatal", e[1])
            if not out or out[-1] != item:
                out.append(item)
        elif e[0] == "ScFinish":
            out.append(("ScFinish", e[1], e[2]))
    return out


_DISCOVERY: dict = {}


def discover(kinds: tuple, max_examples: int, cof: bool, phase: str = "fuzzing") -> list[dict]:
    """How many times the test function of each operation is entered in an undisturbed run (Hypothesis decides:
    generation, shrinking, final replay), measured on the real engine with one worker.  Deterministic for a seed."""
    key = (kinds, max_examples, cof, phase)
    if key in _DISCOVERY:
        return _DISCOVERY[key]
    from schemathesis.core import _verif

    counts = [0] * len(kinds)

    class Counter:
        def point(self, name, ctx):
            if name == "w_send":
                i = op_index(ctx["case"].operation.label)
                if i is not None:
                    counts[i] += 1
            f = make_fault(list(kinds))(name, ctx, 0)
            if f is not None:
                raise f

    _verif.set_controller(Counter())
    try:
        evs, _ = run_engine(schema_with_ops(len(kinds)), make_responder(list(kinds)), phases=[phase], workers=1,
                            max_examples=max_examples, continue_on_failure=cof, seed=1)
    finally:
        _verif.set_controller(None)
    finals = {op_index(e.label): e.status.name for e in evs if event_kind(e) == "ScenarioFinished"}
    ops = []
    for i, kind in enumerate(kinds):
        n = counts[i]
        if kind == "build":
            ops.append({"id": i, "build_err": True, "cases": [], "end_skip": False})
        elif kind == "ok":
            ops.append({"id": i, "build_err": False, "cases": ["CaseOk"] * n, "end_skip": finals.get(i) == "SKIP"})
        elif kind == "fail":
            cases = ["CaseFail"] * n if cof else ["CaseOk"] * (n - 1) + ["CaseFail"]
            ops.append({"id": i, "build_err": False, "cases": cases, "end_skip": False})
        elif kind == "err":
            ops.append({"id": i, "build_err": False, "cases": ["CaseOk"] * (n - 1) + ["CaseErr"], "end_skip": False})
        ops[-1]["discovered_final"] = finals.get(i)
    _DISCOVERY[key] = ops
    return ops


def c_op(o) -> str:
    return "{| op_id := %s; build_err := %s; cases := %s; end_skip := %s |}" % (
        cnat(o["id"]), cbool(o["build_err"]), clist(o["cases"], "case_out"), cbool(o["end_skip"]))


def c_cfg(maxf, cof, drain_fix=True) -> str:
    return "{| maxf := %s; cof := %s; drain_fix := %s |}" % (copt(None if maxf is None else cnat(maxf), "nat"), cbool(cof), cbool(drain_fix))


def c_label(lab: str) -> str:
    if lab == "C":
        return "C"
    if lab == "Stop":
        return "Stop"
    return f"(W {cnat(int(lab[1:]))})"


def model_expr(sc) -> str:
    """sc: dict(workers, maxf, cof, ops, schedule). Value: (log, trace, cp code, #sent, sends_after_stop, final status, stop, limit)."""
    init = f"(init {cnat(sc['workers'])} {clist([c_op(o) for o in sc['ops']], 'opb')})"
    cfg = c_cfg(sc["maxf"], sc["cof"])
    sched = clist([c_label(x) for x in sc["schedule"]], "label")
    return (f"(let '(log, s) := run_log {cfg} {sched} {init} in "
            f"(log, trace s, ccode (cp s), length (sent s), sends_after_stop s, final_status s, stop s, limit s, "
            f"all_closed (trace s), failed_scenarios (trace s)))")


def gen_scenario(rng, *, allow_stop=True, allow_limit=True, max_workers=3):
    n_ops = rng.choice([1, 2, 2, 3, 4])
    kinds = tuple(rng.choice(["ok", "ok", "fail", "fail", "err", "build"]) for _ in range(n_ops))
    workers = rng.randint(1, max_workers)
    cof = rng.random() < 0.3
    maxf = rng.choice([None, None, 1, 2]) if allow_limit else None
    max_examples = rng.choice([1, 2, 3])
    length = rng.randint(8, 70)
    labels = ["C"] + [f"W{i}" for i in range(workers)]
    weights = [rng.choice([1, 2, 4])] + [rng.choice([1, 2, 3]) for _ in range(workers)]
    schedule = []
    mode = rng.random()
    for k in range(length):
        if mode < 0.35 and k < length // 2:
            # workers run ahead first, consumer later: long queues, late liveness tests
            schedule.append(rng.choices(labels[1:], weights[1:])[0])
        else:
            schedule.append(rng.choices(labels, weights)[0])
    if allow_stop and rng.random() < 0.4:
        schedule.insert(rng.randrange(len(schedule) + 1), "Stop")
    return {"kinds": kinds, "workers": workers, "cof": cof, "maxf": maxf, "max_examples": max_examples, "schedule": schedule}


def run_scenarios(chk: core.Check, scenarios: list[dict], stage: str) -> list[dict]:
    """Executes every scenario on the real engine under its forced schedule and on the Coq LTS; reports step-wise
    and trace disagreements through chk.disagree.  Returns per-scenario records (real + model observations)."""
    for sc in scenarios:
        sc["ops"] = discover(tuple(sc["kinds"]), sc["max_examples"], sc["cof"])
    model = core.coq_eval(IMPORTS, [model_expr(sc) for sc in scenarios])
    records = []
    for sc, m in zip(scenarios, model):
        log, mtrace, mcp, msent, mafter, mfinal, mstop, mlimit, mclosed, mfailed = m
        r = run_forced(schema_with_ops(len(sc["kinds"])), make_responder(list(sc["kinds"])), sc["schedule"], workers=sc["workers"],
                       max_examples=sc["max_examples"], max_failures=sc["maxf"], continue_on_failure=sc["cof"],
                       fault=make_fault(list(sc["kinds"])))
        canon = {k: sc[k] for k in ("kinds", "workers", "cof", "maxf", "max_examples", "schedule")}
        canon["kinds"] = list(canon["kinds"])
        rec = {"scenario": canon, "model_trace": abstract_model_trace(mtrace), "model_final": mfinal}
        if r.get("error"):
            chk.disagree(stage + ": engine threads did not reach their first points", canon, r["error"], None)
            records.append(rec)
            continue
        real_codes = [CODE.get(a, 6 if a in ("stutter",) else -1) for a in r["arrivals"]]
        # a stutter is a thread that cannot move: dead worker (6) or finished consumer (13)
        mism = None
        for k, (lab, a, mc) in enumerate(zip(sc["schedule"], r["arrivals"], log)):
            if a == "stutter":
                ok = mc in (6, 13)
            elif a == "timeout":
                ok = False
            else:
                ok = CODE.get(a) == mc
            if not ok:
                mism = {"step": k, "label": lab, "real_point": a, "model_code": mc}
                break
        real_prefix = abstract_events([e for e in r["prefix"] if event_kind(e) in ("ScenarioStarted", "NonFatalError", "ScenarioFinished", "Interrupted")
                                       and getattr(getattr(e, "phase", None), "name", "") != "PROBING"])
        rec.update({"real_prefix": real_prefix, "arrivals": r["arrivals"], "events": r["events"], "requests_at_end": r.get("requests_at_end"), "requests": r.get("requests"),
                    "model_sent": msent, "model_after_stop": mafter, "model_cp": mcp, "model_closed": mclosed, "model_failed": mfailed,
                    "model_stop": mstop, "model_limit": mlimit})
        nontrivial = len(set(sc["schedule"])) > 1 and len(rec["model_trace"]) > 0
        chk.seen(canon, nontrivial)
        chk.count(f"workers:{sc['workers']}")
        chk.count(f"maxf:{sc['maxf']}")
        chk.count("stop" if "Stop" in sc["schedule"] else "nostop")
        if mism is not None:
            chk.disagree(stage + ": program points along the schedule (real engine vs Model_C11.run_log)", canon, mism, log)
        elif real_prefix != rec["model_trace"]:
            chk.disagree(stage + ": events emitted when the schedule ends (real engine vs Model_C11.trace)", canon, real_prefix, rec["model_trace"])
        elif r.get("requests_at_end") is not None and sc["kinds"].count("err") == 0 and r["requests_at_end"] != msent:
            chk.disagree(stage + ": requests sent when the schedule ends (API log vs Model_C11.sent)", canon, r["requests_at_end"], msent)
        else:
            chk.sample({"scenario": canon, "trace": [str(x) for x in rec["model_trace"]]})
        records.append(rec)
    return records


# ----------------------------------------------------------------------------------------
# Reference automaton for a whole event stream (from the property text of C11)
# ----------------------------------------------------------------------------------------
PHASE_ORDER = ["PROBING", "EXAMPLES", "COVERAGE", "FUZZING", "STATEFUL_TESTING"]
RANK = {"SUCCESS": 0, "FAILURE": 1, "ERROR": 2, "INTERRUPTED": 3}


def stream_defects(evs, interrupted: bool) -> list:
    """All defects of the stream (empty if it is well formed): a defect in a listed region must not hide another one."""
    defects: list = []
    kinds = [event_kind(e) for e in evs]
    if not kinds or kinds[0] != "EngineStarted":
        return ["first event is not EngineStarted"]
    if kinds.count("EngineStarted") != 1:
        return ["more than one EngineStarted"]
    if kinds.count("EngineFinished") != 1 or kinds[-1] != "EngineFinished":
        return ["not exactly one EngineFinished, last"]
    open_phase = None
    phases_seen = []
    open_suites = {}
    open_scen = {}
    worst = {}
    saw_interrupt = interrupted
    for e in evs[1:-1]:
        k = event_kind(e)
        if k == "PhaseStarted":
            if open_phase is not None:
                defects.append("phase opened inside a phase")
            open_phase = e.phase.name.name
            if open_phase in phases_seen:
                defects.append(f"phase {open_phase} opened twice")
            phases_seen.append(open_phase)
            worst[open_phase] = None
        elif k == "PhaseFinished":
            name = e.phase.name.name
            if open_phase != name:
                defects.append(f"phase {name} closed without being open")
            if open_suites:
                defects.append(f"phase {name} closed with an open suite")
            w = worst.get(name)
            if w is not None and e.status.name in RANK and RANK[e.status.name] < RANK[w]:
                defects.append(f"phase {name} status {e.status.name} better than its worst scenario {w}")
            if w is not None and e.status.name == "SKIP":
                defects.append(f"phase {name} reported SKIP although a scenario ended {w}")
            open_phase = None
        elif k == "SuiteStarted":
            if open_phase is None:
                defects.append("suite outside a phase")
            open_suites[e.id] = e
        elif k == "SuiteFinished":
            if e.id not in open_suites:
                defects.append("suite closed without being open")
            still = [s for s in open_scen.values() if s.suite_id == e.id]
            if still and not saw_interrupt:
                defects.append(f"suite closed with {len(still)} announced scenario(s) never closed and no interruption")
            for s in still:
                open_scen.pop(s.id, None)
            open_suites.pop(e.id, None)
        elif k == "ScenarioStarted":
            if e.suite_id not in open_suites:
                defects.append("scenario outside a suite")
            if e.id in open_scen:
                defects.append("scenario opened twice")
            open_scen[e.id] = e
        elif k == "ScenarioFinished":
            if e.id not in open_scen:
                defects.append("scenario closed without being open")
            open_scen.pop(e.id, None)
            st = e.status.name
            if st in RANK and open_phase is not None:
                w = worst.get(open_phase)
                if w is None or RANK[st] > RANK[w]:
                    worst[open_phase] = st
        elif k == "Interrupted":
            saw_interrupt = True
        elif k in ("EngineStarted", "EngineFinished"):
            defects.append(f"{k} in the middle of the stream")
    if open_phase is not None:
        defects.append(f"phase {open_phase} never closed")
    if open_suites:
        defects.append("suite never closed")
    order = [PHASE_ORDER.index(p) for p in phases_seen]
    if order != sorted(order):
        defects.append(f"phases out of order: {phases_seen}")
    if not saw_interrupt and phases_seen != PHASE_ORDER:
        defects.append(f"not every phase was opened: {phases_seen}")
    return defects


def stream_wf(evs, interrupted: bool) -> str | None:
    """None if the stream is well formed, else a description of the first defect."""
    d = stream_defects(evs, interrupted)
    return d[0] if d else None


def race_search(chk: core.Check, n: int, judge) -> dict:
    """Targeted search around the consumer's exit condition: the consumer is stopped at each sub-step of
    `all(not alive) and queue.empty()` (incl. between an emptiness test and a liveness test, harness-side instrumentation)
    while the workers put their last events and die.  `judge(sc, result) -> str | None` names a property failure."""
    rng = chk.rng
    found = 0
    for k in range(n):
        workers = rng.choice([1, 1, 2])
        n_ops = workers
        kinds = [rng.choice(["fail", "ok", "err"]) for _ in range(n_ops)]
        head = []
        for i in range(workers):
            head += [f"W{i}"] * rng.randint(3, 7)
        rng.shuffle(head)
        k_c = 2 + (k % 9)
        sched = head + ["C"] * k_c + [f"W{i}" for i in range(workers)] * 25 + ["C"] * 25
        sc = {"kinds": kinds, "workers": workers, "cof": False, "maxf": None, "max_examples": 2, "schedule": sched, "arm_islive": True}
        r = run_forced(schema_with_ops(n_ops), make_responder(kinds), sched, workers=workers, max_examples=2, fault=make_fault(kinds), arm_islive=True)
        chk.seen({"race": sc}, True)
        verdict = judge(sc, r)
        if verdict is not None:
            found += 1
            chk.fail(verdict, sc)
    return {"runs": n, "failures": found}
