"""Setup hook (harness/setup.py): regenerate coq/theories/C13/Gen_C13.v from the schemathesis source (fail closed)."""
from __future__ import annotations

from harness import core
from harness.props import c13_translate


def regenerate() -> dict:
    res = c13_translate.translate()
    path = core.THEORIES / "C13" / "Gen_C13.v"
    changed = c13_translate.write_gen(path, res["text"])
    return {"file": str(path), "changed": changed, "sites": len(res["sites"]), "problems": res["problems"]}
