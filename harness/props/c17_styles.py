"""C17, second part: parameter examples with serialization styles, several requests per operation, object identity.

Added after seed C17_c_explicit_container_shared_between_cases (see notes/C17.md).  Two stages use the generator below:

* stage_assembly (in c17.py): the Coq model of the CASE ASSEMBLY with object identities (Model_C17 section 7: heap of
  container dicts, get_parameters_value on an address, serialize_components building a new dict from the explicit keys -
  fix cedd1977) is executed against the real `get_strategies_from_examples` + `generate_one` sequence: final container
  contents of every case, the aliasing structure between the cases, the generated objects and the source combinations,
  and the source containers after the run.
* check_styled_document: the END-TO-END oracle.  The real engine runs the examples phase against the loopback recorder on
  operations whose parameters use each style x explode x type combination that follows the OpenAPI 3.0 table, with more
  body examples than parameter combinations (and the other way round); what the server received is decoded by an
  independent RFC 6570 / OpenAPI style decoder written here and compared with the declared examples, in every request.
"""
from __future__ import annotations

import json
import urllib.parse

J = "application/json"

# (location, type, style, explode, idempotent?)  Only combinations where serialization.py follows the OpenAPI 3.0 style table
# (C06 lists the deviating ones: matrix array/object explode=false lack `name=`, objects with the default explode, ...).
# idempotent? = applying the serializer a second time changes nothing (where the fixed finding F7 - fill-ins serialized
# twice - and a container serialized once per case show on the wire; used for the non-triviality counters only).
STYLES = [
    ("path", "prim", "simple", None, True),
    ("path", "array", "simple", None, True),
    ("path", "object", "simple", False, False),
    ("path", "object", "simple", True, False),
    ("path", "prim", "label", None, False),
    ("path", "array", "label", False, False),
    ("path", "array", "label", True, False),
    ("path", "object", "label", False, False),
    ("path", "object", "label", True, False),
    ("path", "prim", "matrix", None, False),
    ("path", "array", "matrix", True, False),
    ("path", "object", "matrix", True, False),
    ("query", "prim", "form", None, True),
    ("query", "prim", None, None, True),
    ("query", "array", "form", False, True),
    ("query", "array", None, False, True),
    ("query", "array", "form", True, True),
    ("query", "array", "spaceDelimited", False, True),
    ("query", "array", "pipeDelimited", False, True),
    ("query", "object", "form", False, False),
    ("query", "object", "form", True, True),
    ("query", "object", "deepObject", True, True),
    ("query", "json", "content", None, False),
    ("header", "prim", "simple", None, True),
    ("header", "array", "simple", None, True),
    ("header", "object", "simple", False, False),
    ("header", "object", "simple", True, False),
    ("header", "json", "content", None, False),
    ("cookie", "prim", "form", None, True),
    ("cookie", "array", "form", False, True),
]


class Tokens:
    def __init__(self, rng):
        self.rng = rng
        self.n = 0

    def prim(self, kind=None):
        self.n += 1
        kind = kind or self.rng.choice(["str", "str", "int"])
        return 1000 + self.n if kind == "int" else f"v{self.n}x"


def example_value(tok, name, ty):
    rng = tok.rng
    if ty == "prim":
        return tok.prim()
    if ty == "array":
        return [tok.prim() for _ in range(rng.choice([1, 2, 3]))]
    if ty == "object":
        return {f"{name}k{j}": tok.prim() for j in range(rng.choice([1, 2]))}
    # content: application/json - any JSON value
    return rng.choice([{f"{name}j": tok.prim(), "n": [1, None, True]}, [tok.prim(), {"a": "b c"}], tok.prim("str"), {"q": "a\"b"}])


FILL_INT = {"type": "integer", "minimum": 3, "maximum": 5}


def fill_schema(name, ty):
    """Schema of a parameter WITHOUT example (filled in by the generator); small enough to validate what arrives."""
    if ty == "prim":
        return dict(FILL_INT)
    if ty == "array":
        return {"type": "array", "items": dict(FILL_INT), "minItems": 2, "maxItems": 2}
    return {"type": "object", "properties": {f"{name}k0": dict(FILL_INT)}, "required": [f"{name}k0"], "additionalProperties": False}


def example_schema(name, ty, values):
    if ty == "prim":
        return {}
    if ty == "array":
        return {"type": "array"}
    if ty == "object":
        keys = []
        for v in values:
            keys += [k for k in v if k not in keys]
        return {"type": "object", "properties": {k: {} for k in keys}}
    return {}


def gen_styled_op(rng, tok, i, *, all_examples, shape=None):
    """One operation.  shape: 'more_bodies' (N body examples > parameter combinations), 'more_params', 'no_body', None = any."""
    shape = shape or rng.choice(["more_bodies", "more_bodies", "more_params", "no_body", "equal"])
    by_loc = {}
    for st in STYLES:
        by_loc.setdefault(st[0], []).append(st)
    chosen = []
    for _ in range(rng.choice([0, 1, 1, 2])):
        chosen.append(rng.choice(by_loc["path"]))
    for _ in range(rng.choice([0, 1, 2, 3])):
        chosen.append(rng.choice(by_loc["query"]))
    for _ in range(rng.choice([0, 0, 1, 2])):
        chosen.append(rng.choice(by_loc["header"]))
    if rng.random() < 0.25:
        chosen.append(rng.choice(by_loc["cookie"]))
    if not chosen:
        chosen.append(rng.choice(by_loc["path"] + by_loc["query"]))
    max_k = 1 if shape == "more_bodies" else rng.choice([1, 2, 3])
    params, defs, path = [], [], f"/s{i}"
    n_path = 0
    for j, (loc, ty, style, explode, idem) in enumerate(chosen):
        name = {"path": f"p{j}", "query": f"q{j}", "header": f"X-H{j}", "cookie": f"c{j}"}[loc]
        with_example = all_examples or rng.random() < 0.6
        required = loc == "path" or rng.random() < 0.6 or not with_example
        p = {"name": name, "in": loc}
        if required:
            p["required"] = True
        values = []
        if with_example:
            k = rng.choice([1, max_k]) if shape != "more_params" else rng.choice([2, 3])
            values = [example_value(tok, name, ty) for _ in range(k)]
            schema = example_schema(name, ty, values)
            if k == 1 and rng.random() < 0.6:
                p["example"] = values[0]
            else:
                p["examples"] = {f"e{x}": {"value": v} for x, v in enumerate(values)}
        else:
            schema = fill_schema(name, "object" if ty == "json" else ty)
        if style == "content":
            p["content"] = {J: {"schema": schema}}
        else:
            p["schema"] = schema
            if style is not None:
                p["style"] = style
            if explode is not None:
                p["explode"] = explode
        if loc == "path":
            n_path += 1
            path += f"/k{n_path}/{{{name}}}"
        defs.append(p)
        params.append({"name": name, "loc": loc, "type": ty, "style": style, "explode": explode, "idempotent": idem, "examples": values,
                       "required": required, "fill_schema": None if with_example else schema, "seg": 2 * n_path + 1 if loc == "path" else None})
    n_combos = max([len(p["examples"]) for p in params] + [0])
    if shape == "no_body":
        bodies = []
    elif shape == "more_bodies":
        bodies = [{"marker": tok.prim("str"), "n": x} for x in range(max(n_combos, 1) + rng.choice([1, 2, 3]))]
    elif shape == "more_params":
        bodies = [{"marker": tok.prim("str")} for _ in range(rng.choice([1, 1, 2]))]
    else:
        bodies = [{"marker": tok.prim("str")} for _ in range(max(n_combos, 1))]
    method = rng.choice(["post", "put", "patch"]) if bodies else rng.choice(["get", "delete", "post"])
    op = {"parameters": defs, "responses": {"200": {"description": "ok"}}}
    if bodies:
        mt = {"schema": {"type": "object"}}
        if len(bodies) == 1 and rng.random() < 0.5:
            mt["example"] = bodies[0]
        else:
            mt["examples"] = {f"b{x}": {"value": b} for x, b in enumerate(bodies)}
        op["requestBody"] = {"required": True, "content": {J: mt}}
    info = {"path": path, "method": method.upper(), "prefix": f"/s{i}", "params": params, "bodies": bodies, "shape": shape,
            "all_examples": all_examples}
    return path, method, op, info


def gen_styled_document(rng, n_ops, *, all_examples_ratio=0.6, shape=None):
    tok = Tokens(rng)
    paths, ops = {}, []
    for i in range(n_ops):
        path, method, op, info = gen_styled_op(rng, tok, i, all_examples=rng.random() < all_examples_ratio, shape=shape)
        paths[path] = {method: op}
        ops.append(info)
    return {"openapi": "3.0.2", "info": {"title": "styles", "version": "1"}, "paths": paths}, ops


# ----------------------------------------------------------------------------------------
# independent decoders (RFC 6570 expansions as used by the OpenAPI 3.0 style table) - nothing from schemathesis
# ----------------------------------------------------------------------------------------
class Undecodable(Exception):
    pass


def _flat(text, sep=","):
    parts = text.split(sep)
    if len(parts) % 2:
        raise Undecodable(text)
    return dict(zip(parts[::2], parts[1::2]))


def _kv(text, sep):
    out = {}
    for part in text.split(sep):
        k, eq, v = part.partition("=")
        if not eq:
            raise Undecodable(text)
        out[k] = v
    return out


def decode_value(p, text):
    """Decode one parameter value as a server following the OpenAPI 3.0 style table would (path / header / cookie / single query value)."""
    ty, style, explode, name = p["type"], p["style"], p["explode"], p["name"]
    if style == "content":
        try:
            return ("json", json.loads(text))
        except ValueError:
            raise Undecodable(text) from None
    if style == "label":
        if not text.startswith("."):
            raise Undecodable(text)
        text = text[1:]
        if ty == "prim":
            return text
        if ty == "array":
            return text.split("." if explode else ",")
        return _kv(text, ".") if explode else _flat(text)
    if style == "matrix":
        if not text.startswith(";"):
            raise Undecodable(text)
        text = text[1:]
        if ty == "prim":
            k, eq, v = text.partition("=")
            if k != name or not eq:
                raise Undecodable(text)
            return v
        if ty == "array":  # explode=true only: ;name=a;name=b
            out = []
            for part in text.split(";"):
                k, eq, v = part.partition("=")
                if k != name or not eq:
                    raise Undecodable(text)
                out.append(v)
            return out
        return _kv(text, ";")
    # simple / form / delimited
    if ty == "prim":
        return text
    sep = {"spaceDelimited": " ", "pipeDelimited": "|"}.get(style, ",")
    if ty == "array":
        return text.split(sep)
    return _kv(text, ",") if explode else _flat(text)


def parse_received(r):
    target = r["target"]
    path, _, qs = target.partition("?")
    headers = {k.lower(): v for k, v in r["headers"]}
    cookies = {}
    for part in headers.get("cookie", "").split(";"):
        if "=" in part:
            k, _, v = part.strip().partition("=")
            if len(v) >= 2 and v[0] == v[-1] == '"':
                v = v[1:-1]
            cookies[k] = urllib.parse.unquote(v)
    body = None
    if r["body"]:
        try:
            body = json.loads(r["body"])
        except ValueError:
            body = ("raw", r["body"][:60])
    return {"path": path, "segments": [urllib.parse.unquote(s) for s in path.split("/")], "query": urllib.parse.parse_qsl(qs, keep_blank_values=True),
            "headers": headers, "cookies": cookies, "body": body, "target": target}


def received_value(p, req):
    """What the server decodes for parameter p in this request: ('missing',) | ('undecodable', text) | ('value', decoded)."""
    loc, name = p["loc"], p["name"]
    try:
        if loc == "path":
            segs = req["segments"]
            idx = p["seg"]  # "", "s<i>", "k1", value, "k2", value ...
            if idx >= len(segs):
                return ("missing",)
            return ("value", decode_value(p, segs[idx]))
        if loc == "header":
            if name.lower() not in req["headers"]:
                return ("missing",)
            return ("value", decode_value(p, req["headers"][name.lower()]))
        if loc == "cookie":
            if name not in req["cookies"]:
                return ("missing",)
            return ("value", decode_value(p, req["cookies"][name]))
        pairs = req["query"]
        if p["type"] == "object" and p["style"] == "deepObject":
            got = {k[len(name) + 1 : -1]: v for k, v in pairs if k.startswith(name + "[") and k.endswith("]")}
            return ("value", got) if got else ("missing",)
        if p["type"] == "object" and p["explode"]:  # form, explode: the properties are top-level query parameters
            keys = p.get("keys") or []
            got = {k: v for k, v in pairs if k in keys}
            return ("value", got) if got else ("missing",)
        vals = [v for k, v in pairs if k == name]
        if not vals:
            return ("missing",)
        if p["type"] == "array" and p["explode"]:
            return ("value", vals)
        if len(vals) != 1:
            return ("undecodable", vals)
        return ("value", decode_value(p, vals[0]))
    except Undecodable as exc:
        return ("undecodable", str(exc))


def wire_form(p, v):
    """The declared example as the decoder would return it when the example is transmitted verbatim in its style."""
    if p["style"] == "content":
        return ("json", v)
    if p["type"] == "prim":
        return str(v)
    if p["type"] == "array":
        return [str(x) for x in v]
    return {k: str(x) for k, x in v.items()}


def same_decoded(a, b):
    if isinstance(a, tuple) and isinstance(b, tuple) and a[:1] == ("json",) == b[:1]:
        return json.dumps(a[1], sort_keys=True) == json.dumps(b[1], sort_keys=True)
    return type(a) is type(b) and a == b


def valid_fill(schema, decoded):
    """Is the decoded fill-in valid for fill_schema()?  (integers 3..5 as text)"""
    def ok_int(t):
        return isinstance(t, str) and t.isdigit() and 3 <= int(t) <= 5

    if schema.get("type") == "integer":
        return ok_int(decoded)
    if schema.get("type") == "array":
        return isinstance(decoded, list) and len(decoded) == 2 and all(ok_int(x) for x in decoded)
    if schema.get("type") == "object":
        if isinstance(decoded, tuple):  # content: application/json
            d = decoded[1]
            return isinstance(d, dict) and list(d) == list(schema["properties"]) and all(isinstance(x, int) and not isinstance(x, bool) and 3 <= x <= 5 for x in d.values())
        return isinstance(decoded, dict) and list(decoded) == list(schema["properties"]) and all(ok_int(x) for x in decoded.values())
    return True


# F7 "fill_in_serialized_twice" was an excused region until fix cedd1977; a fill-in that arrives invalid is a violation now.


def check_styled_document(chk, raw, ops, record=True):
    """Examples phase through the real engine; returns [(what, detail, region)]."""
    from schemathesis.engine import Status
    from schemathesis.engine.phases import PhaseName

    from harness.engine_util import run_engine

    evs, reqs = run_engine(raw, phases=[PhaseName.EXAMPLES], workers=1)
    parsed = [parse_received(r) for r in reqs]
    status, errors = {}, {}
    for ev in evs:
        nm = type(ev).__name__
        if nm == "ScenarioFinished":
            status[ev.label] = ev.status
        elif nm == "NonFatalError":
            errors.setdefault(ev.label, []).append(type(ev.value).__name__ if hasattr(ev, "value") else "error")
    fails = []
    for op in ops:
        label = f"{op['method']} {op['path']}"
        mine = [r for r in parsed if r["path"].startswith(op["prefix"] + "/") or r["path"] == op["prefix"]]
        st = status.get(label)
        errored = st == Status.ERROR or bool(errors.get(label))
        for p in op["params"]:
            if p["type"] == "object" and p["style"] == "form" and p["explode"]:
                keys = []
                for v in p["examples"]:
                    keys += [k for k in v if k not in keys]
                p["keys"] = keys or list((p["fill_schema"] or {}).get("properties", {}))
        has_examples = bool(op["bodies"]) or any(p["examples"] for p in op["params"])
        if record:
            chk.count("styled-op:" + op["shape"] + (":all-examples" if op["all_examples"] else ":with-fill-in"))
        if not has_examples:
            if mine:
                fails.append(("operation without examples sent requests in the examples phase", {"op": label, "n": len(mine)}, None))
            continue
        if errored:
            fails.append(("operation with sendable examples reports an error", {"op": label, "errors": errors.get(label), "status": str(st)}, None))
            continue
        n_expected = max([len(op["bodies"])] + [len(p["examples"]) for p in op["params"]])
        if len(mine) != n_expected and record:
            chk.count("styled-op:request-count-differs")
        # (1) every declared example arrives unchanged (decoded per its style) in at least one request
        for p in op["params"]:
            got = [received_value(p, r) for r in mine]
            for v in p["examples"]:
                want = wire_form(p, v)
                if not any(g[0] == "value" and same_decoded(g[1], want) for g in got):
                    fails.append((
                        "parameter example not sent unchanged in any examples-phase request",
                        {"op": label, "parameter": {k: p[k] for k in ("name", "loc", "type", "style", "explode")}, "example": v,
                         "server_decoded": [list(g) for g in got][:6], "targets": [r["target"] for r in mine][:6],
                         "requests": len(mine), "body_examples": len(op["bodies"]), "parameter_combinations": max([len(q["examples"]) for q in op["params"]] + [0])},
                        None,
                    ))
            # (2) required inputs are never missing / invalid: in EVERY request a required parameter carries one of its examples,
            #     or (no example) a value valid for its schema
            if not p["required"]:
                continue
            for r, g in zip(mine, got):
                if p["examples"]:
                    if not (g[0] == "value" and any(same_decoded(g[1], wire_form(p, v)) for v in p["examples"])):
                        fails.append((
                            "required parameter with examples carries none of them in an examples-phase request",
                            {"op": label, "parameter": {k: p[k] for k in ("name", "loc", "type", "style", "explode")}, "examples": p["examples"],
                             "server_decoded": list(g), "target": r["target"], "request_index": mine.index(r), "requests": len(mine)},
                            None,
                        ))
                        break
                else:
                    if not (g[0] == "value" and valid_fill(p["fill_schema"], g[1])):
                        fails.append((
                            "required parameter without example: the fill-in that arrives is missing or invalid for its schema",
                            {"op": label, "parameter": {k: p[k] for k in ("name", "loc", "type", "style", "explode")}, "schema": p["fill_schema"],
                             "server_decoded": list(g), "target": r["target"]},
                            None,
                        ))
                        break
        for b in op["bodies"]:
            if not any(isinstance(r["body"], dict) and json.dumps(r["body"], sort_keys=True) == json.dumps(b, sort_keys=True) for r in mine):
                fails.append(("body example not sent unchanged", {"op": label, "example": b, "requests": len(mine)}, None))
    return fails
