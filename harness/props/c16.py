"""C16 - report files are well-formed and faithful to the traffic.

Stages: proofs (Properties_C16.v) -> tables of the installed PyYAML vs the model -> correspondence of
write_double_quoted / json.dumps with the Coq model and of the Coq YAML decoders with PyYAML and libyaml ->
vcr_writer / har_writer on stub recorders over nasty traffic (model predicts which scalar sites survive; the
oracle re-parses the whole file and compares every field) -> Statistic + JunitXMLHandler on generated event
histories built from real ScenarioRecorders vs the Coq state machine -> CassetteWriter thread on generated
histories vs the Coq queue machine -> ExecutionContext + CassetteWriter (VCR, HAR) + JunitXMLHandler on histories of WHOLE
ScenarioFinished events (phase, label, status, skip_reason, is_final, recorder) vs Model_C16 Part 6 (written_ev,
junit_run_ev) -> the lifecycle of the writer thread (queue, join with a timeout, sys.exit) under
generated schedules vs the Coq transition system `lrun` (parameters read from the real CassetteWriter) -> real
`st run --report vcr,har,junit` against the loopback server -> the real CLI in a process of its own (c16_child.py) with
the report files on a slow device, re-parsed after the process has exited.
"""
from __future__ import annotations

import base64
import binascii
import gc
import io
import json
import os
import queue as queue_mod
import shutil
import sys
import tempfile
import threading
import time
import uuid
import xml.etree.ElementTree as ET
from types import SimpleNamespace
from urllib.parse import parse_qsl, urlsplit

from harness import core
from harness.core import cbool, clist, copt, cstr, ctuple, popt, pstr
from harness.loopback import Recorder

LEVEL = "proof"
IMPORTS = ["Common.Str", "C16.Model_C16"]

# ----------------------------------------------------------------------------------------
# code point classes
# ----------------------------------------------------------------------------------------
CLASS_POINTS = [
    0, 1, 7, 8, 9, 10, 11, 12, 13, 0x1B, 0x1F, 0x20, 0x21, 0x22, 0x23, 0x27, 0x2F, 0x30, 0x39, 0x41, 0x46, 0x55, 0x5C, 0x61, 0x66,
    0x75, 0x78, 0x7E, 0x7F, 0x80, 0x84, 0x85, 0x86, 0x9F, 0xA0, 0xA1, 0xE9, 0xFF, 0x100, 0x2027, 0x2028, 0x2029, 0x202A, 0xD7FF,
    0xD800, 0xDBFF, 0xDC00, 0xDFFF, 0xE000, 0xFEFE, 0xFEFF, 0xFF00, 0xFFFD, 0xFFFE, 0xFFFF, 0x10000, 0x1F600, 0xFFFFF, 0x10FFFF,
]


def rand_text(rng, maxlen=12):
    n = rng.choice([0, 1, 1, 2, 3, 5, maxlen])
    out = []
    for _ in range(n):
        k = rng.random()
        if k < 0.35:
            out.append(rng.choice("abcXYZ019_ -:#"))
        elif k < 0.85:
            out.append(chr(rng.choice(CLASS_POINTS)))
        else:
            out.append(chr(rng.randrange(0x110000)))
    return "".join(out)


def impl_wdq(s):
    from schemathesis.cli.commands.run.handlers.cassettes import write_double_quoted

    buf = io.StringIO()
    write_double_quoted(buf, s)
    return buf.getvalue()


def yaml_load(text, c_loader=False):
    """('ok', value) | ('error', exception class name)"""
    import yaml

    try:
        return ("ok", yaml.load(text, Loader=yaml.CSafeLoader if c_loader else yaml.SafeLoader))
    except Exception as exc:  # noqa: BLE001  (PyYAML raises ValueError from chr() on out-of-range escapes)
        return ("error", type(exc).__name__)


def b64(text):
    try:
        return base64.b64decode(text, validate=True)
    except (binascii.Error, TypeError, ValueError):
        return ("not base64", text)


def mopt(v):
    v = popt(v)
    return None if v is None else pstr(v)


# ----------------------------------------------------------------------------------------
# stage: tables
# ----------------------------------------------------------------------------------------
def stage_tables(chk):
    from yaml.emitter import Emitter
    from yaml.reader import Reader
    from yaml.scanner import Scanner

    pts = sorted(set(CLASS_POINTS + [0x7D, 0x9, 0xA, 0xD, 0xD7FE, 0xE001, 0xFFFC, 0x10001, 0x10FFFE]))
    (tabs,) = core.coq_eval(IMPORTS, ["(emit_tab, scan_tab)"])
    flags = core.coq_eval(IMPORTS, [f"(printable {c}, is_break {c})" for c in pts])
    emit_m = sorted((a, chr(b)) for a, b in tabs[0])
    scan_m = sorted((chr(a), b) for a, b in tabs[1])
    emit_i = sorted((ord(k), v) for k, v in Emitter.ESCAPE_REPLACEMENTS.items())
    scan_i = sorted((k, ord(v)) for k, v in Scanner.ESCAPE_REPLACEMENTS.items())
    if emit_m != emit_i:
        chk.disagree("yaml.emitter.Emitter.ESCAPE_REPLACEMENTS vs Model_C16.emit_tab", "table", emit_i, emit_m)
    if scan_m != scan_i or Scanner.ESCAPE_CODES != {"x": 2, "u": 4, "U": 8}:
        chk.disagree("yaml.scanner.Scanner.ESCAPE_REPLACEMENTS / ESCAPE_CODES vs Model_C16.scan_tab", "table", [scan_i, Scanner.ESCAPE_CODES], scan_m)
    for c, (p, b) in zip(pts, flags):
        ip = Reader.NON_PRINTABLE.search(chr(c)) is None
        ib = chr(c) in "\r\n\x85\u2028\u2029"
        if (p, b) != (ip, ib):
            chk.disagree("yaml.reader.Reader.NON_PRINTABLE / scanner line breaks vs Model_C16.printable / is_break", c, [ip, ib], [p, b])
    # http.cookies: one-character strings never raise and never hold a morsel (what _extract_cookies hands over today);
    # Model_C16.cookie_error against SimpleCookie on the cookie shapes of the generators
    from http.cookies import CookieError, SimpleCookie

    from schemathesis.cli.commands.run.handlers.cassettes import _extract_cookies

    chars = sorted(set(range(0x180)) | set(CLASS_POINTS))
    for c in chars:
        try:
            got = list(SimpleCookie(chr(c)).items())
        except Exception as exc:  # noqa: BLE001
            got = type(exc).__name__
        if got != []:
            chk.disagree("SimpleCookie on a one-character string (model: no morsel, no CookieError)", c, got, [])
    m_err = core.coq_eval(IMPORTS, [f"(cookie_error {cstr(v)}, existsb cookie_error (pieces_now {cstr(v)}))" for v in COOKIE_VALUES])
    for v, (whole, now) in zip(COOKIE_VALUES, m_err):
        try:
            SimpleCookie(v)
            real = False
        except CookieError:
            real = True
        if real != whole or now is not False:
            chk.disagree("SimpleCookie raising CookieError vs Model_C16.cookie_error", v, real, [whole, now])
        try:
            got = [(c.name, c.value) for c in _extract_cookies([v, v])]
        except Exception as exc:  # noqa: BLE001
            got = f"raises {type(exc).__name__}: {exc}"
        if got != []:
            chk.disagree("_extract_cookies on a header value vs Model_C16 (pieces_now: characters, no morsel, never raises)", v, got, [])
    chk.stages["tables"] = {"emit": len(emit_i), "scan": len(scan_i), "points": len(pts), "cookie_chars": len(chars), "cookie_values": len(COOKIE_VALUES)}


# ----------------------------------------------------------------------------------------
# stage: the escaper and the decoders
# ----------------------------------------------------------------------------------------
def stage_escaper(chk, n):
    rng = chk.rng
    corpus = ["".join(chr(c) for c in json.loads(p.read_text())["cps"]) for p in sorted((core.VERIF / "corpus" / "C16").glob("text_*.json"))]
    texts = corpus + [chr(c) for c in CLASS_POINTS] + [chr(c) * 2 + "a" + chr(c) for c in CLASS_POINTS[::3]] + [rand_text(rng) for _ in range(n)]
    exprs = [
        f"(write_double_quoted {cstr(s)}, write_double_quoted_loop {cstr(s)}, yaml_dq_decode (write_double_quoted {cstr(s)}), "
        f"yaml_dq_decode_strict (write_double_quoted {cstr(s)}), forallb line_safe (write_double_quoted {cstr(s)}), "
        f"json_dumps {cstr(s)}, yaml_dq_decode (json_dumps {cstr(s)}))"
        for s in texts
    ]
    model = core.coq_eval(IMPORTS, exprs)
    escaped = 0
    for s, (m_out, m_loop, m_dec, m_dec_c, m_safe, m_json, m_jdec) in zip(texts, model):
        cps = [ord(c) for c in s]
        out = impl_wdq(s)
        nontrivial = out != '"' + s + '"'
        escaped += nontrivial
        chk.seen({"dq": cps}, nontrivial)
        chk.count("text:" + ("escaped" if nontrivial else "plain"))
        if pstr(m_out) != out or pstr(m_loop) != out:
            chk.disagree("write_double_quoted vs Model_C16.write_double_quoted(_loop)", cps, out, [pstr(m_out), pstr(m_loop)])
            continue
        jd = json.dumps(s)
        if pstr(m_json) != jd:
            chk.disagree("json.dumps vs Model_C16.json_dumps", cps, jd, pstr(m_json))
        # the theorems, evaluated: model decoders on the model output
        has_sur = any(0xD800 <= c <= 0xDFFF for c in cps)
        if mopt(m_dec) != s or (not has_sur and mopt(m_dec_c) != s) or m_safe is not True:
            chk.disagree("evaluated theorem C16_dq_roundtrip / C16_dq_single_line", cps, out, [mopt(m_dec), mopt(m_dec_c), m_safe])
        # oracle on the implementation: independent parsers read the same string back, and it is one line
        y = yaml_load(out)
        if y != ("ok", s):
            chk.fail("PyYAML does not read back what write_double_quoted wrote", cps, {"written": out, "read": repr(y)}, region=None)
        yc = yaml_load(out, c_loader=True)
        if yc != ("ok", s):
            chk.fail("libyaml does not read back what write_double_quoted wrote", cps, {"written": out, "read": repr(yc)},
                     region="libyaml_lone_surrogate" if has_sur else None)
        if len(out.splitlines()) != 1 or any(ord(ch) < 0x20 or ord(ch) == 0x7F for ch in out):
            chk.fail("write_double_quoted output has a line break or control character", cps, out, region=None)
        # json.dumps sites: PyYAML reading vs the model's reading
        yj = yaml_load(jd)
        mj = mopt(m_jdec)
        if (yj[1] if yj[0] == "ok" else None) != mj:
            chk.disagree("PyYAML reading of json.dumps(s) vs Model_C16.yaml_dq_decode (json_dumps s)", cps, repr(yj), mj)
        if all(c < 0x10000 for c in cps) and yj != ("ok", s):
            chk.fail("a BMP string written with json.dumps is not read back by PyYAML", cps, repr(yj), region=None)
        if nontrivial:
            chk.sample({"text": cps, "written": out})
    chk.stages["correspondence_escaper"] = {"texts": len(texts), "corpus": len(corpus), "needing_escapes": escaped}


DEC_ALPHABET = list("\"\\'xuUN_LPabtnvfre0/ \t\n\r#:-{}[],&*!|>%@`AFaf09gG") + ["\x85", "\u2028", "\ufeff", "\x7f", "\x01", "\xe9", "\u4e2d", "\U0001f600", "\ud800", "\xa0"]


def stage_decoders(chk, n):
    """The Coq decoders against PyYAML / libyaml on arbitrary one-token texts (they must never accept more)."""
    rng = chk.rng
    texts = []
    for _ in range(n):
        body = "".join(rng.choice(DEC_ALPHABET) for _ in range(rng.choice([0, 1, 2, 3, 6, 10])))
        q = rng.choice(['"', '"', "'"])
        if rng.random() < 0.6:
            body = body.replace(q, "")
        if rng.random() < 0.3:
            body = body.replace("\\", "\\" + rng.choice(["x4", "u00e9", "U0001F600", "ud800", "U00110000", "xZZ", "N", "/", "\t"]))
        texts.append(q + body + q)
    model = core.coq_eval(IMPORTS, [f"(yaml_dq_decode {cstr(t)}, yaml_dq_decode_strict {cstr(t)}, yaml_sq_decode {cstr(t)})" for t in texts])
    accepted = 0
    for t, (d, dc, sq) in zip(texts, model):
        cps = [ord(c) for c in t]
        chk.seen({"scalar": cps}, True)
        for name, val, c_loader in (("yaml_dq_decode", d, False), ("yaml_dq_decode_strict", dc, True), ("yaml_sq_decode", sq, False), ("yaml_sq_decode", sq, True)):
            got = mopt(val)
            if got is None:
                continue
            accepted += 1
            y = yaml_load(t, c_loader=c_loader)
            if y != ("ok", got):
                chk.disagree(f"Model_C16.{name} accepts a scalar that {'libyaml' if c_loader else 'PyYAML'} reads differently", cps, repr(y), got)
        # completeness on one-line scalars: when PyYAML reads a string from a text without line breaks the decoder agrees
        # (PyYAML tolerates a comment glued to the closing quote: a document matter, not a scalar one)
        if not any(ch in t for ch in "\n\r\x85\u2028\u2029#"):
            y = yaml_load(t)
            m = mopt(d) if t[0] == '"' else mopt(sq)
            if y[0] == "ok" and isinstance(y[1], str) and m != y[1]:
                chk.disagree("PyYAML reads a one-line scalar that the Coq decoder rejects or reads differently", cps, repr(y), m)
    chk.stages["correspondence_decoders"] = {"texts": len(texts), "accepted_by_some_decoder": accepted}


# ----------------------------------------------------------------------------------------
# stub recorders for the writers
# ----------------------------------------------------------------------------------------
class Sink:
    """What the writers need from click's LazyFile."""

    def __init__(self):
        self.buf = io.StringIO()
        self.name = "stub"
        self.mode = "w"

    def open(self):
        return self.buf

    def close(self):
        pass

    def write(self, s):
        return self.buf.write(s)

    def flush(self):
        pass


URL_CHARS = list("abz09/-._~:?#[]@!$&()*+,;=%") + ["'", "'", '"', "\\", "{", "}", "|", "^", "`", "%27", "%20", "''"]
HEADER_NAMES = ["Content-Type", "X-A", "Accept", "x-b", "Set-Cookie", "Location", "X-Long-Name-1", "Cookie", "Cookie", "cookie"]
# cookie header values: legal pairs, names with characters SimpleCookie refuses (/ @ , ( ) { } ? < >), =-less fragments, quotes,
# semicolons, attributes, non-ASCII, empty
COOKIE_VALUES = ["sid=1", "tenant/id=1", "a@b=1; c=2", "x", "", "=", "=v", "k=", 'q="a;b"', "\xe9=1", "a=1; (b)=2", "k=v; Path=/; HttpOnly", "$Version=1; a=b",
                 "path=/", "a,b=1", "{x}=1", "a?=1", "<t>=1", ";;;", "a=b=c", "[Filtered]", "sid=1; tenant/id=2", "n\xe4me/x=\xff", 'a="b\\"c"; d/e=1', "A=1; B", "a b/c=1"]
LATIN1 = [chr(c) for c in (0x20, 0x21, 0x22, 0x27, 0x5C, 0x7E, 0x7F, 0x80, 0x85, 0xA0, 0xE9, 0xFF, 0x09, 0x01, 0x1B, 0x3A, 0x23, 0x2D)] + list("abc019")
BODIES = [b"", b"{}", b'{"a": "b\'c"}', b"\xff\xfe\x00", b"caf\xc3\xa9", b"\xc3", b"a\x00b\x07\x1b", b"line1\nline2\r\n\ttab", b"\xc2\x85\xe2\x80\xa8\xe2\x80\xa9\xef\xbb\xbf",
          "\U0001f600 astral".encode(), b"\xed\xa0\x80", b"\x7f\x80\x9f\xa0", b'"quoted" \\ back', b"'single'", b": - # [a] {b}", bytes(range(256))]
ENCODINGS = [None, "utf-8", "utf8", "latin-1", "ISO-8859-1", "ascii", "utf-16"]
TITLES = [None, "Server error", "Undocumented HTTP status code", "Response violates schema", "Missing Content-Type header", "Custom check failed: `my_check`"]
COVERAGE_TEXT = ["Maximum length string", "Unspecified HTTP method: QUERY", "query", "q'x", 'a"b', "line\nbreak", "\u4e2d\x85", "\ud800", "\U0001f600", "", "a\\b"]


def rand_url(rng, nasty):
    path = "".join(rng.choice(URL_CHARS if nasty else URL_CHARS[:27]) for _ in range(rng.choice([0, 1, 3, 8])))
    if nasty:
        path = rng.choice(["", "'", "''", "users('"]) + path + rng.choice(["", "'", "''", "')"])
    userinfo = rng.choice(["", "", "", "user:pw@", "tok@"])
    return f"http://{userinfo}127.0.0.1:8080/{path}"


def rand_headers(rng, nasty_names):
    out = {}
    for _ in range(rng.choice([0, 1, 2, 4])):
        name = rng.choice(HEADER_NAMES)
        if nasty_names and rng.random() < 0.5:
            name += rng.choice(['"', "\\", '"x', "\\n", "'"])
        if name.lower() in ("cookie", "set-cookie") and rng.random() < 0.8:
            out[name] = [rng.choice(COOKIE_VALUES) for _ in range(rng.choice([1, 1, 2]))]
        else:
            out[name] = ["".join(rng.choice(LATIN1) for _ in range(rng.choice([0, 1, 3, 9]))) for _ in range(rng.choice([1, 1, 1, 2]))]
    return out


def rand_interaction(rng):
    """One exchange as plain data (JSON-able except bytes, which are hex)."""
    fault = rng.random()
    it = {
        "uri": rand_url(rng, nasty=fault < 0.12),
        "method": rng.choice(["GET", "POST", "PUT", "DELETE", "PATCH", "QUERY"]),
        "req_headers": rand_headers(rng, nasty_names=0.12 <= fault < 0.16),
        "req_body": rng.choice([None, None] + BODIES),
        "meta": rng.choice(["fuzzing", "fuzzing", "coverage", "coverage", "stateful"]) if not 0.16 <= fault < 0.2 else "none",
        "checks": rng.choice([None, [], [("not_a_server_error", None)], [("not_a_server_error", "Server error"), ("status_code_conformance", None)],
                              [("a", None), ("b", rng.choice(TITLES)), ("c", rng.choice(TITLES))]]),
    }
    if it["meta"] == "coverage":
        it["coverage"] = {"description": rng.choice(COVERAGE_TEXT), "location": rng.choice(COVERAGE_TEXT),
                          "parameter": rng.choice([None] + COVERAGE_TEXT), "parameter_location": rng.choice([None, "query", "path", "he'ader"])}
    if rng.random() < 0.3:
        it["argv"] = DEFAULT_ARGV + rng.choice(ARGV_TAILS)
    if rng.random() < 0.15:
        it["response"] = None
    else:
        enc = rng.choice(ENCODINGS)
        if 0.2 <= fault < 0.23:
            enc = rng.choice(["bogus", "x-unknown", "base64"])
        elif 0.23 <= fault < 0.24:
            enc = "undefined"
        elif 0.24 <= fault < 0.27:
            enc = rng.choice(["it's", "'", "''x''", "'lead", "trail'", "a''b", "utf-8'", "a\x7fb", "a\x7fb", "x\ny"])
        it["response"] = {
            "status": rng.choice([200, 201, 204, 400, 404, 500, 599]),
            "message": rng.choice(["OK", "Not Found", "", "Caf\xe9 \"q\" \\ '", "\x7f\x85", "I'm a teapot"]),
            "headers": {k.lower(): v for k, v in rand_headers(rng, nasty_names=0.27 <= fault < 0.3).items()},
            "content": rng.choice(BODIES),
            "encoding": enc,
            "http_version": rng.choice(["1.0", "1.1"]),
        }
    return it


def jsonable(it):
    def conv(v):
        if isinstance(v, bytes):
            return {"hex": v.hex()}
        if isinstance(v, dict):
            return {k: conv(x) for k, x in v.items()}
        if isinstance(v, (list, tuple)):
            return [conv(x) for x in v]
        return v

    return conv(it)


def unjsonable(v):
    if isinstance(v, dict):
        if set(v) == {"hex"}:
            return bytes.fromhex(v["hex"])
        return {k: unjsonable(x) for k, x in v.items()}
    if isinstance(v, list):
        return [unjsonable(x) for x in v]
    return v


def make_meta(it):
    from schemathesis.generation.meta import ComponentKind, CoveragePhaseData

    if it["meta"] == "none":
        return None
    data = None
    phase_name = {"fuzzing": "fuzzing", "coverage": "coverage", "stateful": "stateful"}[it["meta"]]
    if it["meta"] == "coverage":
        c = it["coverage"]
        data = CoveragePhaseData(description=c["description"], location=c["location"], parameter=c["parameter"], parameter_location=c["parameter_location"])
    return SimpleNamespace(
        generation=SimpleNamespace(time=0.01, mode=SimpleNamespace(value="positive")),
        components={ComponentKind.QUERY: SimpleNamespace(mode=SimpleNamespace(value="positive"))},
        phase=SimpleNamespace(name=SimpleNamespace(value=phase_name), data=data),
    )


def make_recorder(inters, label="GET /x", id_prefix="c"):
    from schemathesis.core.failures import Failure
    from schemathesis.core.transport import Response
    from schemathesis.engine.recorder import Interaction, Request, ScenarioRecorder

    rec = ScenarioRecorder(label=label)
    ids = []
    for idx, it in enumerate(inters):
        cid = it.get("id") or f"{id_prefix}{idx}"
        ids.append(cid)
        body = it["req_body"]
        req = Request(method=it["method"], uri=it["uri"], body=body, body_size=None if body is None else len(body), headers={k: list(v) for k, v in it["req_headers"].items()})
        resp = None
        r = it["response"]
        if r is not None:
            resp = Response(status_code=r["status"], headers={k: list(v) for k, v in r["headers"].items()}, content=r["content"], request=None,  # type: ignore[arg-type]
                            elapsed=0.25, verify=True, message=r["message"], http_version=r["http_version"], encoding=r["encoding"])
        rec.interactions[cid] = Interaction(request=req, response=resp)
        rec.cases[cid] = SimpleNamespace(value=SimpleNamespace(meta=make_meta(it), id=cid, operation=SimpleNamespace(label=label)), parent_id=None, transition=None)  # type: ignore[assignment]
        if it["checks"] is not None and resp is not None:
            rec.checks[cid] = []
            for name, title in it["checks"]:
                if title is None:
                    rec.record_check_success(name=name, case_id=cid)
                else:
                    rec.record_check_failure(name=name, case_id=cid, code_sample="curl -X GET http://x", failure=Failure(operation=label, title=title, message="m"))
    return rec, ids


def run_writer(fmt, recorders, sanitize, preserve, argv=None):
    """Drive the real writer function synchronously. Returns (text, exception or None)."""
    from schemathesis.cli.commands.run.handlers import cassettes as C

    sink = Sink()
    q = queue_mod.Queue()
    q.put(C.Initialize(seed=42))
    for rec in recorders:
        q.put(C.Process(recorder=rec))
    q.put(C.Finalize())
    writer = C.har_writer if fmt == "har" else C.vcr_writer
    saved = sys.argv[:]
    exc = None
    try:
        sys.argv = argv or ["st", "run", "http://127.0.0.1/openapi.json"]
        writer(sink, sanitize, preserve, q)  # type: ignore[arg-type]
    except Exception as e:  # noqa: BLE001  (inside the CLI this kills the writer thread)
        exc = e
    finally:
        sys.argv = saved
    return sink.buf.getvalue(), exc


def decode_kind(enc, content=b"x"):
    """What Python makes of this charset for this payload: 'ok' | 'unknown' (LookupError) | 'raises' (anything else)."""
    try:
        content.decode(enc or "utf8", "replace")
        return "ok"
    except LookupError:
        return "unknown"
    except Exception:  # noqa: BLE001  (undefined, idna, punycode)
        return "raises"


def codec_known(enc):
    return decode_kind(enc) == "ok"


def effective_encoding(r, preserve):
    """The encoding vcr_writer prints for this response (after the utf8 fall-back of commit ad7dc72b)."""
    if preserve:
        return str(r["encoding"])
    enc = r["encoding"] or "utf8"
    return "utf8" if decode_kind(enc, r["content"]) == "unknown" else enc


def expected_status(it):
    if it["response"] is None:
        return "ERROR"
    if it["checks"] is None:
        return "SKIP"
    return "FAILURE" if any(t is not None for _, t in it["checks"]) else "SUCCESS"


DEFAULT_ARGV = ["st", "run", "http://127.0.0.1/openapi.json"]
ARGV_TAILS = [[], [], ["-H", "X-Name: O'Brien"], ["--url", "http://h/it's"], ["''"], ["'lead", "trail'"], ["-H", "X: a''b'"], ["--checks", "all", "'"], ["-H", 'X: "dq" \\ # : -']]


def command_of(argv):
    return "st " + " ".join(argv[1:])


def sq_sites(it, preserve):
    """(site, value, quote doubled?) for what vcr_writer puts between single quotes for this exchange (those that can vary)."""
    sites = [("command", command_of(it.get("argv") or DEFAULT_ARGV), True), ("uri", it["uri"], True), ("method", it["method"], False)]
    r = it["response"]
    if r is not None:
        if not preserve or r["content"]:
            sites.append(("encoding", effective_encoding(r, preserve), True))
    return sites


def compare_vcr_entry(entry, it, preserve):
    """Independent oracle: the parsed cassette entry against the exchange it came from. Returns a list of differences."""
    diffs = []

    def want(path, got, exp):
        if got != exp:
            diffs.append({"field": path, "file": repr(got)[:200], "traffic": repr(exp)[:200]})

    want("status", entry.get("status"), expected_status(it))
    want("request.uri", entry["request"]["uri"], it["uri"])
    want("request.method", entry["request"]["method"], it["method"])
    want("request.headers", entry["request"]["headers"] or {}, it["req_headers"])
    body = it["req_body"]
    got_body = entry["request"].get("body")
    if body is None:
        want("request.body", got_body, None)
    elif preserve:
        want("request.body", None if got_body is None else b64(got_body["base64_string"]), body)
    else:
        want("request.body", None if got_body is None else got_body.get("string"), body.decode("utf8", "replace"))
    r = it["response"]
    if r is None:
        want("response", entry["response"], None)
    else:
        resp = entry["response"]
        want("response.status.code", resp["status"]["code"], str(r["status"]))
        want("response.status.message", resp["status"]["message"], r["message"])
        want("response.headers", resp["headers"] or {}, r["headers"])
        want("response.http_version", resp["http_version"], r["http_version"])
        gb = resp.get("body")
        if preserve:
            # an empty payload has no body key (Response.encoded_body is None for b"")
            want("response.body", b"" if gb is None else b64(gb["base64_string"]), r["content"])
            if gb is not None:
                want("response.body.encoding", gb.get("encoding"), str(r["encoding"]))
        else:
            enc = effective_encoding(r, preserve)
            want("response.body", None if gb is None else gb.get("string"), r["content"].decode(enc, "replace"))
            want("response.body.encoding", None if gb is None else gb.get("encoding"), enc)
    checks = [] if (it["checks"] is None or r is None) else it["checks"]
    want("checks", [(c["name"], c["status"], c["message"]) for c in entry["checks"]],
         [(n, "SUCCESS" if t is None else "FAILURE", t) for n, t in checks])
    if it["meta"] == "none":
        pass
    else:
        want("phase.name", entry["phase"]["name"], it["meta"])
        if it["meta"] == "coverage":
            want("phase.data", entry["phase"]["data"], it["coverage"])
        else:
            want("phase.data", entry["phase"]["data"], {})
    return diffs


def vcr_region(it, preserve, sq_ok, names_ok):
    """Listed finding region of this exchange, from the model's verdict on its scalar sites."""
    if it["meta"] == "none":
        return "meta_none"
    if not all(sq_ok):
        # uri / command / encoding double the quote since 059139b3: only an unprintable character or a line break is left
        return "sq_site_unprintable"
    if not all(names_ok):
        return "header_name_quote"
    r = it["response"]
    if r is not None and not preserve and decode_kind(r["encoding"], r["content"]) == "raises":  # charset=undefined; b"".decode(..) never raises
        return "codec_decode_raises"
    return None


def stage_writers(chk, n):
    rng = chk.rng
    corpus = [unjsonable(json.loads(p.read_text())) for p in sorted((core.VERIF / "corpus" / "C16").glob("exchange_*.json"))]
    cases = [(c["exchange"], c["sanitize"], c["preserve"]) for c in corpus]
    while len(cases) < n + len(corpus):
        cases.append((rand_interaction(rng), rng.random() < 0.3, rng.random() < 0.5))
    exprs = []
    for it, _san, preserve in cases:
        sq = clist([f"yaml_sq_decode ({'emit_sq_escaped' if esc else 'emit_sq'} {cstr(v)})" for _, v, esc in sq_sites(it, preserve)], "(option str)")
        names = list(it["req_headers"]) + (list(it["response"]["headers"]) if it["response"] else [])
        nm = clist([f"yaml_dq_decode (emit_dq_raw {cstr(v)})" for v in names], "(option str)")
        vals = [v for vs in it["req_headers"].values() for v in vs] + ([v for vs in it["response"]["headers"].values() for v in vs] + [it["response"]["message"]] if it["response"] else [])
        js = clist([f"yaml_dq_decode (json_dumps {cstr(v)})" for v in vals], "(option str)")
        exprs.append(f"({sq}, {nm}, {js})")
    model = core.coq_eval(IMPORTS, exprs)
    stats = {"runs": 0, "valid_and_faithful": 0, "inside_regions": {}, "har_ok": 0}
    for (it, sanitize, preserve), (m_sq, m_nm, m_js) in zip(cases, model):
        case = {"exchange": jsonable(it), "sanitize": sanitize, "preserve": preserve}
        names = list(it["req_headers"]) + (list(it["response"]["headers"]) if it["response"] else [])
        vals = [v for vs in it["req_headers"].values() for v in vs] + ([v for vs in it["response"]["headers"].values() for v in vs] + [it["response"]["message"]] if it["response"] else [])
        region = vcr_region(it, preserve, [mopt(v) == s[1] for v, s in zip(m_sq, sq_sites(it, preserve))], [mopt(v) == nm for v, nm in zip(m_nm, names)])
        chk.seen(case, region is not None or any(b for b in (it["req_body"], it["response"] and it["response"]["content"])))
        chk.count("exchange:meta=" + it["meta"] + ":" + ("network-error" if it["response"] is None else "response"))
        stats["runs"] += 1
        # theorem C16_json_site_roundtrip_partial evaluated: header values and reason phrases are latin-1
        if [mopt(v) for v in m_js] != vals:
            chk.disagree("evaluated theorem C16_json_site_roundtrip_partial on header values", case, vals, [mopt(v) for v in m_js])
        # --- VCR
        rec, ids = make_recorder([it])
        text, exc = run_writer("vcr", [rec], False, preserve, argv=it.get("argv"))
        problem = None
        if exc is not None:
            problem = f"vcr_writer raised {type(exc).__name__}: {exc}"
        else:
            y = yaml_load(text)
            yc = yaml_load(text, c_loader=True)
            if y[0] != "ok":
                problem = f"cassette is not YAML ({y[1]})"
            elif yc != y and not any(0xD800 <= ord(ch) <= 0xDFFF for ch in json.dumps(jsonable(it), ensure_ascii=False)):
                problem = f"libyaml and PyYAML read the cassette differently ({yc[0]})"
            else:
                doc = y[1]
                entries = doc.get("http_interactions") or []
                if [e.get("id") for e in entries] != ids:
                    problem = f"cassette holds entries {[e.get('id') for e in entries]} for delivered {ids}"
                else:
                    diffs = compare_vcr_entry(entries[0], it, preserve)
                    if doc.get("command") != command_of(it.get("argv") or DEFAULT_ARGV):
                        diffs.append({"field": "command", "file": repr(doc.get("command")), "traffic": repr(command_of(it.get("argv") or DEFAULT_ARGV))})
                    if diffs:
                        problem = {"cassette differs from the traffic": diffs}
        if problem is None:
            stats["valid_and_faithful"] += 1
            if region is not None:
                chk.disagree("model says a scalar site of this exchange is broken, but the cassette parses and is faithful", case, text[:600], region)
        else:
            if region is not None:
                stats["inside_regions"][region] = stats["inside_regions"].get(region, 0) + 1
            chk.fail(f"VCR cassette: {problem if isinstance(problem, str) else 'differs from the traffic'}", case, problem if not isinstance(problem, str) else text[-400:], region=region)
        # --- HAR with sanitization on: must not raise, must be complete (content under sanitization is C15's subject)
        text, exc = run_writer("har", [rec], True, preserve)
        try:
            n_entries = len(json.loads(text)["log"]["entries"]) if exc is None else None
        except ValueError:
            n_entries = "not JSON"
        if exc is not None or n_entries != 1:
            chk.fail(f"har_writer (sanitization on) raised {type(exc).__name__ if exc else None} / wrote {n_entries} entries for 1 exchange", case, str(exc), region=None)
        # --- HAR with sanitization off
        text, exc = run_writer("har", [rec], False, preserve)
        if exc is not None:
            chk.fail(f"har_writer raised {type(exc).__name__}: {exc}: the writer thread dies, har.json is cut", case, None, region=None)
            continue
        try:
            har = json.loads(text)
        except ValueError as e:
            chk.fail(f"HAR file is not JSON: {e}", case, text[:300], region=None)
            continue
        hd = compare_har(har, [it], preserve)
        if hd:
            chk.fail("HAR file differs from the traffic", case, hd, region=None)
        else:
            stats["har_ok"] += 1
    chk.stages["writers_on_stub_recorders"] = stats


def compare_har(har, inters, preserve):
    diffs = []
    entries = har["log"]["entries"]
    if len(entries) != len(inters):
        return [{"field": "entries", "file": len(entries), "traffic": len(inters)}]
    for e, it in zip(entries, inters):
        def want(path, got, exp):
            if got != exp:
                diffs.append({"field": path, "file": repr(got)[:200], "traffic": repr(exp)[:200]})

        want("request.method", e["request"]["method"], it["method"].upper())
        want("request.url", e["request"]["url"], it["uri"])
        want("request.headers", [(h["name"], h["value"]) for h in e["request"]["headers"]], [(k, v[0]) for k, v in it["req_headers"].items()])
        body = it["req_body"]
        pd = e["request"].get("postData")
        if body is None:
            want("request.postData (the request had no body)", pd, None)
        elif preserve:
            want("request.postData", None if pd is None else b64(pd["text"]), body)
        else:
            want("request.postData", None if pd is None else pd["text"], body.decode("utf-8", "replace"))
        if body is not None and pd is not None:
            want("request.postData.mimeType", pd.get("mimeType"), (it["req_headers"].get("Content-Type") or [""])[0])
        want("request.bodySize", e["request"].get("bodySize"), len(body or b""))
        want("request.queryString", [(q["name"], q["value"]) for q in e["request"]["queryString"]], parse_qsl(urlsplit(it["uri"]).query, keep_blank_values=True))
        r = it["response"]
        if r is None:
            want("response (network error: no response)", canon_har_response(e["response"]), None)
        else:
            want("response.status", e["response"]["status"], r["status"])
            want("response.statusText", e["response"]["statusText"], r["message"])
            want("response.headers", [(h["name"], h["value"]) for h in e["response"]["headers"]], [(k, v[0]) for k, v in r["headers"].items()])
            want("response.httpVersion", e["response"]["httpVersion"], "HTTP/" + r["http_version"])
            want("response.bodySize", e["response"].get("bodySize"), len(r["content"]))
            c = e["response"]["content"]
            if preserve:
                want("response.content", b64(c.get("text") or ""), r["content"])
                if r["content"]:
                    want("response.content.encoding", c.get("encoding"), "base64")
            else:
                want("response.content", c.get("text"), r["content"].decode("utf-8", "replace"))
    return diffs


# ----------------------------------------------------------------------------------------
# stage: sequences of exchanges - entry i is a function of exchange i (Model_C16 Part 4)
# ----------------------------------------------------------------------------------------
def c_hdict(d):
    return clist([ctuple(cstr(k), clist([cstr(v) for v in vs], "str")) for k, vs in d.items()], "(str * list str)")


def c_xchg(idx, it):
    req = "{| q_method := %s; q_uri := %s; q_headers := %s; q_body := %s |}" % (
        cstr(it["method"]), cstr(it["uri"]), c_hdict(it["req_headers"]), copt(None if it["req_body"] is None else cstr(it["req_body"]), "str"))
    r = it["response"]
    resp = None
    if r is not None:
        kind = {"ok": "CodecOk", "unknown": "CodecUnknown", "raises": "CodecRaises"}[decode_kind(r["encoding"], r["content"])]
        resp = "{| p_status := %d; p_message := %s; p_headers := %s; p_content := %s; p_encoding := %s; p_codec := %s; p_version := %s |}" % (
            r["status"], cstr(r["message"]), c_hdict(r["headers"]), cstr(r["content"]), copt(None if r["encoding"] is None else cstr(r["encoding"]), "str"), kind, cstr(r["http_version"]))
    checks = None
    if it["checks"] is not None and r is not None:
        checks = clist([ctuple(cstr(n), cbool(title is not None)) for n, title in it["checks"]], "(str * bool)")
    return "{| x_id := %d; x_req := %s; x_resp := %s; x_checks := %s |}" % (idx, req, copt(resp, "xresp"), copt(checks, "(list (str * bool))"))


def payload_text(p):
    """Model payload -> the text the writer puts into the file."""
    if p[0] == "B64":
        return base64.b64encode(bytes(p[1])).decode()
    if p[0] == "Utf8Replace":
        return bytes(p[1]).decode("utf-8", "replace")
    if p[0] == "CodecReplace":
        return bytes(p[2]).decode(pstr(p[1]), "replace")
    raise ValueError(p)


def pairs(v):
    return [(pstr(k), pstr(x)) for k, x in v]


def canon_model_har(e):
    post = popt(e["he_post"])
    resp = popt(e["he_resp"])
    out = {"method": pstr(e["he_method"]), "url": pstr(e["he_url"]), "query": parse_qsl(pstr(e["he_query"]), keep_blank_values=True), "httpVersion": pstr(e["he_version"]), "headers": pairs(e["he_headers"]),
           "post": None if post is None else (pstr(post[0]), payload_text(post[1])), "bodySize": e["he_body_size"], "cookies": pairs(e["he_cookies"]), "response": None}
    if resp is not None:
        content = popt(resp["hr_content"])
        out["response"] = {"status": resp["hr_status"], "statusText": pstr(resp["hr_text"]), "httpVersion": pstr(resp["hr_version"]), "headers": pairs(resp["hr_headers"]),
                           "mimeType": pstr(resp["hr_mime"]), "text": None if content is None else payload_text(content), "encoding": "base64" if resp["hr_base64"] else None,
                           "size": resp["hr_size"], "redirectURL": pstr(resp["hr_redirect"]), "cookies": pairs(resp["hr_cookies"])}
    return out


def canon_har_response(r):
    c = r.get("content") or {}
    if r["status"] == 0 and r["statusText"] == "" and not r["headers"] and r["httpVersion"] == "" and not c.get("text") and not r.get("cookies"):
        return None
    return {"status": r["status"], "statusText": r["statusText"], "httpVersion": r["httpVersion"], "headers": [(h["name"], h["value"]) for h in r["headers"]],
            "mimeType": c.get("mimeType") or "", "text": c.get("text"), "encoding": c.get("encoding"), "size": c.get("size"), "redirectURL": r.get("redirectURL") or "",
            "cookies": [(k["name"], k["value"]) for k in r.get("cookies") or []]}


def canon_file_har(e):
    rq = e["request"]
    pd = rq.get("postData")
    return {"method": rq["method"], "url": rq["url"], "query": [(q["name"], q["value"]) for q in rq["queryString"]], "httpVersion": rq["httpVersion"], "headers": [(h["name"], h["value"]) for h in rq["headers"]],
            "post": None if pd is None else (pd.get("mimeType"), pd.get("text")), "bodySize": rq.get("bodySize"), "cookies": [(k["name"], k["value"]) for k in rq.get("cookies") or []],
            "response": canon_har_response(e["response"])}


def har_rest(e):
    """Everything of a HAR entry that is not the wall clock (for the written-alone vs written-in-sequence comparison)."""
    return {k: v for k, v in e.items() if k != "startedDateTime"}


VSTATUS = {"VSuccess": "SUCCESS", "VFailure": "FAILURE", "VSkip": "SKIP", "VError": "ERROR"}


def canon_model_vcr(e):
    def body(b):
        b = popt(b)
        return None if b is None else (pstr(b[0]), payload_text(b[1]))

    resp = popt(e["ve_resp"])
    out = {"id": f"c{e['ve_id']}", "status": VSTATUS[e["ve_status"]], "checks": [(pstr(n), f) for n, f in e["ve_checks"]], "uri": pstr(e["ve_uri"]), "method": pstr(e["ve_method"]),
           "headers": {pstr(k): [pstr(v) for v in vs] for k, vs in e["ve_headers"]}, "body": body(e["ve_body"]), "response": None}
    if resp is not None:
        out["response"] = {"code": str(resp["vr_code"]), "message": pstr(resp["vr_message"]), "headers": {pstr(k): [pstr(v) for v in vs] for k, vs in resp["vr_headers"]},
                           "body": body(resp["vr_body"]), "http_version": pstr(resp["vr_version"])}
    return out


def canon_file_vcr(e):
    def body(b):
        if b is None:
            return None
        return (b.get("encoding"), b["base64_string"] if "base64_string" in b else b.get("string"))

    r = e["response"]
    out = {"id": e["id"], "status": e["status"], "checks": [(c["name"], c["status"] == "FAILURE") for c in e["checks"]], "uri": e["request"]["uri"], "method": e["request"]["method"],
           "headers": e["request"]["headers"] or {}, "body": body(e["request"].get("body")), "response": None}
    if r is not None:
        out["response"] = {"code": r["status"]["code"], "message": r["status"]["message"], "headers": r["headers"] or {}, "body": body(r.get("body")), "http_version": r["http_version"]}
    return out


def vcr_rest(e):
    return {k: v for k, v in e.items() if k != "recorded_at"}


def clean_interaction(rng):
    """An exchange outside every listed region (the sequences are about state carried between entries, not about quoting)."""
    while True:
        it = rand_interaction(rng)
        names = list(it["req_headers"]) + (list(it["response"]["headers"]) if it["response"] else [])
        if "@" in it["uri"] or it["meta"] == "none" or any(ch in n for n in names for ch in '"\\'):
            continue
        if it["response"] is not None and (decode_kind(it["response"]["encoding"], it["response"]["content"]) == "raises" or any(ord(ch) < 0x20 or ord(ch) == 0x7F for ch in (it["response"]["encoding"] or ""))):
            continue
        it.pop("argv", None)
        if rng.random() < 0.5:
            it["uri"] += rng.choice(["?a=1&b=&a=2", "?q=x%20y", "?token", "", "?a=1#frag?x=2", "#f", "?a=b?c=d"])
        return it


def shaped_sequence(rng):
    """2-6 exchanges; the hand-made shapes put a field that is present next to one where it is absent, in both orders."""
    k = rng.random()
    seq = [clean_interaction(rng) for _ in range(rng.choice([2, 3, 4, 6]))]
    a, b = seq[0], seq[1]
    if k < 0.2:       # body then no body (and content type then none)
        a["req_body"], b["req_body"] = rng.choice(BODIES[1:]), None
        a["req_headers"]["Content-Type"] = ["application/json"]
        b["req_headers"].pop("Content-Type", None)
        a["method"], b["method"] = "POST", "GET"
    elif k < 0.35:    # no body then body
        a["req_body"], b["req_body"] = None, rng.choice(BODIES)
    elif k < 0.5:     # response then network error, and the reverse
        if a["response"] is None:
            a["response"] = clean_with_response(rng)["response"]
        b["response"] = None
        if rng.random() < 0.5:
            seq[0], seq[1] = b, a
    elif k < 0.6:     # failed checks then no checks / not recorded checks
        a["checks"] = [("not_a_server_error", "Server error")]
        b["checks"] = rng.choice([None, []])
        if a["response"] is None:
            a["response"] = clean_with_response(rng)["response"]
    elif k < 0.7:     # cookies / redirects / query then none
        a["req_headers"]["Cookie"] = [rng.choice(COOKIE_VALUES)]
        a["uri"] = a["uri"].split("?")[0] + "?first=1"
        b["uri"] = b["uri"].split("?")[0]
        b["req_headers"].pop("Cookie", None)
        if a["response"] is not None:
            a["response"]["headers"].update({"set-cookie": [rng.choice(COOKIE_VALUES), "sid=2; Path=/"], "location": ["/next"]})
        if b["response"] is not None:
            b["response"]["headers"].pop("set-cookie", None)
            b["response"]["headers"].pop("location", None)
    elif k < 0.8:     # non-empty payload then empty payload
        if a["response"] is None:
            a["response"] = clean_with_response(rng)["response"]
        if b["response"] is None:
            b["response"] = clean_with_response(rng)["response"]
        a["response"]["content"], b["response"]["content"] = rng.choice(BODIES[1:]), b""
    for i, it in enumerate(seq):
        it["id"] = f"c{i}"
    # cut into 1-3 Process messages
    cuts = sorted(rng.sample(range(1, len(seq)), rng.choice([0, 1, 2]) if len(seq) > 2 else rng.choice([0, 1])))
    groups, prev = [], 0
    for c in cuts + [len(seq)]:
        groups.append(seq[prev:c])
        prev = c
    return seq, groups


def clean_with_response(rng):
    while True:
        it = clean_interaction(rng)
        if it["response"] is not None:
            return it


def write_both(groups, preserve):
    recs = [make_recorder(g)[0] for g in groups]
    vtext, vexc = run_writer("vcr", recs, False, preserve)
    htext, hexc = run_writer("har", recs, False, preserve)
    if vexc is not None or hexc is not None:
        return None, None, f"writer raised: vcr={vexc!r} har={hexc!r}"
    y = yaml_load(vtext)
    if y[0] != "ok":
        return None, None, f"cassette is not YAML ({y[1]})"
    try:
        har = json.loads(htext)
    except ValueError as exc:
        return None, None, f"HAR is not JSON ({exc})"
    return y[1].get("http_interactions") or [], har["log"]["entries"], None


def stage_sequences(chk, n):
    rng = chk.rng
    corpus = [unjsonable(json.loads(p.read_text())) for p in sorted((core.VERIF / "corpus" / "C16").glob("sequence_*.json"))]
    cases = [([x for g in c["groups"] for x in g], c["groups"], c["preserve"]) for c in corpus]
    for _ in range(n):
        seq, groups = shaped_sequence(rng)
        cases.append((seq, groups, rng.random() < 0.5))
    exprs = []
    for seq, _g, preserve in cases:
        xs = clist([c_xchg(i, it) for i, it in enumerate(seq)], "xchg")
        exprs.append(f"(har_loop {cbool(preserve)} hvars0 {xs}, vcr_loop {cbool(preserve)} vvars0 {xs})")
    model = core.coq_eval(IMPORTS, exprs, shard=40)
    stats = {"sequences": len(cases), "corpus": len(corpus), "entries": 0, "entries_equal_to_model_and_traffic": 0}
    for (seq, groups, preserve), (m_har, m_vcr) in zip(cases, model):
        for i, it in enumerate(seq):
            it["id"] = f"c{i}"
        case = {"groups": [[jsonable(it) for it in g] for g in groups], "preserve": preserve}
        shape = "".join(("B" if it["req_body"] is not None else "b") + ("R" if it["response"] is not None else "r") for it in seq)
        chk.seen(case, len({s for s in shape}) > 2)
        chk.count("sequence:bodies=" + "".join("1" if it["req_body"] is not None else "0" for it in seq)[:3])
        ventries, hentries, err = write_both(groups, preserve)
        if err is not None:
            chk.fail(f"writers on a clean sequence: {err}", case, None, region=None)
            continue
        if len(ventries) != len(seq) or len(hentries) != len(seq):
            chk.fail(f"{len(seq)} exchanges delivered, {len(ventries)} VCR / {len(hentries)} HAR entries written", case, None, region=None)
            continue
        stats["entries"] += len(seq)
        for i, it in enumerate(seq):
            ok = True
            # (a) correspondence: the writer loops against Model_C16.har_loop / vcr_loop (= map entry, C16_entries_are_pointwise)
            fh, mh = canon_file_har(hentries[i]), canon_model_har(m_har[i])
            if fh != mh:
                ok = False
                chk.disagree(f"har_writer entry {i} of a sequence vs Model_C16.har_loop", case, fh, mh)
            fv, mv = canon_file_vcr(ventries[i]), canon_model_vcr(m_vcr[i])
            if fv != mv:
                ok = False
                chk.disagree(f"vcr_writer entry {i} of a sequence vs Model_C16.vcr_loop", case, fv, mv)
            # (b) oracle, independent of the model: every field against the exchange that was delivered
            hd = compare_har({"log": {"entries": [hentries[i]]}}, [it], preserve)
            if hd:
                ok = False
                chk.fail(f"HAR entry {i} ({it['method']} {it['uri']}) is not the exchange that was delivered: {hd[0]['field']}", case, hd, region=None)
            vd = compare_vcr_entry(ventries[i], it, preserve)
            if ventries[i].get("id") != it["id"]:
                vd.append({"field": "id", "file": ventries[i].get("id"), "traffic": it["id"]})
            if vd:
                ok = False
                chk.fail(f"VCR entry {i} ({it['method']} {it['uri']}) is not the exchange that was delivered: {vd[0]['field']}", case, vd, region=None)
            # (c) oracle: the entry written in the sequence equals the entry written alone (all fields, also cookies, timings, sizes)
            alone_v, alone_h, err = write_both([[it]], preserve)
            if err is None and (har_rest(alone_h[0]) != har_rest(hentries[i]) or vcr_rest(alone_v[0]) != vcr_rest(ventries[i])):
                ok = False
                diff = [k for k in hentries[i] if k != "startedDateTime" and alone_h[0].get(k) != hentries[i].get(k)] + [k for k in ventries[i] if k != "recorded_at" and alone_v[0].get(k) != ventries[i].get(k)]
                chk.fail(f"entry {i} depends on the exchanges written before it (differs from the same exchange written alone in: {diff})", case,
                         {"alone": {k: alone_h[0].get(k) for k in diff if k in alone_h[0]}, "in_sequence": {k: hentries[i].get(k) for k in diff if k in hentries[i]}}, region=None)
            stats["entries_equal_to_model_and_traffic"] += ok
    chk.stages["sequences_entries_pointwise"] = stats


# ----------------------------------------------------------------------------------------
# stage: Statistic + JunitXMLHandler on event histories
# ----------------------------------------------------------------------------------------
LABELS = ["GET /u", "POST /u", "Stateful tests", "GET /items/{id}", "DELETE /u"]
STATUSES = ["StSuccess", "StFailure", "StFailure", "StFailure", "StError", "StSkip", "StInterrupted"]


def rand_history(rng):
    """[("scenario", label_idx, status, has_reason, [(case_no, [None | fkey, ...])]) | ("error", label_idx) | ("other",)] + finish"""
    h = []
    n_labels = rng.choice([1, 2, 2, 3, 5])
    n_keys = rng.choice([1, 2, 3, 6])
    case_no = 0
    for _ in range(rng.choice([1, 2, 3, 4, 6, 9])):
        k = rng.random()
        if k < 0.8:
            cases = []
            for _ in range(rng.choice([0, 1, 1, 2, 3])):
                case_no += 1
                checks = [rng.choice([None, None, rng.randrange(n_keys)]) for _ in range(rng.choice([0, 1, 2, 4]))]
                cases.append((case_no, checks))
            status = rng.choice(STATUSES)
            if status == "StFailure" and rng.random() < 0.7 and cases and not any(c is not None for _, cs in cases for c in cs):
                cases[-1] = (cases[-1][0], cases[-1][1] + [rng.randrange(n_keys)])
            h.append(("scenario", rng.randrange(n_labels), status, rng.random() < 0.5, cases))
        elif k < 0.9:
            h.append(("error", rng.randrange(n_labels)))
        else:
            h.append(("other",))
    if rng.random() < 0.9:
        h.append(("finish",))
    return h


def c_history(h):
    evs = []
    for e in h:
        if e[0] == "scenario":
            _, l, st, reason, cases = e
            cs = clist(["{| c_id := %d; c_checks := %s |}" % (no, clist(["None" if c is None else f"(Some {c}%N)" for c in checks], "(option fkey)")) for no, checks in cases], "case_rec")
            evs.append(f"ScenarioFinished {{| r_label := {l}; r_cases := {cs} |}} {st} {cbool(reason)}")
        elif e[0] == "error":
            evs.append(f"NonFatalError {e[1]}")
        elif e[0] == "finish":
            evs.append("EngineFinished")
        else:
            evs.append("OtherEvent")
    return clist(evs, "event")


def failure_for(key, label_idx):
    """Failure identity = (class, operation, message): key k is always the same class/operation/message, whatever label finds it."""
    from schemathesis.core.failures import Failure, ServerError

    cls = [ServerError, Failure][key % 2]
    return cls(operation=f"OP {key // 2}", title="Server error" if cls is ServerError else "Undocumented HTTP status code", message=f"m{key}", **({"status_code": 500} if cls is ServerError else {}))


def run_history_impl(h):
    """The real Statistic + JunitXMLHandler over the history. Returns a canonical dict."""
    from schemathesis.cli.commands.run.context import ExecutionContext
    from schemathesis.cli.commands.run.handlers.junitxml import JunitXMLHandler
    from schemathesis.core.transport import Response
    from schemathesis.engine import Status, events
    from schemathesis.engine.phases import PhaseName
    from schemathesis.engine.recorder import Interaction, Request, ScenarioRecorder

    status_of = {"StSuccess": Status.SUCCESS, "StFailure": Status.FAILURE, "StError": Status.ERROR, "StSkip": Status.SKIP, "StInterrupted": Status.INTERRUPTED}
    sink = io.StringIO()
    ctx = ExecutionContext()
    handler = JunitXMLHandler(file_handle=sink)  # type: ignore[arg-type]
    crash = None
    for e in h:
        if e[0] == "scenario":
            _, l, st, reason, cases = e
            rec = ScenarioRecorder(label=LABELS[l])
            for no, checks in cases:
                cid = f"case{no}"
                rec.cases[cid] = SimpleNamespace(value=SimpleNamespace(id=cid, operation=SimpleNamespace(label=LABELS[l]), meta=None), parent_id=None, transition=None)  # type: ignore[assignment]
                resp = Response(status_code=500, headers={"content-type": ["application/json"]}, content=b'{"x": "\xc3\xa9 <&> ]]>"}', request=SimpleNamespace(method="GET", url="http://h/u", headers={}, body=None),  # type: ignore[arg-type]
                                elapsed=0.1, verify=True, message="Internal Server Error")
                rec.interactions[cid] = Interaction(request=Request(method="GET", uri="http://h/u", body=None, body_size=None, headers={}), response=resp)
                for i, c in enumerate(checks):
                    if c is None:
                        rec.record_check_success(name=f"check{i}", case_id=cid)
                    else:
                        rec.record_check_failure(name=f"check{i}", case_id=cid, code_sample="curl -X GET 'http://h/u'", failure=failure_for(c, l))
            ev = events.ScenarioFinished(id=uuid.uuid4(), phase=PhaseName.FUZZING, suite_id=uuid.uuid4(), label=LABELS[l], status=status_of[st], recorder=rec,
                                         elapsed_time=0.5, skip_reason="no data <&>" if reason else None, is_final=False)
        elif e[0] == "error":
            ev = events.NonFatalError(error=ValueError("boom <&> \x00"), phase=PhaseName.FUZZING, label=LABELS[e[1]], related_to_operation=True)
        elif e[0] == "finish":
            ev = events.EngineFinished(running_time=1.0)
        else:
            ev = events.EngineStarted()
        try:
            ctx.on_event(ev)
            handler.handle_event(ctx, ev)
        except KeyError as exc:
            crash = exc.args[0]
            break
    out = {"crash": crash, "xml": sink.getvalue()}
    out["failures"] = {label: {cid: sorted(f.message for f in g.failures) for cid, g in groups.items()} for label, groups in ctx.statistic.failures.items()}
    out["unique"] = sorted(f.message for f in ctx.statistic.unique_failures_map)
    out["test_cases"] = list(handler.test_cases)
    return out


def canon_model_run(m, LABELS=LABELS):
    """Parsed jresult -> canonical dict comparable with run_history_impl."""
    if isinstance(m, tuple) and m[0] == "Crash":
        return {"crash": LABELS[m[1]]}
    assert m[0] == "Running", m
    s, t, w = m[1], m[2], m[3]
    out = {"crash": None}
    out["failures"] = {LABELS[l]: {f"case{cid}": sorted(f"m{k}" for k in ks) for cid, ks in groups} for l, groups in s["failures"]}
    out["unique"] = sorted(f"m{k}" for k in s["unique"])
    out["test_cases"] = [LABELS[l] for l, _ in t]
    # one failure element per add_failure call; an empty group list = the "already reported" message
    out["written"] = None if w is None else [(LABELS[l], [len(g) == 0 for g in tc["t_failures"]], tc["t_skipped"], tc["t_errors"]) for l, tc in popt(w)]
    return out


ALREADY_REPORTED = "The failures found in this test were already reported for another test"


def parse_junit(xml_text):
    root = ET.fromstring(xml_text)
    out = []
    for tc in root.iter("testcase"):
        out.append((tc.get("name"), [(f.get("message") or "").startswith(ALREADY_REPORTED) for f in tc.findall("failure")], len(tc.findall("skipped")), len(tc.findall("error"))))
    return out


def stage_junit(chk, n):
    rng = chk.rng
    corpus = [json.loads(p.read_text())["history"] for p in sorted((core.VERIF / "corpus" / "C16").glob("history_*.json"))]
    hs = [[tuple(e) for e in h] for h in corpus]
    hs += [rand_history(rng) for _ in range(n)]
    model = core.coq_eval(IMPORTS, [f"(junit_run {c_history(h)}, fresh_failure_or_known_label {c_history(h)}, junit_crashes_old {c_history(h)})" for h in hs])
    crashes = 0
    rediscovered = 0
    for h, (m, m_region, m_old_crash) in zip(hs, model):
        case = {"history": h}
        impl = run_history_impl(h)
        mod = canon_model_run(m)
        has_failure_event = any(e[0] == "scenario" and e[2] == "StFailure" for e in h)
        chk.seen(case, has_failure_event)
        chk.count("history:" + ("outside-old-region" if not m_region else "inside-old-region"))
        # sentinel theorem C16_junit_old_handler_crashes_iff, evaluated
        if m_old_crash is not (not m_region):
            chk.disagree("evaluated theorem C16_junit_old_handler_crashes_iff", case, m_old_crash, m_region)
        if mod["crash"] is not None:
            chk.disagree("evaluated theorem C16_junit_never_crashes", case, None, mod["crash"])
        if impl["crash"] is not None:
            crashes += 1
            chk.fail(f"JUnit handler raises KeyError({impl['crash']!r}): the run aborts", case, None, region=None)
            continue
        rediscovered += not m_region
        for key in ("failures", "unique", "test_cases"):
            if impl[key] != mod.get(key):
                chk.disagree(f"Statistic / JunitXMLHandler state ({key}) vs Model_C16", case, impl[key], mod.get(key))
        finished = any(e[0] == "finish" for e in h)
        if finished:
            try:
                got = parse_junit(impl["xml"])
            except ET.ParseError as exc:
                chk.fail(f"JUnit report is not XML: {exc}", case, impl["xml"][:400], region=None)
                continue
            if got != mod["written"]:
                chk.disagree("JUnit file (testcase, failure elements, #skipped, #error) vs Model_C16 written test cases", case, got, mod["written"])
            # oracle (theorem C16_junit_failure_is_reported on the file): every FAILURE-status scenario before the end shows as a failure
            by_name = {name: fails for name, fails, _s, _e in got}
            seen_finish = False
            for e in h:
                if e[0] == "finish":
                    seen_finish = True
                if e[0] == "scenario" and e[2] == "StFailure" and not seen_finish and not by_name.get(LABELS[e[1]]):
                    chk.fail(f"a FAILURE scenario of {LABELS[e[1]]!r} has no failure element in junit.xml", case, got, region=None)
        elif mod.get("written") is not None or impl["xml"]:
            chk.disagree("JUnit file written without EngineFinished", case, impl["xml"][:100], mod.get("written"))
    chk.stages["junit_state_machine"] = {"histories": len(hs), "corpus": len(corpus), "keyerror_crashes": crashes, "histories_the_old_handler_crashed_on": rediscovered}


# ----------------------------------------------------------------------------------------
# stage: CassetteWriter (thread + queue) on histories
# ----------------------------------------------------------------------------------------
def rand_chistory(rng):
    h = []
    no = 0
    for _ in range(rng.choice([1, 2, 3, 5])):
        if rng.random() < 0.2:
            h.append(None)
            continue
        ints = []
        for _ in range(rng.choice([0, 1, 2, 4])):
            no += 1
            ints.append({"id": no, "userinfo": rng.random() < 0.15, "response": rng.random() < 0.85, "codec": rng.choice(["ok"] * 8 + ["unknown", "unknown", "raises"]),
                         "cookies": [rng.choice(COOKIE_VALUES) for _ in range(rng.choice([0, 0, 1, 2]))]})
        h.append(ints)
    return h


def c_chistory(h):
    evs = []
    for e in h:
        if e is None:
            evs.append("COther")
        else:
            evs.append("CScenario " + clist(["{| i_id := %d; i_userinfo := %s; i_response := %s; i_codec := %s; i_cookie_values := %s |}" % (
                i["id"], cbool(i["userinfo"]), cbool(i["response"]), {"ok": "CodecOk", "unknown": "CodecUnknown", "raises": "CodecRaises"}[i["codec"]],
                clist([cstr(v) for v in i.get("cookies", [])], "str")) for i in e], "inter"))
    return clist(evs, "cevent")


def event_attrs(ints):
    """The attributes of the ScenarioFinished event that an item of a REDUCED history (a list of interactions) stands for.  They are a
    function of the item, so a history always gives the same events (replays), and the stages that work on reduced histories still
    put every value of phase / label / status / skip_reason / is_final in front of the handler (theorem
    C16_each_interaction_once_all_events_*: none of them matters)."""
    from schemathesis.engine import Status
    from schemathesis.engine.phases import PhaseName

    k = sum(i["id"] for i in ints) + 3 * len(ints)
    phase = [PhaseName.FUZZING, PhaseName.STATEFUL_TESTING, PhaseName.COVERAGE, PhaseName.EXAMPLES][k % 4]
    return {"phase": phase, "label": None if phase is PhaseName.STATEFUL_TESTING else "GET /x", "status": list(Status)[(k // 2) % 5],
            "is_final": (k // 3) % 2 == 1, "skip_reason": "why <&>" if k % 5 == 0 else None}


def run_cassette_thread(fmt, sanitize, preserve, h):
    """The real CassetteWriter handler with its thread. Returns (ids written, 'Closed' | 'Died' | 'Waiting')."""
    from schemathesis.cli.commands.run.context import ExecutionContext
    from schemathesis.cli.commands.run.handlers.cassettes import CassetteWriter
    from schemathesis.cli.commands.run.reports import ReportFormat
    from schemathesis.engine import Status, events
    from schemathesis.engine.phases import PhaseName

    died = []
    saved_hook = threading.excepthook
    threading.excepthook = lambda args: died.append(args.exc_type.__name__)
    sink = Sink()
    closed = []
    sink.close = lambda: closed.append(True)  # type: ignore[method-assign]
    try:
        w = CassetteWriter(format=ReportFormat.HAR if fmt == "HAR" else ReportFormat.VCR, path=sink, sanitize_output=sanitize, preserve_bytes=preserve)  # type: ignore[arg-type]
        ctx = ExecutionContext(seed=1)
        w.start(ctx)
        for e in h:
            if e is None:
                w.handle_event(ctx, events.EngineFinished(running_time=0.1) if False else events.NonFatalError(error=ValueError("x"), phase=PhaseName.FUZZING, label="l", related_to_operation=False))
                continue
            inters = []
            for i in e:
                inters.append({"id": f"i{i['id']}", "uri": f"http://{'u:p@' if i['userinfo'] else ''}127.0.0.1/x", "method": "GET", "req_headers": {"A": ["b"], **({"Cookie": list(i["cookies"])} if i.get("cookies") else {})}, "req_body": None, "meta": "fuzzing", "checks": [],
                               "response": None if not i["response"] else {"status": 200, "message": "OK", "headers": {"content-type": ["text/plain"]}, "content": b"x", "encoding": {"ok": "utf-8", "unknown": "bogus", "raises": "undefined"}[i["codec"]], "http_version": "1.1"}})
            rec, _ = make_recorder(inters)
            w.handle_event(ctx, events.ScenarioFinished(id=uuid.uuid4(), suite_id=uuid.uuid4(), recorder=rec, elapsed_time=0.1, **event_attrs(e)))
        w.shutdown(ctx)
        w.worker.join(10)
        alive = w.worker.is_alive()
    finally:
        threading.excepthook = saved_hook
    text = sink.buf.getvalue()
    if fmt == "HAR":
        try:
            ids = [e["request"]["url"] for e in json.loads(text)["log"]["entries"]] if text else []
            ids = None if ids is None else len(ids)
        except ValueError:
            ids = "unparseable"
    else:
        y = yaml_load(text)
        ids = [(e["id"], e["response"] is None or "http_version" in e["response"]) for e in (y[1].get("http_interactions") or [])] if y[0] == "ok" else "unparseable"
    end = "Waiting" if alive else ("Died" if died else "Closed")
    return ids, end, died


def stage_cassette_thread(chk, n):
    rng = chk.rng
    cases = []
    for _ in range(n):
        cases.append((rng.choice(["VCR", "HAR"]), rng.random() < 0.6, rng.random() < 0.4, rand_chistory(rng)))
    model = core.coq_eval(IMPORTS, [
        f"(written {{| w_fmt := {fmt}; w_sanitize := {cbool(san)}; w_preserve := {cbool(pres)} |}} {c_chistory(h)}, delivered {c_chistory(h)})" for fmt, san, pres, h in cases])
    lost = {}
    for (fmt, san, pres, h), (m_ids, m_end, m_deliv) in zip(cases, model):
        case = {"format": fmt, "sanitize": san, "preserve": pres, "history": h}
        ids, end, died = run_cassette_thread(fmt, san, pres, h)
        chk.seen(case, True)
        chk.count(f"cassette:{fmt}:{end}")
        exp_ids = [(f"i{k}", done) for k, done in m_ids]
        if fmt == "HAR":
            # harfile writes the closing brackets only on a clean exit: after a crash the file is not JSON
            impl = (ids if end == "Closed" else None, end)
            mod = (len(exp_ids) if m_end == "Closed" else None, m_end)
        else:
            impl, mod = (ids, end), (exp_ids, m_end)
        if impl != mod:
            chk.disagree("CassetteWriter thread (entries written, end state) vs Model_C16.written", case, [impl, died], mod)
            continue
        delivered = [f"i{k}" for k in m_deliv]
        if end != "Closed" or (fmt == "VCR" and ids != [(d, True) for d in delivered]) or (fmt == "HAR" and ids != len(delivered)):
            region = None if fmt == "HAR" else "codec_decode_raises"
            lost[region] = lost.get(region, 0) + 1
            chk.fail(f"{fmt} writer thread died ({died}): delivered exchanges are missing from the file", case, {"written": ids, "delivered": delivered}, region=region)
    chk.stages["cassette_thread"] = {"histories": len(cases), "histories_with_lost_exchanges_inside_regions": lost}


# ----------------------------------------------------------------------------------------
# stage: the handlers over WHOLE ScenarioFinished events (Model_C16 Part 6: written_ev, junit_run_ev)
# ----------------------------------------------------------------------------------------
LABELS_EV = LABELS + ["Error"]
# charset classes of a recorded response (Model_C16 codec): since 22e8a9e1 (C16-F11 repaired) unknown and raising charsets are ordinary
# inputs of the JUnit handler and are drawn often; badname = a charset name with a NUL character (ValueError, what is left: C16-F12)
CODEC_DRAW = ["ok"] * 8 + ["unknown"] * 3 + ["raises"] * 2 + ["badname"]
CODEC_COQ = {"ok": "CodecOk", "unknown": "CodecUnknown", "raises": "CodecRaises", "badname": "CodecBadName"}
CODEC_ENCODING = {"ok": "utf-8", "unknown": "bogus", "raises": "undefined", "badname": "a\x00b"}
PHASES_EV = {"probing": "PhProbing", "examples": "PhExamples", "coverage": "PhCoverage", "fuzzing": "PhFuzzing", "stateful": "PhStateful"}
TCID = "X-Schemathesis-TestCaseId"


def rand_fhistory(rng):
    """Event histories over the full attribute space of ScenarioFinished.
    [("scenario", {phase, label: None | idx, status, reason, final, rlabel, cases: [{no, checks, response, codec}]}) | ("error", idx) | ("other",) | ("finish",)].
    Shapes: attributes drawn independently; a stateful run whose failing sequence is replayed as a final scenario with fresh case ids;
    a unit phase with the final ERROR event of an operation that could not be built (empty recorder labelled Error); everything final."""
    shape = rng.choice(["independent", "independent", "independent", "stateful-replay", "stateful-replay", "unit-error", "all-final"])
    n_keys = rng.choice([1, 2, 3])
    no = 0

    def cases(n, fault_last=False):
        nonlocal no
        out = []
        for k in range(n):
            no += 1
            response = not (fault_last and k == n - 1) and rng.random() < (1.0 if fault_last else 0.85)
            checks = [rng.choice([None, None, rng.randrange(n_keys)]) for _ in range(rng.choice([0, 1, 2]))] if response else []
            out.append({"no": no, "checks": checks, "response": response, "codec": rng.choice(CODEC_DRAW) if response else "ok"})
        return out

    def scenario(**kw):
        phase = kw.get("phase", rng.choice(list(PHASES_EV)))
        rlabel = kw.get("rlabel", 2 if phase == "stateful" and rng.random() < 0.8 else rng.randrange(len(LABELS_EV)))
        ev = {"phase": phase, "rlabel": rlabel,
              "label": kw["label"] if "label" in kw else rng.choice([None, rlabel, rlabel, rng.randrange(len(LABELS_EV))]),
              "status": kw.get("status", rng.choice(STATUSES)), "reason": kw.get("reason", rng.random() < 0.4),
              "final": kw.get("final", rng.random() < 0.45), "cases": kw["cases"] if "cases" in kw else cases(rng.choice([0, 1, 1, 2, 3]))}
        if ev["status"] == "StFailure" and ev["cases"] and rng.random() < 0.7:
            c = next((c for c in ev["cases"] if c["response"]), None)
            if c is not None and not any(k is not None for k in c["checks"]):
                c["checks"] = c["checks"] + [rng.randrange(n_keys)]
        return ("scenario", ev)

    h = []
    if shape == "stateful-replay":
        steps = rng.choice([2, 2, 3])
        for _ in range(rng.choice([1, 2, 3])):
            ok = rng.random() < 0.4
            h.append(scenario(phase="stateful", label=None, rlabel=2, final=False, status="StSuccess" if ok else rng.choice(["StError", "StError", "StFailure", "StSkip"]),
                              reason=False, cases=cases(steps, fault_last=not ok)))
        h.append(scenario(phase="stateful", label=None, rlabel=2, final=True, status=rng.choice(["StError", "StError", "StFailure"]), reason=False, cases=cases(steps, fault_last=True)))
        if rng.random() < 0.7:
            h.append(("error", 2))
    elif shape == "unit-error":
        for _ in range(rng.choice([1, 2, 4])):
            l = rng.randrange(len(LABELS))
            if rng.random() < 0.35:
                h.append(("error", l))
                h.append(scenario(phase=rng.choice(["examples", "coverage", "fuzzing"]), label=l, rlabel=len(LABELS), final=True, status="StError", reason=False, cases=[]))
            else:
                h.append(scenario(phase=rng.choice(["examples", "coverage", "fuzzing"]), label=l, rlabel=l, final=False))
    else:
        for _ in range(rng.choice([1, 2, 3, 5, 8])):
            k = rng.random()
            if k < 0.8:
                h.append(scenario(final=True) if shape == "all-final" else scenario())
            elif k < 0.9:
                h.append(("error", rng.randrange(len(LABELS_EV))))
            else:
                h.append(("other",))
    if rng.random() < 0.9:
        h.append(("finish",))
    return h


def c_fhistory(h):
    evs = []
    for e in h:
        if e[0] == "scenario":
            ev = e[1]
            cs = clist(["{| c_id := %d; c_checks := %s |}" % (c["no"], clist(["None" if k is None else f"(Some {k}%N)" for k in c["checks"]], "(option fkey)")) for c in ev["cases"]], "case_rec")
            ints = clist(["{| i_id := %d; i_userinfo := false; i_response := %s; i_codec := %s; i_cookie_values := [] |}" % (
                c["no"], cbool(c["response"]), CODEC_COQ[c["codec"]]) for c in ev["cases"]], "inter")
            evs.append("FScenario {| sf_phase := %s; sf_label := %s; sf_status := %s; sf_skip_reason := %s; sf_is_final := %s; sf_rlabel := %d; sf_cases := %s; sf_inters := %s |}" % (
                PHASES_EV[ev["phase"]], "None" if ev["label"] is None else f"(Some {ev['label']}%N)", ev["status"], cbool(ev["reason"]), cbool(ev["final"]), ev["rlabel"], cs, ints))
        elif e[0] == "error":
            evs.append(f"FNonFatal {e[1]}")
        elif e[0] == "finish":
            evs.append("FEngineFinished")
        else:
            evs.append("FOther")
    return clist(evs, "fevent")


def build_fevent(e):
    """The real engine event of one history item, its recorder built from real Request / Response / Interaction objects."""
    from schemathesis.core.transport import Response
    from schemathesis.engine import Status, events
    from schemathesis.engine.phases import PhaseName
    from schemathesis.engine.recorder import Interaction, Request, ScenarioRecorder

    if e[0] == "error":
        return events.NonFatalError(error=ValueError("boom <&>"), phase=PhaseName.FUZZING, label=LABELS_EV[e[1]], related_to_operation=True)
    if e[0] == "finish":
        return events.EngineFinished(running_time=1.0)
    if e[0] == "other":
        return events.EngineStarted()
    ev = e[1]
    status_of = {"StSuccess": Status.SUCCESS, "StFailure": Status.FAILURE, "StError": Status.ERROR, "StSkip": Status.SKIP, "StInterrupted": Status.INTERRUPTED}
    rlabel = LABELS_EV[ev["rlabel"]]
    rec = ScenarioRecorder(label=rlabel)
    for c in ev["cases"]:
        cid = f"case{c['no']}"
        meta = make_meta({"meta": "stateful" if ev["phase"] == "stateful" else "fuzzing"})
        rec.cases[cid] = SimpleNamespace(value=SimpleNamespace(id=cid, operation=SimpleNamespace(label=rlabel), meta=meta), parent_id=None, transition=None)  # type: ignore[assignment]
        uri = f"http://127.0.0.1/x?i={cid}"
        resp = None
        if c["response"]:
            resp = Response(status_code=500, headers={"content-type": ["text/plain"]}, content=b'x \xc3\xa9 <&> ]]>', request=SimpleNamespace(method="GET", url=uri, headers={}, body=None),  # type: ignore[arg-type]
                            elapsed=0.1, verify=True, message="Internal Server Error", http_version="1.1", encoding=CODEC_ENCODING[c["codec"]])
        rec.interactions[cid] = Interaction(request=Request(method="GET", uri=uri, body=None, body_size=None, headers={TCID: [cid], "A": ["b"]}), response=resp)
        if resp is not None:
            rec.checks[cid] = []
            for i, k in enumerate(c["checks"]):
                if k is None:
                    rec.record_check_success(name=f"check{i}", case_id=cid)
                else:
                    rec.record_check_failure(name=f"check{i}", case_id=cid, code_sample=f"curl -X GET '{uri}'", failure=failure_for(k, ev["rlabel"]))
            if not c["checks"]:
                del rec.checks[cid]
    return events.ScenarioFinished(id=uuid.uuid4(), phase={"probing": PhaseName.PROBING, "examples": PhaseName.EXAMPLES, "coverage": PhaseName.COVERAGE, "fuzzing": PhaseName.FUZZING,
                                                          "stateful": PhaseName.STATEFUL_TESTING}[ev["phase"]], suite_id=uuid.uuid4(),
                                   label=None if ev["label"] is None else LABELS_EV[ev["label"]], status=status_of[ev["status"]], recorder=rec, elapsed_time=0.5,
                                   skip_reason="no data <&>" if ev["reason"] else None, is_final=ev["final"])


def run_fhistory(h, sanitize, preserve):
    """The history through ExecutionContext.on_event and the three REAL report handlers, in the order of executor._execute.
    Returns what is in vcr.yaml, har.json, junit.xml after shutdown, re-parsed, and what was delivered (read from the event objects)."""
    from schemathesis.cli.commands.run.context import ExecutionContext
    from schemathesis.cli.commands.run.handlers.cassettes import CassetteWriter
    from schemathesis.cli.commands.run.handlers.junitxml import JunitXMLHandler
    from schemathesis.cli.commands.run.reports import ReportFormat
    from schemathesis.engine import events

    died = []
    saved_hook = threading.excepthook
    threading.excepthook = lambda args: died.append((args.thread, args.exc_type.__name__))
    sinks = {"VCR": Sink(), "HAR": Sink()}
    for snk in sinks.values():
        snk.close = lambda: None  # type: ignore[method-assign]
    xml = io.StringIO()
    out = {"crash": None}
    try:
        ctx = ExecutionContext(seed=1)
        writers = {fmt: CassetteWriter(format=ReportFormat.HAR if fmt == "HAR" else ReportFormat.VCR, path=sinks[fmt], sanitize_output=sanitize, preserve_bytes=preserve)  # type: ignore[arg-type]
                   for fmt in ("VCR", "HAR")}
        junit = JunitXMLHandler(file_handle=xml)  # type: ignore[arg-type]
        handlers = [writers["VCR"], writers["HAR"], junit]
        evs = [build_fevent(e) for e in h]
        at = None
        try:
            for hd in handlers:
                hd.start(ctx)
            for ev in evs:
                ctx.on_event(ev)
                for hd in handlers:
                    at = type(hd).__name__
                    hd.handle_event(ctx, ev)
        except Exception as exc:  # noqa: BLE001  (_execute re-raises: the run aborts)
            out["crash"] = f"{type(exc).__name__}: {exc}"
            out["crash_in"] = at
        finally:
            for hd in handlers:
                hd.shutdown(ctx)
        for w in writers.values():
            w.worker.join(10)
        out["end"] = {fmt: "Waiting" if w.worker.is_alive() else "Died" if any(th is w.worker for th, _ in died) else "Closed" for fmt, w in writers.items()}
        out["died"] = [name for _, name in died]
    finally:
        threading.excepthook = saved_hook
    out["delivered"] = [(cid, i) for i, ev in enumerate(evs) if isinstance(ev, events.ScenarioFinished) for cid in ev.recorder.interactions]
    y = yaml_load(sinks["VCR"].buf.getvalue())
    out["VCR"] = [(e["id"], e["response"] is None or "http_version" in e["response"]) for e in (y[1].get("http_interactions") or [])] if y[0] == "ok" and isinstance(y[1], dict) else "unparseable"
    try:
        entries = json.loads(sinks["HAR"].buf.getvalue())["log"]["entries"]
        out["HAR"] = [(next((hd["value"] for hd in e["request"]["headers"] if hd["name"] == TCID), None), True) for e in entries]
    except (ValueError, KeyError):
        out["HAR"] = "unparseable"
    out["xml"] = xml.getvalue()
    out["failures"] = {label: {cid: sorted(f.message for f in g.failures) for cid, g in groups.items()} for label, groups in ctx.statistic.failures.items()}
    out["unique"] = sorted(f.message for f in ctx.statistic.unique_failures_map)
    out["test_cases"] = list(junit.test_cases)
    return out


def stage_event_space(chk, n):
    rng = chk.rng
    corpus = [json.loads(p.read_text()) for p in sorted((core.VERIF / "corpus" / "C16").glob("events_*.json"))]
    cases = [([tuple(e) for e in c["history"]], c.get("sanitize", False), c.get("preserve", False)) for c in corpus]
    cases += [(rand_fhistory(rng), rng.random() < 0.5, rng.random() < 0.4) for _ in range(n)]
    # a NUL character in the charset with --report-preserve-bytes lands in encoding: '...' of the cassette (C16-F9's region, stage writers): text mode here
    cases = [(h, san, pres and not any(c["codec"] == "badname" for e in h if e[0] == "scenario" for c in e[1]["cases"])) for h, san, pres in cases]
    exprs = []
    for h, san, pres in cases:
        ch = c_fhistory(h)
        conf = "{| w_fmt := %s; w_sanitize := " + cbool(san) + "; w_preserve := " + cbool(pres) + " |}"
        exprs.append(f"(let h := {ch} in (written_ev ({conf % 'VCR'}) h, written_ev ({conf % 'HAR'}) h, delivered_ev h, junit_run_ev h, lost_by skip_final h))")
    model = core.coq_eval(IMPORTS, exprs)
    stats = {"histories": len(cases), "corpus": len(corpus), "scenario_events": 0, "final_events_with_interactions": 0, "events_without_label": 0,
             "histories_the_skip_final_rule_would_cut": 0, "lost_inside_regions": {}, "aborted_runs_inside_regions": {},
             "responses_by_charset_class": {}, "failure_events_rendering_an_unknown_or_raising_charset": 0}
    # Coq prints left-nested pairs flat: ((a, b), c, d) comes back as (a, b, c, d)
    for (h, san, pres), (m_vcr_ids, m_vcr_end, m_har, m_deliv, m_junit, m_lost_sentinel) in zip(cases, model):
        m_vcr = (m_vcr_ids, m_vcr_end)
        case = {"history": h, "sanitize": san, "preserve": pres}
        scen = [e[1] for e in h if e[0] == "scenario"]
        stats["scenario_events"] += len(scen)
        stats["final_events_with_interactions"] += sum(1 for ev in scen if ev["final"] and ev["cases"])
        stats["events_without_label"] += sum(1 for ev in scen if ev["label"] is None)
        stats["histories_the_skip_final_rule_would_cut"] += bool(m_lost_sentinel)
        chk.seen(case, any(ev["final"] and ev["cases"] for ev in scen))
        for ev in scen:
            chk.count(f"event:{ev['phase']}:{'final' if ev['final'] else 'not-final'}:{'no-label' if ev['label'] is None else 'label'}")
        impl = run_fhistory(h, san, pres)
        m_abort = m_junit[1] if m_junit[0] == "Aborted" else None
        for c in (c for ev in scen for c in ev["cases"] if c["response"]):
            stats["responses_by_charset_class"][c["codec"]] = stats["responses_by_charset_class"].get(c["codec"], 0) + 1
        if any(ev["status"] == "StFailure" and any(c["response"] and c["codec"] in ("unknown", "raises") for c in ev["cases"]) for ev in scen) and impl["crash"] is None:
            stats["failure_events_rendering_an_unknown_or_raising_charset"] += 1
        if impl["crash"] is not None or m_abort is not None:
            # format_failures reads response.text inside try / except (UnicodeError, LookupError) since 22e8a9e1 (Model_C16 junit_step_ev_c,
            # catches_unicode_and_lookup): an unknown charset or a raising codec must NOT leave the handler any more (C16-F11, fixed: a crash of that
            # kind is a failing input outside every region); the ValueError for a charset name with a NUL character still does (C16-F12)
            kind = impl["crash"].split(":")[0] if impl["crash"] else None
            text_abort = kind in ("LookupError", "UnicodeError", "ValueError") and impl.get("crash_in") == "JunitXMLHandler"
            if text_abort != (m_abort is not None and m_abort[0] == "AbortText"):
                chk.disagree("JunitXMLHandler aborts the run while rendering a failure (response.text raises) vs Model_C16.junit_run_ev", case, [impl["crash"], impl.get("crash_in")], m_abort)
            if impl["crash"] is not None:
                bad_name = any(c["response"] and c["codec"] == "badname" for ev in scen for c in ev["cases"])
                region = "junit_failure_text_bad_charset_name" if text_abort and kind == "ValueError" and "null character" in impl["crash"] and bad_name else None
                stats["aborted_runs_inside_regions"][str(region)] = stats["aborted_runs_inside_regions"].get(str(region), 0) + 1
                charsets = sorted({CODEC_ENCODING[c["codec"]] for ev in scen for c in ev["cases"] if c["response"] and c["codec"] != "ok"})
                chk.fail(f"{impl.get('crash_in')} raised {impl['crash']}: the run aborts (Internal Error), junit.xml is not written (response charsets in the history: {charsets})", case, None, region=region)
            continue
        delivered = [cid for cid, _ in impl["delivered"]]
        if delivered != [f"case{k}" for k in m_deliv]:
            chk.disagree("interactions of the recorders handed to the handlers vs Model_C16.delivered_ev", case, delivered, m_deliv)
            continue
        # (a) correspondence: the files vs the model of the handler + writer
        for fmt, (m_ids, m_end) in (("VCR", m_vcr), ("HAR", m_har)):
            exp = [(f"case{k}", done) for k, done in m_ids]
            if fmt == "HAR":
                got, want = (impl["HAR"] if impl["end"]["HAR"] == "Closed" else None, impl["end"]["HAR"]), (exp if m_end == "Closed" else None, m_end)
            else:
                got, want = (impl["VCR"], impl["end"]["VCR"]), (exp, m_end)
            if got != want:
                chk.disagree(f"CassetteWriter.handle_event + {fmt} writer over whole ScenarioFinished events (ids in the file, end state) vs Model_C16.written_ev", case, [got, impl["died"]], want)
        # (b) oracle, from the event objects only: every interaction of every delivered recorder is in each file exactly once
        for fmt in ("VCR", "HAR"):
            ids = impl[fmt]
            if impl["end"][fmt] == "Closed" and ids != "unparseable" and [i for i, _ in ids] == delivered and all(done for _, done in ids):
                continue
            raising = fmt == "VCR" and not pres and any(c["response"] and c["codec"] in ("raises", "badname") for ev in scen for c in ev["cases"])
            region = "codec_decode_raises" if raising and impl["end"][fmt] == "Died" else None
            stats["lost_inside_regions"][str(region)] = stats["lost_inside_regions"].get(str(region), 0) + 1
            in_file = {} if ids == "unparseable" else {i: sum(1 for j, _ in ids if j == i) for i, _ in ids}
            missing = [(cid, h[idx][1]) for cid, idx in impl["delivered"] if in_file.get(cid, 0) == 0]
            events_lost = []
            for cid, ev in missing:
                d = {"phase": ev["phase"], "is_final": ev["final"], "status": ev["status"], "label": None if ev["label"] is None else LABELS_EV[ev["label"]], "recorder_label": LABELS_EV[ev["rlabel"]]}
                if d not in events_lost:
                    events_lost.append(d)
            what = (f"{fmt} report: {len(missing)} of {len(delivered)} interactions that were delivered to the handler are not in the file" if missing and impl["end"][fmt] == "Closed"
                    else f"{fmt} report: the writer thread ended {impl['end'][fmt]} ({impl['died']}), the file does not hold every delivered interaction exactly once")
            if region is None:
                stats["failing_histories_outside_regions"] = stats.get("failing_histories_outside_regions", 0) + 1
                if stats["failing_histories_outside_regions"] > 4:
                    continue  # four concrete histories are reported, the rest is counted
            chk.fail(what + (f"; their events: {events_lost[:3]}" if events_lost and region is None else ""), case,
                     {"delivered": delivered, "in_the_file": ids, "missing": [cid for cid, _ in missing], "duplicated": [i for i, k in in_file.items() if k > 1], "events_of_the_missing": events_lost}, region=region)
        # (c) JUnit: state and file vs junit_run_ev; oracle: every FAILURE event leaves a failure element under its recorder label
        mod = canon_model_run(("Running",) + tuple(m_junit[1:4]), LABELS_EV)
        for key in ("failures", "unique", "test_cases"):
            if impl[key] != mod.get(key):
                chk.disagree(f"Statistic / JunitXMLHandler state ({key}) over whole events vs Model_C16.junit_run_ev", case, impl[key], mod.get(key))
        if any(e[0] == "finish" for e in h):
            try:
                got = parse_junit(impl["xml"])
            except ET.ParseError as exc:
                chk.fail(f"JUnit report is not XML: {exc}", case, impl["xml"][:400], region=None)
                continue
            if got != mod["written"]:
                chk.disagree("JUnit file (testcase, failure elements, #skipped, #error) over whole events vs Model_C16.junit_run_ev", case, got, mod["written"])
            by_name = {name: fails for name, fails, _s, _e in got}
            for e in h:
                if e[0] == "finish":
                    break
                if e[0] == "scenario" and e[1]["status"] == "StFailure" and not by_name.get(LABELS_EV[e[1]["rlabel"]]):
                    chk.fail(f"a FAILURE scenario (is_final={e[1]['final']}, phase {e[1]['phase']}) of {LABELS_EV[e[1]['rlabel']]!r} has no failure element in junit.xml", case, got, region=None)
        elif impl["xml"]:
            chk.disagree("JUnit file written without EngineFinished", case, impl["xml"][:100], None)
    chk.stages["handlers_over_whole_events"] = stats


# ----------------------------------------------------------------------------------------
# stage: lifecycle of the writer thread up to process exit (Model_C16 Part 5: lrun)
# ----------------------------------------------------------------------------------------
class GatedQueue(queue_mod.Queue):
    """queue.Queue whose get() hands out one item per permit: the harness is the scheduler of the writer thread."""

    def __init__(self):
        super().__init__()
        self.permits = threading.Semaphore(0)
        self.arrived = threading.Semaphore(0)

    def get(self, block=True, timeout=None):
        self.arrived.release()  # the previous item is done, the writer is back at queue.get()
        self.permits.acquire()
        return super().get(block, timeout)


class ClickSink(Sink):
    """A report file whose handle Click may close (every later write raises, like a closed text file)."""

    def __init__(self):
        super().__init__()
        self.closed_by_click = False

    def open(self):
        return self

    def close(self):
        # the VCR writer closes its file itself after Finalize; a close by anybody else shuts the handle under the writer
        if threading.current_thread() is threading.main_thread():
            self.closed_by_click = True

    def write(self, s):
        if self.closed_by_click:
            raise ValueError("I/O operation on closed file.")
        return self.buf.write(s)


class JoinProxy:
    """Stands in for CassetteWriter.worker: notes how the handler joins it and returns at once (whether a join
    returns because the thread has ended or because the timeout expired is the schedule's decision)."""

    def __init__(self, thread):
        self.thread = thread
        self.joins = []

    def join(self, timeout=None):
        self.joins.append(timeout)

    def is_alive(self):
        return self.thread.is_alive()

    def __getattr__(self, name):
        return getattr(self.thread, name)


def _wait_arrival(q, t, limit=10.0):
    end = time.monotonic() + limit
    while time.monotonic() < end:
        if q.arrived.acquire(timeout=0.002):
            return True
        if not t.is_alive():
            return True
    return False


def _scenario_event(ints):
    from schemathesis.engine import Status, events
    from schemathesis.engine.phases import PhaseName

    inters = []
    for i in ints:
        inters.append({"id": f"i{i['id']}", "uri": f"http://{'u:p@' if i['userinfo'] else ''}127.0.0.1/x?i=i{i['id']}", "method": "GET", "req_headers": {"A": ["b"], **({"Cookie": list(i["cookies"])} if i.get("cookies") else {})}, "req_body": None, "meta": "fuzzing", "checks": [],
                       "response": None if not i["response"] else {"status": 200, "message": "OK", "headers": {"content-type": ["text/plain"]}, "content": b"x", "encoding": {"ok": "utf-8", "unknown": "bogus", "raises": "undefined"}[i["codec"]], "http_version": "1.1"}})
    rec, _ = make_recorder(inters)
    return events.ScenarioFinished(id=uuid.uuid4(), suite_id=uuid.uuid4(), recorder=rec, elapsed_time=0.1, **event_attrs(ints))


def _other_event():
    from schemathesis.engine import events
    from schemathesis.engine.phases import PhaseName

    return events.NonFatalError(error=ValueError("x"), phase=PhaseName.FUZZING, label="l", related_to_operation=False)


def parse_partial_report(fmt, text):
    """(entries [(id, complete)] | 'unparseable', the file is well-formed as it stands)."""
    if fmt == "HAR":
        wellformed = True
        try:
            doc = json.loads(text)
        except ValueError:
            wellformed = False
            if not text:
                return [], False
            try:
                doc = json.loads(text + "]}}")  # what is missing when harfile has not closed the file
            except ValueError:
                return "unparseable", False
        try:
            return [(e["request"]["url"].rpartition("?i=")[2], True) for e in doc["log"]["entries"]], wellformed
        except (KeyError, IndexError, TypeError):
            return "unparseable", False
    y = yaml_load(text)
    if y[0] != "ok":
        return "unparseable", False
    doc = y[1] or {}
    if not isinstance(doc, dict):
        return "unparseable", False
    return [(e["id"], e["response"] is None or "http_version" in e["response"]) for e in (doc.get("http_interactions") or [])], True


def run_lifecycle(fmt, sanitize, preserve, h, owned, sched):
    """The real CassetteWriter and its thread under a schedule.  M = the main thread does its next action (start,
    handle_event up to the next ScenarioFinished, shutdown, then: the join returns because the thread has ended, then
    sys.exit), W = the writer takes one queue item, T = the join returns because its timeout expired.  sys.exit is
    emulated after Python's rules: handles owned by Click are closed, a non-daemon thread is waited for, a daemon
    thread is never scheduled again.  Returns (entries, writer state, exited, notes)."""
    from schemathesis.cli.commands.run.context import ExecutionContext
    from schemathesis.cli.commands.run.handlers.cassettes import CassetteWriter, Finalize
    from schemathesis.cli.commands.run.reports import ReportFormat

    died = []
    saved_hook = threading.excepthook
    threading.excepthook = lambda args: died.append((args.thread, args.exc_type.__name__))
    sink, q = ClickSink(), GatedQueue()
    notes = {}
    try:
        w = CassetteWriter(format=ReportFormat.HAR if fmt == "HAR" else ReportFormat.VCR, path=sink, sanitize_output=sanitize, preserve_bytes=preserve, queue=q)  # type: ignore[arg-type]
        t = w.worker
        proxy = JoinProxy(t)
        w.worker = proxy  # type: ignore[assignment]
        _wait_arrival(q, t)
        ctx = ExecutionContext(seed=1)
        actions, pending = [("start", [])], []
        for e in h:
            if e is None:
                pending.append(_other_event())
            else:
                actions.append(("events", pending + [_scenario_event(e)]))
                pending = []
        actions.append(("shutdown", pending))
        phase, pos, killed = "run", 0, False
        for s in sched:
            if s == "W":
                if t.is_alive() and not killed and q.qsize() > 0:
                    q.permits.release()
                    if not _wait_arrival(q, t):
                        notes["stuck"] = True
            elif s == "M":
                if phase == "run" and pos < len(actions):
                    kind, evs = actions[pos]
                    pos += 1
                    if kind == "start":
                        w.start(ctx)
                    for ev in evs:
                        w.handle_event(ctx, ev)
                    if kind == "shutdown":
                        w.shutdown(ctx)
                elif phase == "run":
                    if not t.is_alive():
                        phase = "teardown"
                elif phase == "teardown":
                    if owned:
                        sink.closed_by_click = True
                    if t.is_alive():
                        if t.daemon:
                            killed, phase = True, "exited"
                        else:
                            q.permits.release(1_000_000)
                            t.join(10)
                            if t.is_alive():
                                notes["hang"] = True  # threading._shutdown would wait for ever
                            else:
                                phase = "exited"
                    else:
                        phase = "exited"
            elif s == "T":
                if phase == "run" and pos == len(actions) and proxy.joins and proxy.joins[-1] is not None:
                    phase = "teardown"
        text = sink.buf.getvalue()
        state = "LKilled" if killed else "LRunning" if t.is_alive() else ("LEnded", "Died") if any(th is t for th, _ in died) else ("LEnded", "Closed")
        notes["joins"] = list(proxy.joins)
        notes["daemon"] = t.daemon
        notes["died"] = [n for th, n in died if th is t]
        # let the thread go
        if t.is_alive():
            q.put(Finalize())
            q.permits.release(1_000_000)
            t.join(10)
    finally:
        threading.excepthook = saved_hook
    entries, wellformed = parse_partial_report(fmt, text)
    notes["wellformed"] = wellformed
    return entries, state, phase == "exited", notes


def rand_schedule(rng, n_items):
    """Interleavings of the n_items puts of the main thread with writer steps, the join (returning or timing out at
    any point of the backlog) and the exit."""
    speed = rng.choice([0.0, 0.0, 0.3, 0.6, 1.0, 2.0])
    out = []

    def writer_steps(mean):
        k = 0
        while mean > 0 and rng.random() < mean / (1.0 + mean):
            k += 1
        return ["W"] * k

    for _ in range(n_items):
        out += writer_steps(speed)
        out.append("M")
    shape = rng.choice(["timeout-now", "timeout-now", "timeout-later", "timeout-later", "join-returns", "join-blocked-then-timeout", "no-exit"])
    if shape == "timeout-now":
        out += ["T"]
    elif shape == "timeout-later":
        out += ["W"] * rng.randrange(1, n_items + 1) + ["T"]
    elif shape == "join-returns":
        out += ["W"] * (n_items + 1) + ["M"]
    elif shape == "join-blocked-then-timeout":
        out += ["M"] + ["W"] * rng.randrange(0, 3) + ["M", "T"]
    else:
        out += ["W"] * rng.randrange(0, 3) + rng.choice([[], ["T"], ["M"]])
        return out
    out += ["W"] * rng.choice([0, 0, 1, 2]) + ["M"] + rng.choice([[], [], ["W", "M", "T"]])
    return out


STEP_NAMES = {"M": "SMain", "W": "SWriter", "T": "STimeout"}


def lifecycle_parameters():
    """What the model takes as parameters, read from the real objects: the daemon flag of the writer thread and the
    timeout the handler joins it with (CassetteWriter built as initialize_handlers builds it), and whether Click
    closes the file handle of each kind of report path when its context is torn down."""
    import warnings

    import click

    from schemathesis.cli import schemathesis as st_group
    from schemathesis.cli.commands.run.context import ExecutionContext
    from schemathesis.cli.commands.run.handlers import cassettes
    from schemathesis.cli.commands.run.reports import ReportConfig, ReportFormat
    from schemathesis.cli.ext.fs import open_file

    out = {"daemon": {}, "join": {}, "thread_ended": {}, "constant": cassettes.WRITER_WORKER_JOIN_TIMEOUT}
    core.SCRATCH.mkdir(exist_ok=True)
    td = tempfile.mkdtemp(dir=core.SCRATCH, prefix="c16_")
    try:
        with warnings.catch_warnings():
            warnings.simplefilter("ignore")
            for fmt in (ReportFormat.VCR, ReportFormat.HAR):
                config = ReportConfig(formats=[fmt], directory=__import__("pathlib").Path(td))
                path = config.get_path(fmt)
                open_file(path)
                w = cassettes.CassetteWriter(format=fmt, path=path, sanitize_output=config.sanitize_output, preserve_bytes=config.preserve_bytes)
                t = w.worker
                proxy = JoinProxy(t)
                w.worker = proxy  # type: ignore[assignment]
                ctx = ExecutionContext(seed=1)
                w.start(ctx)
                w.shutdown(ctx)
                t.join(10)
                out["daemon"][fmt.value] = t.daemon
                out["join"][fmt.value] = list(proxy.joins)
                out["thread_ended"][fmt.value] = not t.is_alive()
                path.close()
            # who closes the handle
            cmd = st_group.commands["run"]
            params = {p.name: p for p in cmd.params}
            closed = {}
            for name in ("report_vcr_path", "report_har_path"):
                cctx = click.Context(cmd)
                handle = params[name].type.convert(os.path.join(td, name + ".out"), params[name], cctx)
                handle.open()
                cctx.close()
                closed[name] = bool(handle._f.closed) if hasattr(handle, "_f") else bool(handle.closed)
            cctx = click.Context(cmd)
            own = ReportConfig(formats=[ReportFormat.VCR], directory=__import__("pathlib").Path(td)).get_path(ReportFormat.VCR)
            own.open()
            cctx.close()
            closed["report_dir"] = bool(own._f.closed)
            own.close()
            out["closed_by_click"] = closed
    finally:
        shutil.rmtree(td, ignore_errors=True)
    return out


def stage_lifecycle(chk, n):
    rng = chk.rng
    # 1. parameters of the model vs the real objects
    (mp,) = core.coq_eval(IMPORTS, ["(writer_thread_daemon, join_timeout_ms, lc_click_owned lconf_report_path, lc_click_owned lconf_report_dir)"])
    m_daemon, m_timeout_ms, m_owned_path, m_owned_dir = mp
    real = lifecycle_parameters()
    impl_params = {"daemon": real["daemon"], "join": real["join"], "closed_by_click": real["closed_by_click"]}
    model_params = {"daemon": {"vcr": m_daemon, "har": m_daemon}, "join": {"vcr": [m_timeout_ms / 1000], "har": [m_timeout_ms / 1000]},
                    "closed_by_click": {"report_vcr_path": m_owned_path, "report_har_path": m_owned_path, "report_dir": m_owned_dir}}
    chk.seen({"lifecycle": "parameters"}, True)
    if impl_params != model_params or not all(real["thread_ended"].values()):
        chk.disagree("CassetteWriter as the CLI builds it (daemon flag of the writer thread, join timeout of shutdown, who closes the file handle) vs Model_C16 "
                     "(writer_thread_daemon, join_timeout_ms, lc_click_owned)", {"lifecycle": "parameters"}, {**impl_params, "thread_ended": real["thread_ended"]}, model_params)
    # 2. schedules
    cases = [("VCR", True, False, [[{"id": 1, "userinfo": False, "response": True, "codec": "ok", "cookies": []}], [{"id": 2, "userinfo": False, "response": True, "codec": "ok", "cookies": []}],
                                   [{"id": 3, "userinfo": False, "response": True, "codec": "ok", "cookies": []}]], owned, list("MMMMMWWTM")) for owned in (False, True)]
    cases += [("HAR", True, False, cases[0][3], owned, list("MMMMMWWTM")) for owned in (False, True)]
    cases += [("VCR", True, False, cases[0][3], False, list("MMMMMTM")), ("HAR", False, True, cases[0][3], False, list("MMMMMTM"))]
    if chk.broken:
        n *= 5
    while len(cases) < n:
        h = rand_chistory(rng)
        n_items = 2 + sum(e is not None for e in h)
        cases.append((rng.choice(["VCR", "HAR"]), rng.random() < 0.6, rng.random() < 0.4, h, rng.random() < 0.35, rand_schedule(rng, n_items)))
    exprs = []
    for fmt, san, pres, h, owned, sched in cases:
        exprs.append(f"(let st := lrun {{| lc_daemon := writer_thread_daemon; lc_click_owned := {cbool(owned)} |}} {{| w_fmt := {fmt}; w_sanitize := {cbool(san)}; w_preserve := {cbool(pres)} |}} "
                     f"{c_chistory(h)} {clist([STEP_NAMES[x] for x in sched], 'sstep')} in (lresult st, lexited st))")
    model = core.coq_eval(IMPORTS, exprs)
    stats = {"schedules": len(cases), "exited": 0, "exited_after_a_timeout_with_backlog": 0, "lost_inside_regions": {}, "parameters": impl_params}
    for (fmt, san, pres, h, owned, sched), (m_out, m_state, m_exited) in zip(cases, model):
        case = {"format": fmt, "sanitize": san, "preserve": pres, "history": h, "report_file_owned_by_click": owned, "schedule": "".join(sched),
                "legend": "M main thread: next put / join returns / sys.exit; W writer takes one item; T the join times out"}
        entries, state, exited, notes = run_lifecycle(fmt, san, pres, h, owned, sched)
        chk.seen(case, True)
        chk.count(f"lifecycle:{fmt}:{'owned' if owned else 'dir'}:{state if isinstance(state, str) else state[1]}:{'exited' if exited else 'running'}")
        impl = (entries, state, exited)
        mod = ([(f"i{k}", done) for k, done in m_out], m_state, m_exited)
        if impl != mod:
            chk.disagree("CassetteWriter under a schedule (entries in the file, state of the writer thread, process exited) vs Model_C16.lrun", case, [impl, notes], mod)
        if not exited:
            continue
        stats["exited"] += 1
        delivered = [f"i{i['id']}" for e in h if e is not None for i in e]
        timed_out = "T" in sched
        if timed_out and delivered:
            stats["exited_after_a_timeout_with_backlog"] += 1
        if entries != [(d, True) for d in delivered] or state != ("LEnded", "Closed") or (fmt == "HAR" and not notes["wellformed"]):
            raising = fmt == "VCR" and not pres and any(i["response"] and i["codec"] == "raises" for e in h if e is not None for i in e)
            region = "codec_decode_raises" if raising else "click_owned_report_file" if (owned and timed_out and not notes["daemon"]) else None
            stats["lost_inside_regions"][str(region)] = stats["lost_inside_regions"].get(str(region), 0) + 1
            why = "a daemon writer thread is killed in its backlog" if state == "LKilled" else f"the writer thread ended {state}"
            if region is None:
                stats["failing_schedules_outside_regions"] = stats.get("failing_schedules_outside_regions", 0) + 1
                if stats["failing_schedules_outside_regions"] > 3:
                    continue  # three concrete schedules are reported, the rest is counted
            chk.fail(f"{fmt} report after process exit: delivered exchanges are missing or the file is not closed ({why})", case,
                     {"in_the_file": entries, "delivered": delivered, "writer": state, "well_formed": notes["wellformed"], "thread_daemon": notes["daemon"], "join_calls": notes["joins"]}, region=region)
    chk.stages["writer_lifecycle"] = stats


# ----------------------------------------------------------------------------------------
# stage: real `st run --report ...`
# ----------------------------------------------------------------------------------------
def cli_schema(paths):
    return {"openapi": "3.0.2", "info": {"title": "t", "version": "1"}, "paths": paths}


def run_cli(raw, responder, extra, userinfo="", sanitize=None):
    """One real `st run`; returns the artefacts, what the loopback server received and what the reporters were given."""
    from click.testing import CliRunner

    from schemathesis.cli import schemathesis as st_group
    from schemathesis.cli.commands.run import executor as cli_executor
    from schemathesis.cli.commands.run.handlers.base import EventHandler
    from schemathesis.engine import events as ev_mod

    delivered = []
    scenarios = []
    events_full = []

    class Capture(EventHandler):
        def __init__(self, *a, **k):
            pass

        def handle_event(self, ctx, event):
            if isinstance(event, ev_mod.ScenarioFinished):
                scenarios.append((event.recorder.label, event.status.name))
                # the whole event: every attribute a handler could make its decision on
                events_full.append({"phase": event.phase.name, "label": event.label, "status": event.status.name, "is_final": event.is_final,
                                    "skip_reason": event.skip_reason, "recorder_label": event.recorder.label, "ids": list(event.recorder.interactions)})
                for cid, inter in event.recorder.interactions.items():
                    delivered.append((cid, inter))

    def respond(item):
        if item["target"].startswith("/openapi.json"):
            return 200, [("Content-Type", "application/json")], json.dumps(raw).encode()
        return responder(item)

    rec = Recorder(respond)
    core.SCRATCH.mkdir(exist_ok=True)
    td = tempfile.mkdtemp(dir=core.SCRATCH, prefix="c16_")
    saved_argv, saved_cols = sys.argv[:], os.environ.get("COLUMNS")
    died = []
    saved_hook = threading.excepthook
    threading.excepthook = lambda args: died.append(f"{args.exc_type.__name__}: {args.exc_value}")
    out = {}
    try:
        args = ["run", f"http://{userinfo}127.0.0.1:{rec.port}/openapi.json", "--report", "junit,vcr,har", "--report-dir", td, "--generation-database=none",
                "--suppress-health-check=all", "--no-color", "--output-sanitize", "true" if (bool(userinfo) if sanitize is None else sanitize) else "false", *extra]
        sys.argv = ["st"] + args
        os.environ["COLUMNS"] = "200"
        cli_executor.CUSTOM_HANDLERS.append(Capture)
        try:
            res = CliRunner().invoke(st_group, args)
        finally:
            cli_executor.CUSTOM_HANDLERS.remove(Capture)
        out["exit"] = res.exit_code
        out["console"] = res.output
        out["exception"] = None if res.exception is None or isinstance(res.exception, SystemExit) else f"{type(res.exception).__name__}: {res.exception}"
        for t in threading.enumerate():
            if t.name == "SchemathesisCassetteWriter":
                t.join(10)
        del res
        gc.collect()  # the report files are click LazyFiles nobody closes: flushed when collected, as at interpreter exit
        for name in ("junit.xml", "vcr.yaml", "har.json"):
            p = os.path.join(td, name)
            out[name] = open(p, encoding="utf8", newline="").read() if os.path.exists(p) else None
        out["received"] = [r for r in rec.take() if not r["target"].startswith("/openapi.json")]
        out["delivered"] = delivered
        out["scenarios"] = scenarios
        out["events_full"] = events_full
        out["argv"] = args
        out["writer_died"] = died
    finally:
        threading.excepthook = saved_hook
        sys.argv = saved_argv
        if saved_cols is None:
            os.environ.pop("COLUMNS", None)
        else:
            os.environ["COLUMNS"] = saved_cols
        rec.close()
        shutil.rmtree(td, ignore_errors=True)
    return out


NASTY_PAYLOADS = [b"", b'{"ok": true}', b"\xff\xfe\x00binary", b"caf\xc3\xa9 \xe2\x80\xa8 \xc2\x85 \xef\xbb\xbf", b"ctl\x00\x07\x1b\x7f", b"a\nb\r\nc\t", "\U0001f600".encode(), b"\xed\xa0\x80", b"'q' \"d\" \\", bytes(range(256))]


def nasty_responder(rng_seed):
    import random

    r = random.Random(rng_seed)

    def responder(item):
        payload = r.choice(NASTY_PAYLOADS)
        # charset=bogus: since 22e8a9e1 a failed check on such a response is rendered as <BINARY> (C16-F11 repaired); before, the run aborted
        ctype = r.choice(["application/json", "text/plain", "text/plain; charset=latin-1", "application/octet-stream", "text/html; charset=utf-8", "text/plain; charset=bogus"])
        headers = [("Content-Type", ctype), ("X-Latin", "caf\xe9 \xff \" \\ ' : #"), ("X-Multi", "a"), ("X-Multi", "b")]
        return r.choice([200, 200, 404, 500]), headers, payload

    return responder


def check_cli_artifacts(chk, name, out, preserve, region_hint=None, sanitized=False):
    """Oracle over the complete files of one real run."""
    from schemathesis.core.output.sanitization import sanitize_url

    from schemathesis.core.output.sanitization import sanitize_value

    def shown(uri):
        return sanitize_url(uri) if sanitized else uri

    def shown_headers(headers):
        if not sanitized:
            return headers
        copy_ = {k: list(v) for k, v in headers.items()}
        sanitize_value(copy_)
        return copy_

    case = {"scenario": name, "preserve_bytes": preserve}
    delivered = out["delivered"]
    ids = [cid for cid, _ in delivered]
    ok = True

    def bad(what, detail=None, region=None):
        nonlocal ok
        ok = False
        chk.fail(f"st run [{name}]: {what}", case, detail, region=region or region_hint)

    if out["exception"] is not None or "Internal Error" in out["console"]:
        bad(f"the run aborted with {out['exception']} (Internal Error)", out["console"][-600:])
    if out["writer_died"]:
        bad(f"a cassette writer thread died: {out['writer_died']}")
    # JUnit
    try:
        root = ET.fromstring(out["junit.xml"] or "")
        if root.find(".//testcase") is None and ids:
            bad("JUnit report has no test case")
        failed = {tc.get("name") for tc in root.iter("testcase") if tc.find("failure") is not None}
        for label, status in out["scenarios"]:
            if status == "FAILURE" and label not in failed:
                bad(f"scenario {label!r} finished with FAILURE but its JUnit test case has no failure element")
        if any(status == "FAILURE" for _, status in out["scenarios"]) and out["exit"] != 1:
            bad(f"a scenario failed but the exit code is {out['exit']}")
    except ET.ParseError as exc:
        bad(f"JUnit report is not XML ({exc})", (out["junit.xml"] or "")[:200])
    # VCR
    y = yaml_load(out["vcr.yaml"] or "")
    if y[0] != "ok" or not isinstance(y[1], dict):
        bad(f"VCR cassette is not YAML ({y[1]})", (out["vcr.yaml"] or "")[:300])
    elif yaml_load(out["vcr.yaml"] or "", c_loader=True) != y:
        bad("VCR cassette: the libyaml loader does not read what the Python loader reads", yaml_load(out["vcr.yaml"] or "", c_loader=True)[0])
    elif y[1].get("command") != "st " + " ".join(out["argv"]):
        bad("VCR cassette: command line differs from the one that was run", [y[1].get("command"), out["argv"]])
    else:
        entries = y[1].get("http_interactions") or []
        got_ids = [e["id"] for e in entries]
        if got_ids != ids:
            bad(f"VCR cassette has {len(got_ids)} entries for {len(ids)} delivered exchanges (each must appear exactly once)", {"missing": [i for i in ids if i not in got_ids][:5], "extra": [i for i in got_ids if i not in ids][:5]})
        else:
            by_case = {}
            for r in out["received"]:
                hdrs = {k.lower(): v for k, v in r["headers"]}
                by_case[hdrs.get("x-schemathesis-testcaseid")] = r
            for e, (cid, inter) in zip(entries, delivered):
                req, resp = inter.request, inter.response
                diffs = []
                if e["request"]["uri"] != shown(req.uri) or e["request"]["method"] != req.method:
                    diffs.append(("request line", e["request"]["uri"], req.uri))
                if (e["request"]["headers"] or {}) != shown_headers(req.headers):
                    diffs.append(("request headers", e["request"]["headers"], req.headers))
                body = e["request"].get("body")
                wire = by_case.get(cid)
                if req.body is None:
                    if body is not None:
                        diffs.append(("request body", body, None))
                elif preserve:
                    if b64(body["base64_string"]) != req.body or (wire is not None and b64(body["base64_string"]) != wire["body"]):
                        diffs.append(("request body bytes", body, req.body))
                elif body["string"] != req.body.decode("utf8", "replace"):
                    diffs.append(("request body text", body, req.body))
                if resp is None:
                    if e["response"] is not None:
                        diffs.append(("response", e["response"], None))
                else:
                    if e["response"]["status"]["code"] != str(resp.status_code) or e["response"]["status"]["message"] != resp.message:
                        diffs.append(("status", e["response"]["status"], resp.status_code))
                    if (e["response"]["headers"] or {}) != shown_headers(resp.headers):
                        diffs.append(("response headers", e["response"]["headers"], resp.headers))
                    rb = e["response"].get("body")
                    if preserve:
                        if (b"" if rb is None else b64(rb["base64_string"])) != resp.content:
                            diffs.append(("response body bytes", rb, resp.content))
                    elif rb is None or rb["string"] != resp.content.decode(effective_encoding({"encoding": resp.encoding, "content": resp.content}, False), "replace"):
                        diffs.append(("response body text", rb, resp.content))
                if diffs:
                    bad(f"VCR entry {cid} differs from the traffic", [(a, repr(b)[:150], repr(c)[:150]) for a, b, c in diffs])
                    break
    # HAR
    try:
        har = json.loads(out["har.json"] or "")
        entries = har["log"]["entries"]
        by_case_har = {}
        for r in out["received"]:
            by_case_har[{k.lower(): v for k, v in r["headers"]}.get("x-schemathesis-testcaseid")] = r
        if len(entries) != len(ids):
            bad(f"HAR file has {len(entries)} entries for {len(ids)} delivered exchanges")
        else:
            for e, (cid, inter) in zip(entries, delivered):
                req, resp = inter.request, inter.response
                if e["request"]["url"] != shown(req.uri) or e["request"]["method"] != req.method.upper():
                    bad(f"HAR entry {cid}: request line differs", [e["request"]["url"], req.uri])
                    break
                if [(h["name"], h["value"]) for h in e["request"]["headers"]] != [(k, v[0]) for k, v in shown_headers(req.headers).items()]:
                    bad(f"HAR entry {cid}: request headers differ", [e["request"]["headers"], req.headers])
                    break
                if [(q["name"], q["value"]) for q in e["request"]["queryString"]] != parse_qsl(urlsplit(req.uri).query, keep_blank_values=True):
                    bad(f"HAR entry {cid}: queryString differs from the URL", [e["request"]["queryString"], req.uri])
                    break
                pd = e["request"].get("postData")
                wire = by_case_har.get(cid)
                if req.body is None or (wire is not None and not wire["body"] and "content-length" not in {k.lower() for k, _ in wire["headers"]}):
                    if pd is not None and req.body is None:
                        bad(f"HAR entry {cid} ({req.method} {req.uri}): postData present although the request had no body", pd)
                        break
                else:
                    sent = req.body
                    got = None if pd is None else (b64(pd.get("text")) if preserve else pd.get("text"))
                    if got != (sent if preserve else sent.decode("utf-8", "replace")) or (preserve and wire is not None and got != wire["body"]):
                        bad(f"HAR entry {cid} ({req.method} {req.uri}): postData differs from the body that was sent", [pd, sent[:80]])
                        break
                if resp is not None and [(h["name"], h["value"]) for h in e["response"]["headers"]] != [(k, v[0]) for k, v in shown_headers(resp.headers).items()]:
                    bad(f"HAR entry {cid}: response headers differ", [e["response"]["headers"], resp.headers])
                    break
                if resp is None and canon_har_response(e["response"]) is not None:
                    bad(f"HAR entry {cid}: a response is reported for a network error", e["response"])
                    break
                if resp is not None:
                    c = e["response"]["content"]
                    if e["response"]["status"] != resp.status_code:
                        bad(f"HAR entry {cid}: status differs", [e["response"]["status"], resp.status_code])
                        break
                    if preserve and b64(c.get("text") or "") != resp.content:
                        bad(f"HAR entry {cid}: response bytes differ", [c.get("text"), resp.content[:50]])
                        break
                    if not preserve and c.get("text") != resp.content.decode("utf-8", "replace"):
                        bad(f"HAR entry {cid}: response text differs", [c.get("text"), resp.content[:50]])
                        break
    except (ValueError, KeyError) as exc:
        bad(f"HAR file is not valid JSON/HAR ({type(exc).__name__}: {exc})", (out["har.json"] or "")[:200])
    return ok


def check_each_delivered_once(chk, name, out):
    """End-to-end oracle over the ScenarioFinished events a capture handler saw in a real run: the multiset of case ids in vcr.yaml and in
    har.json (the X-Schemathesis-TestCaseId request header of each entry) is the multiset of the interactions of ALL delivered recorders.
    Reports which events (phase, is_final, status, label) the missing interactions came with."""
    from collections import Counter

    events_full = out.get("events_full", [])
    delivered = [cid for e in events_full for cid in e["ids"]]
    owner = {cid: e for e in events_full for cid in e["ids"]}
    served = {}
    for r in out["received"]:
        served[{k.lower(): v for k, v in r["headers"]}.get(TCID.lower())] = f"{r['method']} {r['target']}"
    files = {}
    y = yaml_load(out["vcr.yaml"] or "")
    if y[0] == "ok" and isinstance(y[1], dict):
        files["vcr.yaml"] = [e.get("id") for e in (y[1].get("http_interactions") or [])]
    try:
        files["har.json"] = [next((hd["value"] for hd in e["request"]["headers"] if hd["name"].lower() == TCID.lower()), None) for e in json.loads(out["har.json"] or "")["log"]["entries"]]
    except (ValueError, KeyError, TypeError):
        pass
    ok = True
    for fname, ids in files.items():
        got, want = Counter(ids), Counter(delivered)
        if got == want:
            continue
        ok = False
        missing = [cid for cid in delivered if got[cid] == 0]
        evs = []
        for cid in missing:
            e = owner[cid]
            d = {"phase": e["phase"], "is_final": e["is_final"], "status": e["status"], "label": e["label"], "recorder_label": e["recorder_label"], "interactions_in_the_event": len(e["ids"])}
            if d not in evs:
                evs.append(d)
        chk.fail(f"st run [{name}]: {fname} holds {sum(1 for c in want if got[c] >= 1)} of the {len(delivered)} interactions delivered to the reporters in ScenarioFinished events "
                 f"(each must appear exactly once); the missing ones came with {evs[:2]}", {"scenario": name, "file": fname},
                 {"missing": [(cid, served.get(cid, "not seen by the server")) for cid in missing][:8], "duplicated": [c for c, k in got.items() if k > 1][:5],
                  "not_delivered_but_in_the_file": [c for c in got if c not in want][:5], "events_of_the_missing": evs, "delivered_events": len(events_full)}, region=None)
    return ok


PATHS_PLAIN = {
    "/items/{id}": {"get": {"parameters": [{"name": "id", "in": "path", "required": True, "schema": {"type": "string"}},
                                            {"name": "q", "in": "query", "schema": {"type": "string"}},
                                            {"name": "X-H", "in": "header", "schema": {"type": "string"}}],
                            "responses": {"200": {"description": "ok"}}}},
    "/items": {"post": {"requestBody": {"content": {"application/json": {"schema": {"type": "object", "properties": {"name": {"type": "string"}}}},
                                                    "application/octet-stream": {"schema": {"type": "string", "format": "binary"}},
                                                    "text/plain": {"schema": {"type": "string"}}}},
                        "responses": {"201": {"description": "ok"}}}},
}
PATHS_PLAIN["/zz-after-the-post"] = {"get": {"responses": {"200": {"description": "ok"}}}, "delete": {"responses": {"204": {"description": "ok"}}}}
def cookie_param(name, values):
    return {"name": name, "in": "cookie", "required": True, "schema": {"type": "string", "enum": values}}


# cookie names SimpleCookie refuses / accepts, values with quotes and separators; a body-carrying operation in between
PATHS_COOKIES = {
    "/first": {"get": {"parameters": [cookie_param("sid", ["abc", 'q"uo"te', "a b"])], "responses": {"200": {"description": "ok"}}}},
    "/second": {"post": {"parameters": [cookie_param("tenant/id", ["7"]), cookie_param("a@b", ["x,y"]), cookie_param("plain", ["1"])],
                         "requestBody": {"content": {"application/json": {"schema": {"type": "object"}}}}, "responses": {"200": {"description": "ok"}}}},
    "/third": {"get": {"parameters": [cookie_param("(p)", ["{v}"]), cookie_param("q?", ["<1>"])], "responses": {"200": {"description": "ok"}}}},
    "/zz-last": {"get": {"responses": {"200": {"description": "ok"}}}},
}


def cookie_responder(item):
    return 200, [("Content-Type", "application/json"), ("Set-Cookie", "tenant/id=9; Path=/"), ("Set-Cookie", 'a@b="x;y"; HttpOnly'), ("Set-Cookie", "=novalue"), ("Set-Cookie", "caf\xe9=1")], b"{}"


PATHS_ODATA = {"/users('{id}')": {"get": {"parameters": [{"name": "id", "in": "path", "required": True, "schema": {"type": "integer"}}], "responses": {"200": {"description": "ok"}}}}}
PATHS_LINKS = {"/u": {"get": {"operationId": "getU", "responses": {"200": {"description": "ok", "links": {"self": {"operationId": "getU"}}}}},
                      "post": {"operationId": "postU", "responses": {"201": {"description": "ok", "links": {"get": {"operationId": "getU"}}}}}}}


# a linked sequence whose second step meets a transport error: POST /users answers 201, the server drops the connection on GET /users/{id}
PATHS_REPLAY = {
    "/users": {"post": {"operationId": "createUser",
                        "requestBody": {"required": True, "content": {"application/json": {"schema": {"type": "object", "properties": {"name": {"type": "string", "maxLength": 5}},
                                                                                                      "required": ["name"], "additionalProperties": False}}}},
                        "responses": {"201": {"description": "Created", "content": {"application/json": {"schema": {"type": "object"}}},
                                              "links": {"GetUser": {"operationId": "getUser", "parameters": {"id": "$response.body#/id"}}}}}}},
    "/users/{id}": {"get": {"operationId": "getUser", "parameters": [{"name": "id", "in": "path", "required": True, "schema": {"type": "integer"}}],
                            "responses": {"200": {"description": "OK", "content": {"application/json": {"schema": {"type": "object"}}}}}}},
}


REPLAY_ID = 918273645   # only reachable through the link: a generated id meets a 404, so the failing sequence needs the answered POST first


def replay_responder(item):
    if item["method"] == "GET" and item["target"].startswith("/users/"):
        if item["target"].split("?")[0] == f"/users/{REPLAY_ID}":
            raise ConnectionError("the loopback server closes the connection without a response")
        return 404, [("Content-Type", "application/json")], b'{"error": "no such user"}'
    return 201, [("Content-Type", "application/json")], json.dumps({"id": REPLAY_ID}).encode()


def final_replays(out):
    """The ScenarioFinished events of a real run that are Hypothesis' final replay of a failing sequence AND carry traffic."""
    return [e for e in out.get("events_full", []) if e["is_final"] and e["ids"]]


OK_JSON = lambda item: (200, [("Content-Type", "application/json")], b"{}")  # noqa: E731
TWO_GETS = {"/u": {"get": {"responses": {"200": {"description": "ok"}}}}, "/v": {"get": {"responses": {"200": {"description": "ok"}}}}}
FEW = ["--max-examples", "2", "--phases", "fuzzing", "--checks", "not_a_server_error"]


_RUNS: dict = {}


def run_named(kind):
    """The real runs behind the listed findings (known and fixed), one per check. Returns (out, sanitized)."""
    if kind not in _RUNS:
        _RUNS[kind] = _run_named(kind)
    return _RUNS[kind]


def _run_named(kind):
    if kind == "odata_path_quote":
        return run_cli(cli_schema(PATHS_ODATA), OK_JSON, FEW), False
    if kind == "junit_rediscovered":
        responder = lambda item: (500, [("Content-Type", "application/json")], b"{}") if item["method"] == "GET" else (201, [("Content-Type", "application/json")], b"{}")  # noqa: E731
        return run_cli(cli_schema(PATHS_LINKS), responder, ["--max-examples", "5", "--phases", "fuzzing,stateful", "--checks", "not_a_server_error"]), False
    if kind == "har_userinfo":
        return run_cli(cli_schema(TWO_GETS), OK_JSON, FEW, userinfo="user:pw@"), True
    if kind == "unknown_charset":
        return run_cli(cli_schema(TWO_GETS), lambda item: (200, [("Content-Type", "text/plain; charset=bogus")], b"h\xe9llo"), FEW), False
    if kind == "charset_quote_preserve":
        return run_cli(cli_schema(TWO_GETS), lambda item: (200, [("Content-Type", "text/plain; charset=\"it's ''q\"")], b"hello"), FEW + ["--report-preserve-bytes"]), False
    if kind == "argv_quote":
        return run_cli(cli_schema(TWO_GETS), OK_JSON, FEW + ["-H", "X-Name: O'Brien ''x'"]), False
    if kind == "charset_del_preserve":
        return run_cli(cli_schema(TWO_GETS), lambda item: (200, [("Content-Type", "text/plain; charset=a\x7fb")], b"hello"), FEW + ["--report-preserve-bytes"]), False
    if kind == "charset_undefined":
        return run_cli(cli_schema(TWO_GETS), lambda item: (200, [("Content-Type", "text/plain; charset=undefined")], b"hello"), FEW), False
    if kind == "failure_charset_bogus":
        return run_cli(cli_schema(TWO_GETS), lambda item: (500, [("Content-Type", "text/plain; charset=bogus")], b"h\xe9llo"), FEW), False
    if kind == "failure_charset_undefined_preserve":
        return run_cli(cli_schema(TWO_GETS), lambda item: (500, [("Content-Type", "text/plain; charset=undefined")], b"h\xe9llo"), FEW + ["--report-preserve-bytes"]), False
    if kind == "failure_charset_nul":
        return run_cli(cli_schema(TWO_GETS), lambda item: (500, [("Content-Type", "text/plain; charset=a\x00b")], b"h\xe9llo"), FEW), False
    if kind == "stateful_transport_error":
        out = None
        for seed in ("1", "2", "3", "4"):
            out = run_cli(cli_schema(PATHS_REPLAY), replay_responder, ["--phases", "stateful", "--checks", "not_a_server_error", "--max-examples", "20", "--seed", seed])
            if final_replays(out):
                break
        return out, False
    raise ValueError(kind)


class _Collect:
    """Stands in for a Check when a witness is replayed: only collects what the oracle objects to."""

    def __init__(self):
        self.problems = []

    def fail(self, what, case=None, detail=None, region=None):
        self.problems.append(what)


def cli_witness(kind):
    """Replays the real-run witness of a listed finding. Returns (the property fails on it: bool, detail)."""
    out, sanitized = run_named(kind)
    col = _Collect()
    if not out["delivered"]:
        return True, "no exchange delivered"
    check_cli_artifacts(col, kind, out, kind.endswith("_preserve"), sanitized=sanitized)
    return bool(col.problems), col.problems[:3]


def stage_cli(chk, quick):
    stats = {"runs": 0, "clean": 0, "exchanges": 0}
    scenarios = [
        ("nasty-bodies", PATHS_PLAIN, nasty_responder(chk.seed), ["--max-examples", "8", "--phases", "examples,coverage,fuzzing", "--checks", "not_a_server_error"], False),
        ("nasty-bodies-preserve", PATHS_PLAIN, nasty_responder(chk.seed + 1), ["--max-examples", "8", "--phases", "coverage,fuzzing", "--checks", "not_a_server_error", "--report-preserve-bytes"], True),
    ]
    scenarios = [(n, p, r, e, pres, False) for n, p, r, e, pres in scenarios]
    scenarios += [
        ("cookies", PATHS_COOKIES, cookie_responder, ["--max-examples", "3", "--phases", "coverage,fuzzing", "--checks", "not_a_server_error"], False, False),
        ("cookies-sanitized", PATHS_COOKIES, cookie_responder, ["--max-examples", "3", "--phases", "fuzzing", "--checks", "not_a_server_error"], False, True),
    ]
    if not quick or chk.broken:
        scenarios += [(n, p, r, e, pres, False) for n, p, r, e, pres in [
            ("all-checks", PATHS_PLAIN, nasty_responder(chk.seed + 2), ["--max-examples", "25", "--phases", "examples,coverage,fuzzing"], False),
            ("all-checks-preserve-workers", PATHS_PLAIN, nasty_responder(chk.seed + 3), ["--max-examples", "25", "--workers", "2", "--report-preserve-bytes"], True),
            ("negative-mode", PATHS_PLAIN, nasty_responder(chk.seed + 4), ["--max-examples", "25", "--mode", "all", "--phases", "coverage,fuzzing", "--checks", "not_a_server_error", "--report-preserve-bytes"], True),
        ]]
    for name, paths, responder, extra, preserve, sanitized in scenarios:
        out = run_cli(cli_schema(paths), responder, extra, sanitize=sanitized)
        stats["runs"] += 1
        stats["exchanges"] += len(out["delivered"])
        chk.seen({"cli": name, "exchanges": len(out["delivered"])}, True)
        chk.count("cli:" + name)
        if not out["delivered"]:
            chk.disagree("st run delivered no exchange to the reporters (the oracle has nothing to look at)", {"scenario": name}, out["console"][-800:], None)
            continue
        if name.startswith("cookies"):
            cookie_headers = [v for _, inter in out["delivered"] for k, vs in inter.request.headers.items() if k.lower() == "cookie" for v in vs]
            if not any("tenant/id=" in v for v in cookie_headers) or not any("(p)=" in v for v in cookie_headers):
                chk.disagree("the cookie run sent no Cookie header with an illegal cookie name (nothing to look at)", {"scenario": name}, cookie_headers[:4], None)
            stats["cookie_headers_with_illegal_names"] = stats.get("cookie_headers_with_illegal_names", 0) + sum("/" in v.split("=")[0] or "(" in v for v in cookie_headers)
        if check_cli_artifacts(chk, name, out, preserve, sanitized=sanitized):
            stats["clean"] += 1
    # the repaired behaviours, as ordinary oracle runs (with their non-vacuity conditions)
    for kind in ("junit_rediscovered", "har_userinfo", "unknown_charset", "odata_path_quote", "charset_quote_preserve", "argv_quote",
                 "failure_charset_bogus", "failure_charset_undefined_preserve"):
        out, sanitized = run_named(kind)
        stats["runs"] += 1
        stats["exchanges"] += len(out["delivered"])
        chk.seen({"cli": kind, "exchanges": len(out["delivered"])}, True)
        chk.count("cli:" + kind)
        if kind == "junit_rediscovered":
            labels = [label for label, status in out["scenarios"] if status == "FAILURE"]
            if "Stateful tests" not in labels or len(set(labels)) < 2:
                chk.disagree("the rediscovery run did not produce a FAILURE scenario under two labels (nothing to look at)", {"scenario": kind}, out["scenarios"][-6:], None)
                continue
            root = ET.fromstring(out["junit.xml"] or "<x/>")
            msgs = [f.get("message") or "" for tc in root.iter("testcase") if tc.get("name") == "Stateful tests" for f in tc.findall("failure")]
            stats["rediscovered_failure_elements"] = len(msgs)
        elif not out["delivered"]:
            if out["exception"] is not None:   # aborted before the capture handler (the last one) saw an event: the abort itself is the failing input
                chk.fail(f"st run [{kind}]: the run aborted with {out['exception']} (Internal Error), no report was written", {"scenario": kind, "argv": out["argv"][2:]}, out["console"][-600:], region=None)
            else:
                chk.disagree("st run delivered no exchange to the reporters (the oracle has nothing to look at)", {"scenario": kind}, out["console"][-800:], None)
            continue
        if kind == "har_userinfo" and not all("@" in inter.request.uri for _, inter in out["delivered"]):
            chk.disagree("the userinfo run recorded URLs without userinfo (nothing to look at)", {"scenario": kind}, [i.request.uri for _, i in out["delivered"]][:3], None)
        if kind == "unknown_charset" and not all(inter.response is not None and inter.response.encoding == "bogus" for _, inter in out["delivered"]):
            chk.disagree("the bogus-charset run recorded no response with encoding bogus (nothing to look at)", {"scenario": kind}, None, None)
        if kind == "odata_path_quote" and not all("('" in inter.request.uri for _, inter in out["delivered"]):
            chk.disagree("the OData-path run recorded URLs without a single quote (nothing to look at)", {"scenario": kind}, [i.request.uri for _, i in out["delivered"]][:3], None)
        if kind.startswith("failure_charset_"):
            # 22e8a9e1 (C16-F11): every answer is a 500 with a charset Python cannot decode with; each operation fails, its failure is rendered for junit.xml
            want = "bogus" if kind == "failure_charset_bogus" else "undefined"
            if not all(inter.response is not None and inter.response.encoding == want and inter.response.status_code == 500 for _, inter in out["delivered"]):
                chk.disagree(f"the failing {want}-charset run recorded a response without encoding {want} / status 500 (nothing to look at)", {"scenario": kind}, None, None)
            if not [1 for _, status in out["scenarios"] if status == "FAILURE"]:
                chk.disagree(f"the failing {want}-charset run produced no FAILURE scenario (nothing is rendered for junit.xml)", {"scenario": kind}, out["scenarios"][-4:], None)
            try:
                texts = [(f.get("message") or "") + (f.text or "") for f in ET.fromstring(out["junit.xml"] or "<x/>").iter("failure")]
            except ET.ParseError:
                texts = []
            stats["failure_elements_with_undecodable_text"] = stats.get("failure_elements_with_undecodable_text", 0) + sum("<BINARY>" in t for t in texts)
            if out["exception"] is None and not any("<BINARY>" in t for t in texts):
                chk.fail(f"st run [{kind}]: no failure element of junit.xml shows the undecodable payload as <BINARY>", {"scenario": kind}, texts[:2], region=None)
        if kind == "charset_quote_preserve" and not all(inter.response is not None and "'" in (inter.response.encoding or "") for _, inter in out["delivered"]):
            chk.disagree("the quoted-charset run recorded no response encoding with a single quote (nothing to look at)", {"scenario": kind}, None, None)
        if check_cli_artifacts(chk, kind, out, kind.endswith("_preserve"), sanitized=sanitized):
            stats["clean"] += 1
    # a stateful run in which a linked step fails with a transport error after earlier steps succeeded: Hypothesis replays the failing
    # sequence once more as a FINAL scenario - real traffic with fresh case ids, delivered to the reporters like any other
    kind = "stateful_transport_error"
    out, _ = run_named(kind)
    stats["runs"] += 1
    stats["exchanges"] += len(out["delivered"])
    chk.seen({"cli": kind, "exchanges": len(out["delivered"])}, True)
    chk.count("cli:" + kind)
    finals = final_replays(out)
    by_id = dict(out["delivered"])
    # the step that meets the transport error raises before anything is recorded: the replay carries the ANSWERED steps before it (POST /users -> 201)
    shaped = [e for e in finals if e["status"] == "ERROR" and by_id[e["ids"][0]].response is not None and by_id[e["ids"][0]].request.method == "POST"]
    stats["final_replay_events"] = len(finals)
    stats["final_replay_interactions"] = sum(len(e["ids"]) for e in finals)
    if not shaped:
        chk.disagree("the stateful run with a transport error on the linked step delivered no final replay with traffic (the answered POST before the failing step): nothing to look at",
                     {"scenario": kind}, [out["exit"], out["events_full"][-4:], out["console"][-500:]], None)
    else:
        served = {{k.lower(): v for k, v in r["headers"]}.get(TCID.lower()) for r in out["received"]}
        if not all(e["ids"][0] in served for e in shaped):
            chk.disagree("the final replay is not traffic the loopback server saw (nothing to compare with)", {"scenario": kind}, shaped[:2], None)
        a = check_cli_artifacts(chk, kind, out, False)
        b = check_each_delivered_once(chk, kind, out)
        if a and b:
            stats["clean"] += 1
    chk.stages["oracle_search_cli_reports"] = stats


# ----------------------------------------------------------------------------------------
# stage: the REAL CLI in a process of its own, report files on a slow device, re-parsed after the process has gone
# ----------------------------------------------------------------------------------------
_EXIT_OP = {"parameters": [{"name": "n", "in": "query", "schema": {"type": "integer"}}], "responses": {"200": {"description": "ok"}}}
PATHS_EXIT = {"/a": {"get": _EXIT_OP}, "/b": {"get": _EXIT_OP}, "/c": {"get": _EXIT_OP}, "/d": {"get": _EXIT_OP}}
EXIT_BODY = b'{"ok": true, "text": "caf\xc3\xa9 \\" \' \\\\ \x07"}'
CHARS_PER_EXCHANGE = 1250   # one entry of either file for this API (measured; only sizes the slow device)
_CHILD_RUNS: dict = {}


def child_run(report, extra=(), join_timeout=1.0, slower=1.0):
    """`st run` through harness/props/c16_child.py: a process of its own (same interpreter, same PYTHONPATH, i.e. the
    source tree under check), 4 operations x 3 examples, report files on a slow device, real sys.exit.  report = 'dir'
    (--report=vcr,har --report-dir) or 'path' (--report-vcr-path / --report-har-path).  Everything is read after the
    child has gone."""
    import subprocess

    raw = cli_schema(PATHS_EXIT)

    def respond(item):
        if item["target"].startswith("/openapi.json"):
            return 200, [("Content-Type", "application/json")], json.dumps(raw).encode()
        return 200, [("Content-Type", "application/json")], EXIT_BODY

    rec = Recorder(respond)
    core.SCRATCH.mkdir(exist_ok=True)
    td = tempfile.mkdtemp(dir=core.SCRATCH, prefix="c16_exit_")
    out = {"report": report}
    try:
        if report == "dir":
            rep = ["--report=vcr,har", f"--report-dir={td}/reports"]
            files = {"vcr.yaml": f"{td}/reports/vcr.yaml", "har.json": f"{td}/reports/har.json"}
        else:
            rep = [f"--report-vcr-path={td}/cassette.yaml", f"--report-har-path={td}/archive.json"]
            files = {"vcr.yaml": f"{td}/cassette.yaml", "har.json": f"{td}/archive.json"}
        args = ["run", f"http://127.0.0.1:{rec.port}/openapi.json", *rep, "--generation-database=none", "--suppress-health-check=all", "--no-color",
                "--max-examples", "3", "--phases", "fuzzing", "--checks", "not_a_server_error", "--seed", "1", "--output-sanitize", "false", *extra]
        # two handlers are shut down one after the other, each joins for join_timeout: the backlog of each file has to last longer
        free = 1500
        backlog_chars = 12 * CHARS_PER_EXCHANGE - free
        rate = backlog_chars / ((2 * min(join_timeout, 2.0) + 0.9) * slower)
        spec = {"args": args, "side": f"{td}/side.jsonl", "free_chars": free, "rate": rate}
        t0 = time.monotonic()
        try:
            p = subprocess.run([sys.executable, "-m", "harness.props.c16_child"], input=json.dumps(spec), capture_output=True, text=True, timeout=120,
                               cwd=str(core.VERIF), env=os.environ.copy())
            out["exit"], out["console"], out["stderr"] = p.returncode, p.stdout[-1500:], p.stderr[-1500:]
        except subprocess.TimeoutExpired:
            out["exit"], out["console"], out["stderr"] = "timeout", "", ""
        out["wall"] = round(time.monotonic() - t0, 1)
        notes = []
        if os.path.exists(spec["side"]):
            notes = [json.loads(line) for line in open(spec["side"], encoding="utf8") if line.strip()]
        out["source"] = next((n["source"] for n in notes if "source" in n), None)
        out["delivered"] = [(n["delivered"], n["uri"]) for n in notes if "delivered" in n]
        out["shutdown"] = {n["shutdown"]: n for n in notes if "shutdown" in n}
        out["thread_died"] = [n["error"] for n in notes if "thread_died" in n]
        out["server_ids"] = [dict((k.lower(), v) for k, v in r["headers"]).get("x-schemathesis-testcaseid") for r in rec.take()]
        out["server_ids"] = [i for i in out["server_ids"] if i]
        for name, path in files.items():
            out[name] = open(path, encoding="utf8", newline="").read() if os.path.exists(path) else None
        out["argv"] = [a.replace(td, "<dir>").replace(str(rec.port), "<port>") for a in args]
        out["device"] = {"free_chars": free, "chars_per_second_after_shutdown_began": round(rate)}
    finally:
        rec.close()
        shutil.rmtree(td, ignore_errors=True)
    return out


def child_problems(out):
    """Oracle over what is on disk after the process has exited: both files parse and hold every exchange exactly once."""
    problems = []
    ids = [cid for cid, _ in out["delivered"]]
    uris = dict(out["delivered"])
    if out["exit"] != 0:
        problems.append(f"the run ended with exit code {out['exit']}: {out['stderr'][-300:]}")
    body_text = EXIT_BODY.decode("utf8")
    y = yaml_load(out["vcr.yaml"] or "")
    if out["vcr.yaml"] is None:
        problems.append("vcr.yaml was not written")
    elif y[0] != "ok" or not isinstance(y[1], dict):
        problems.append(f"VCR cassette is not YAML ({str(y[1])[:160]}); the file ends with {out['vcr.yaml'][-60:]!r}")
    elif yaml_load(out["vcr.yaml"], c_loader=True) != y:
        problems.append("VCR cassette: the libyaml loader does not read what the Python loader reads")
    else:
        entries = y[1].get("http_interactions") or []
        got = [e.get("id") for e in entries]
        if got != ids:
            problems.append(f"VCR cassette holds {len(got)} of the {len(ids)} exchanges that were delivered (missing: {[i for i in ids if i not in got][:12]}, extra: {[i for i in got if i not in ids][:3]})")
        for e in entries:
            resp = e.get("response")
            body = resp.get("body") if isinstance(resp, dict) else None
            body_ok = isinstance(body, dict) and (b64(body["base64_string"]) == EXIT_BODY if "base64_string" in body else body.get("string") == body_text)
            if not isinstance(resp, dict) or "http_version" not in resp or not body_ok:
                problems.append(f"VCR entry {e.get('id')} is cut off or its body differs from what the server sent: {str(resp)[-120:]}")
                break
            if e["request"]["uri"] != uris.get(e.get("id")):
                problems.append(f"VCR entry {e.get('id')}: uri {e['request']['uri']!r} is not the one that was sent")
                break
    if out["har.json"] is None:
        problems.append("har.json was not written")
    else:
        try:
            entries = json.loads(out["har.json"])["log"]["entries"]
            got = [e["request"]["url"] for e in entries]
            if got != [u for _, u in out["delivered"]]:
                problems.append(f"HAR file holds {len(got)} of the {len(ids)} exchanges that were delivered")
            elif any((b64(e["response"]["content"].get("text") or "") != EXIT_BODY) if e["response"]["content"].get("encoding") == "base64" else (e["response"]["content"].get("text") != body_text) for e in entries):
                problems.append("HAR entry: response text differs from what the server sent")
        except (ValueError, KeyError, TypeError) as exc:
            problems.append(f"HAR file is not valid JSON/HAR ({type(exc).__name__}: {str(exc)[:100]}); the file ends with {out['har.json'][-40:]!r}")
    if out["thread_died"]:
        problems.append(f"a cassette writer thread died: {out['thread_died']}")
    return problems


def child_conclusive(out):
    """The run is a witness of the lifecycle only if both joins returned while the writer still had a backlog."""
    sd = out["shutdown"]
    return bool(out["delivered"]) and set(sd) == {"vcr", "har"} and all(n["alive_after_join"] for n in sd.values())


def get_child_run(report, extra=(), join_timeout=1.0):
    key = (report, tuple(extra))
    if key not in _CHILD_RUNS:
        out = child_run(report, extra, join_timeout)
        if out["exit"] == 0 and not child_conclusive(out):
            out = child_run(report, extra, join_timeout, slower=2.0)  # a loaded machine: the engine was slower than the device
        _CHILD_RUNS[key] = out
    return _CHILD_RUNS[key]


def stage_process_exit(chk, quick):
    from concurrent.futures import ThreadPoolExecutor

    params = chk.stages.get("writer_lifecycle", {}).get("parameters", {})
    joins = [t for ts in params.get("join", {}).values() for t in ts if isinstance(t, (int, float))]
    join_timeout = float(max(joins)) if joins else 1.0
    plan = [("dir", ()), ("path", ())]
    if not quick or chk.broken:
        plan += [("dir", ("--report-preserve-bytes",)), ("dir", ("--workers", "2"))]
    with ThreadPoolExecutor(max_workers=2) as pool:
        outs = list(pool.map(lambda rx: get_child_run(rx[0], rx[1], join_timeout), plan))
    stats = {"runs": len(plan), "conclusive": 0, "clean": 0, "join_timeout_read": join_timeout, "wall": [o["wall"] for o in outs]}
    src = os.path.realpath(os.path.dirname(__import__("schemathesis").__file__))
    for (report, extra), out in zip(plan, outs):
        case = {"child_process": "st " + " ".join(out.get("argv", [])), "report_paths": report, "slow_device": out.get("device")}
        chk.seen(case, True)
        chk.count(f"process_exit:{report}")
        if out.get("source") is None or os.path.realpath(os.path.dirname(out["source"])) != src:
            chk.disagree("the child process did not import schemathesis from the tree under check", case, [out.get("source"), out.get("stderr", "")[-400:]], src)
            continue
        if not out["delivered"] or sorted(out["server_ids"]) != sorted(cid for cid, _ in out["delivered"]):
            chk.disagree("child run: the exchanges delivered to the reporters are not the requests the loopback server saw (nothing to compare with)", case,
                         [len(out["delivered"]), out["console"][-300:], out["stderr"][-300:]], len(out["server_ids"]))
            continue
        if not child_conclusive(out):
            chk.count("process_exit:join-did-not-time-out")
            chk.notes.append(f"process_exit [{report}]: the join did not time out inside the backlog ({out['shutdown']}): the run is no witness of the lifecycle")
        else:
            stats["conclusive"] += 1
        problems = child_problems(out)
        if not problems:
            stats["clean"] += 1
            continue
        sd = out["shutdown"]
        daemon = any(n.get("daemon") for n in sd.values())
        region = "click_owned_report_file" if report == "path" and not daemon and child_conclusive(out) else None
        chk.fail(f"real st run in a process of its own, reports re-read after exit [{report}{' ' + ' '.join(extra) if extra else ''}]: {problems[0]}", case,
                 {"problems": problems, "exit_code": out["exit"], "delivered": len(out["delivered"]), "shutdown": sd, "console_tail": out["console"][-200:]}, region=region)
    chk.stages["process_exit"] = stats


# ----------------------------------------------------------------------------------------
# listed findings: canonical witnesses replayed on the implementation
# ----------------------------------------------------------------------------------------
def witness_fails(w, fixed=False) -> bool:
    kind = w["kind"]
    if kind == "cli":
        return cli_witness(w["scenario"])[0]
    if kind == "vcr_stub":
        it = unjsonable(w["exchange"])
        rec, ids = make_recorder([it])
        text, exc = run_writer("vcr", [rec], False, w.get("preserve", False), argv=w.get("argv"))
        if exc is not None:
            return True
        y = yaml_load(text)
        if y[0] != "ok":
            return True
        entries = y[1].get("http_interactions") or []
        return [e.get("id") for e in entries] != ids or bool(compare_vcr_entry(entries[0], it, w.get("preserve", False)))
    if kind == "cli_abort":
        # the run is aborted by one of the listed exception classes while the JUnit report is produced.  For a finding that is fixed the witness
        # run must in addition satisfy the whole report oracle (exit code, junit.xml with its failure elements, complete cassettes)
        out, _ = run_named(w["scenario"])
        aborted = out["exception"] is not None and out["exception"].split(":")[0] in w["exceptions"] and "junitxml.py" in out["console"] and "Internal Error" in out["console"]
        return aborted or (fixed and cli_witness(w["scenario"])[0])
    if kind == "cli_child":
        out = get_child_run(w["report"])
        return child_conclusive(out) and bool(child_problems(out))
    if kind == "libyaml_text":
        s = "".join(chr(c) for c in w["text"])
        return yaml_load(impl_wdq(s), c_loader=True) != ("ok", s)
    raise ValueError(kind)


# ----------------------------------------------------------------------------------------
def run(chk: core.Check):
    quick = chk.tier == "quick"
    chk.trusted = [
        "Coq 8.16.1 kernel, vm_compute (witness lemmas and model evaluation); no axioms",
        "hand-written model theories/C16/Model_C16.v of write_double_quoted (functional form and index loop), the quoting sites of vcr_writer, "
        "json.dumps(ensure_ascii), one-line YAML 1.1 flow-scalar decoders after PyYAML/libyaml, Statistic.on_scenario_finished + "
        "JunitXMLHandler.handle_event, CassetteWriter's queue protocol and which entries raise inside the writer thread",
        "correspondence harness harness/props/c16.py (encoders, Coq output parser, canonicalisers, generators, stub recorders)",
        "PyYAML 6 (SafeLoader and the libyaml CSafeLoader), json, xml.etree as the independent readers of the report files; the loopback "
        "server harness/loopback.py as the witness of what was sent",
    ]
    chk.assumptions = [
        "whole-document grammars (YAML block structure, HAR schema, JUnit XML) are not modelled: they are exercised only by re-parsing complete files",
        "the Coq decoders answer None on line folding (raw or escaped line breaks inside a scalar): they accept less than YAML, never more "
        "(validated per run against PyYAML and libyaml on generated scalar texts)",
        "failure identity is (class, operation, _unique_key) as Failure.__eq__ defines it; case ids are unique within a run",
        "engine-emitted histories: any sequence of ScenarioFinished (any phase, event label, status, skip_reason, is_final, any recorder), NonFatalError and EngineFinished events; "
        "delivered to the reporters = the interactions of the recorder of every ScenarioFinished event handed to handle_event (a final replay is real traffic with fresh case ids)",
        "response.text raises for a non-empty payload LookupError (charset Python does not know), a UnicodeError (codec that raises; UnicodeDecodeError for undecodable bytes) or "
        "ValueError (charset name with a NUL character) and nothing else (Model_C16 text_exn_of; 60000 names probed while following 22e8a9e1); format_failures catches the first two "
        "families (catches_unicode_and_lookup), region junit_failure_text_bad_charset_name = the third",
        "process exit (Model_C16 Part 5, exit_step): sys.exit unwinds the Click context, which closes the click.File handles it created (measured per run "
        "on click.Context.close), then threading._shutdown joins every non-daemon thread without a timeout and daemon threads never run again; the writer "
        "takes one queue item at a time and may be arbitrarily slow (validated by real child-process runs whose report files are re-read after the exit)",
    ]
    chk.rule = (
        "one PRNG (VERIF_SEED): strings over 59 boundary code points of every escaper class (controls, DEL, C1, NEL, NBSP, LS/PS, BOM, surrogates, "
        "FFFE/FFFF, astral) mixed with uniform code points; scalar texts over an alphabet of quotes, escapes and indicators for the decoders; exchanges "
        "with URL quotes/reserved characters/userinfo, latin-1 header values incl. controls, 16 payloads (empty, invalid UTF-8, NUL, line breaks, all 256 bytes), "
        "network errors without response, 7+4 encodings, meta none/fuzzing/coverage/stateful, check lists; event histories over 1-5 labels x 1-6 failure "
        "identities x 7 statuses (rediscovery under another label is frequent); cassette histories with raising entries; schedules of main-thread / writer / join-timeout steps (writer speeds 0 to 2 items per put, "
        "the join returning, timing out at once or anywhere in the backlog, blocked then timing out, no exit) x report file owned by Click or not; real child "
        "processes running st run with 12 exchanges and report files on a slow device (--report-dir and --report-*-path); real st run invocations against "
        "a loopback API answering with nasty payloads; whole ScenarioFinished events (5 phases x event label none / recorder label / another label x 5 statuses x skip_reason x "
        "is_final x recorder with 0-3 cases, responses, network errors, unknown / raising charsets (5 of 14 responses) and charset names with a NUL character (1 of 14)) in four shapes (independent attributes, a stateful run whose failing "
        "sequence is replayed as a final scenario with fresh case ids, unit phases with the final empty ERROR event, everything final) through ExecutionContext + the real "
        "CassetteWriter (VCR, HAR) + JunitXMLHandler; a real stateful st run whose linked step meets a transport error (final replay). non-trivial = needs escaping / has a payload or a fault / has a FAILURE event; distinct by canonical JSON"
    )
    chk.proofs(["Common", "C16"])

    # the witnesses of the repaired findings first (their real runs are cached and used again by stage_cli): the return of a repaired defect
    # is then the first failing input of the report ("fixed finding ... is back")
    for f in chk.findings:
        if f.get("status") == "fixed":
            chk.known(f, witness_fails(f["witness"], fixed=True))

    stage_tables(chk)
    stage_escaper(chk, 1200 if quick else 12000)
    stage_decoders(chk, 1200 if quick else 12000)
    stage_writers(chk, 250 if quick else 3000)
    stage_sequences(chk, (150 if quick else 1500) * (5 if chk.broken else 1))
    stage_junit(chk, 300 if quick else 4000)
    stage_cassette_thread(chk, 40 if quick else 400)
    stage_event_space(chk, (80 if quick else 800) * (5 if chk.broken else 1))
    stage_lifecycle(chk, 60 if quick else 600)
    stage_cli(chk, quick)
    stage_process_exit(chk, quick)

    for f in chk.findings:
        if f.get("status") != "fixed":
            chk.known(f, witness_fails(f["witness"]))


def replay(payload) -> int:
    for f in payload.get("failing_inputs", []):
        print("failing input:", f.get("what"))
        print("  input :", json.dumps(f.get("input"), default=str)[:800])
        print("  detail:", str(f.get("detail"))[:800])
        inp = f.get("input") or {}
        if isinstance(inp, dict) and "schedule" in inp:
            entries, state, exited, notes = run_lifecycle(inp["format"], inp["sanitize"], inp["preserve"], inp["history"], inp["report_file_owned_by_click"], list(inp["schedule"]))
            print("  replayed: in the file", entries, "| writer", state, "| exited", exited, "|", notes)
        if isinstance(inp, dict) and "history" in inp and "format" not in inp and "sanitize" in inp:
            h = [tuple(e) for e in inp["history"]]
            out = run_fhistory(h, inp["sanitize"], inp["preserve"])
            print("  replayed: delivered", [cid for cid, _ in out["delivered"]], "| vcr.yaml", out["VCR"], "| har.json", out["HAR"], "| writers", out.get("end"), "| crash", out["crash"])
        if isinstance(inp, dict) and "child_process" in inp:
            out = child_run(inp["report_paths"])
            print("  replayed: exit code", out["exit"], "| delivered", len(out["delivered"]), "| shutdown", out["shutdown"])
            for problem in child_problems(out):
                print("    -", problem[:300])
        if isinstance(inp, dict) and "exchange" in inp:
            it = unjsonable(inp["exchange"])
            rec, _ = make_recorder([it])
            text, exc = run_writer("vcr", [rec], False, inp.get("preserve", False))
            print("  replayed: vcr_writer", "raised " + repr(exc) if exc else yaml_load(text)[0])
    for b in payload.get("broken_obligations_or_correspondence", []):
        print("broken:", b.get("kind"), b.get("what"))
        inp = b.get("input")
        if b.get("kind") == "correspondence" and isinstance(inp, list) and all(isinstance(c, int) for c in inp):
            s = "".join(chr(c) for c in inp)
            (m,) = core.coq_eval(IMPORTS, [f"write_double_quoted {cstr(s)}"])
            print("  implementation:", repr(impl_wdq(s)))
            print("  model         :", repr(pstr(m)))
        else:
            print("  implementation:", str(b.get("implementation"))[:600])
            print("  model         :", str(b.get("model"))[:600])
    return 0
