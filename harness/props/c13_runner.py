"""C13 - one engine run with the entropy boundary instrumented (used in-process and as a fresh subprocess).

    /venv/bin/python -m harness.props.c13_runner < spec.json > result.json

spec: {"schema": <raw dict> | {"files": {name: dict}, "entry": name}, "phases": [...], "modes": ["positive", ...], "seed": int,
       "headers": {generic request headers = NetworkConfig.headers}, "override": {"query"|"headers"|"cookies"|"path_parameters": {..}},
       "slow_prefix": "/op0", "slow_s": 0.1 (the API answers slowly for that path), "preimport": bool,
       "workers": n, "max_examples": k, "step_count": k | null, "responder": "ok" | "fail500", "repeat": n}
       optional per run: "generation": {"allow_x00": bool, "codec": str|null, "header_strategy": name|null, "graphql_allow_null": bool,
       "with_security_parameters": bool} (also given to schema.configure), "formats": {format name: strategy name} (registered through
       schemathesis.openapi.format for this run only and unregistered afterwards), "graphql": SDL text instead of "schema",
       "carriers": [{"id", "module", "name", "call"}] process-wide containers to snapshot right before and right after the run
   or {"sequence": [spec, spec, ...]}: the runs are executed one after the other IN THIS PROCESS (multi-file schemas with the same
       content share one directory, so that file-keyed caches are shared too)
   or {"reuse": spec, "runs": n}: the configuration objects (EngineConfig / ExecutionConfig / NetworkConfig / GenerationConfig / Override)
       and the loaded schema object are built ONCE and handed to n engine runs one after the other (what a caller that keeps its
       objects does); every run carries "cfg_before" / "cfg_after": deep field-by-field dumps of these objects
result: {"runs": [{"requests": [...], "failures": [...], "entropy": [...], "seed_calls": [...], "snap_before": [[site, key, value]..], "snap_after": [...]}]}

What is recorded besides the traffic:
* every call of hypothesis.core.get_random_for_wrapped_test (the one place where Hypothesis chooses the PRNG of a test):
  test name, explicit seed (hypothesis.seed), derandomize, thread, and - through a counting Random - how many times the PRNG it
  handed out was consulted.  An unseeded test whose PRNG was consulted is an *ambient draw that reached the data*.
* every call of hypothesis.seed (value), in order.
* os.urandom calls made from schemathesis.transport.requests.choose_boundary / urllib3 choose_boundary (multipart boundary).
"""
from __future__ import annotations

import json
import random
import shutil
import sys
import tempfile
import threading
from pathlib import Path

NOISE_HEADERS = {"x-schemathesis-testcaseid", "host"}

_LOCK = threading.Lock()
_CURRENT: dict = {"entropy": [], "seed_calls": [], "boundary": [], "phase": None}
_INSTALLED = False
_THREAD_REC: dict = {}


class CountingRandom(random.Random):
    """random.Random that counts how often it is consulted (all derived methods go through these two)."""

    def __init__(self, seed, record):
        self._record = record
        super().__init__(seed)

    def random(self):
        self._record["consulted"] += 1
        return super().random()

    def getrandbits(self, k):
        self._record["consulted"] += 1
        return super().getrandbits(k)


def install():
    """Instrument the Hypothesis boundary (idempotent)."""
    global _INSTALLED
    if _INSTALLED:
        return
    _INSTALLED = True
    import hypothesis
    import hypothesis.core as hc

    original = hc.get_random_for_wrapped_test

    def get_random_for_wrapped_test(test, wrapped_test):
        rnd = original(test, wrapped_test)
        explicit = getattr(wrapped_test, "_hypothesis_internal_use_seed", None)
        settings = wrapped_test._hypothesis_internal_use_settings
        rec = {
            "test": getattr(test, "__qualname__", getattr(test, "__name__", "?")),
            "seed": explicit,
            "derandomize": bool(settings.derandomize),
            "thread": threading.current_thread().name,
            "phase": _CURRENT["phase"],
            "consulted": 0,
            "pool": [],
        }
        with _LOCK:
            _CURRENT["entropy"].append(rec)
            _THREAD_REC[rec["thread"]] = rec
        counting = CountingRandom(0, rec)
        counting.setstate(rnd.getstate())
        return counting

    hc.get_random_for_wrapped_test = get_random_for_wrapped_test

    # Hypothesis keeps a process-global pool of constants collected from the *local* (not site-packages) modules present in
    # sys.modules, refreshed once per generated input.  Record, per test, the sizes of the pool it saw.
    import hypothesis.internal.conjecture.providers as hp

    original_constants = hp._get_local_constants

    def _get_local_constants():
        out = original_constants()
        rec = _THREAD_REC.get(threading.current_thread().name)
        if rec is not None:
            try:
                size = len(out)
            except TypeError:
                size = -1
            if not rec["pool"] or rec["pool"][-1] != size:
                rec["pool"].append(size)
        return out

    hp._get_local_constants = _get_local_constants

    original_seed = hypothesis.seed

    def seed(value):
        with _LOCK:
            _CURRENT["seed_calls"].append([_CURRENT["phase"], value if isinstance(value, int) else repr(value)])
        return original_seed(value)

    hypothesis.seed = seed
    hc.seed = seed

    import schemathesis.transport.requests as tr

    original_boundary = tr.choose_boundary

    def choose_boundary():
        with _LOCK:
            _CURRENT["boundary"].append(_CURRENT["phase"])
        return original_boundary()

    tr.choose_boundary = choose_boundary
    try:
        import urllib3.filepost as fp

        original_fp = fp.choose_boundary

        def fp_boundary():
            with _LOCK:
                _CURRENT["boundary"].append(_CURRENT["phase"])
            return original_fp()

        fp.choose_boundary = fp_boundary
    except Exception:  # noqa: BLE001
        pass


# ---- snapshots of process-wide containers (tokens are small integers, stable inside this process; every tokenised object is kept
# alive so that an id is never reused)
_TOKENS: dict = {}
_KEEP: list = []


def _token(obj) -> int:
    if isinstance(obj, (str, bytes, int, float, bool, type(None))) or (isinstance(obj, tuple) and all(isinstance(x, (str, int, type(None))) for x in obj)):
        key = ("v", repr(obj))
    else:
        key = ("o", id(obj))
        _KEEP.append(obj)
    if key not in _TOKENS:
        _TOKENS[key] = len(_TOKENS) + 1
    return _TOKENS[key]


def _pair(a: int, b: int) -> int:
    return _token(("pair", a, b))


def _entries_of(obj, depth: int) -> list:
    """(key token, value token) of a container; dict-valued entries of identity-keyed caches are flattened one level."""
    from collections.abc import Mapping

    out = []
    if isinstance(obj, Mapping):
        for k, v in list(obj.items()):
            kt = _token(k)
            if depth > 0 and isinstance(v, Mapping):
                for k2, v2 in list(v.items()):
                    out.append((_pair(kt, _token(k2 if isinstance(k2, (str, int)) else repr(k2))), _token(v2)))
            else:
                out.append((kt, _token(v)))
    elif isinstance(obj, (list, tuple)):
        out.append((_token("len"), _token(len(obj))))
        for i, v in enumerate(obj):
            out.append((_token(i), _token(v)))
    elif isinstance(obj, (set, frozenset)):
        out.append((_token("len"), _token(len(obj))))
        for v in obj:
            out.append((_token(v if isinstance(v, (str, int)) else repr(v)), _token(True)))
    else:
        out.append((_token("self"), _token(obj)))
    return out


def snapshot(carriers) -> list:
    import importlib

    out = []
    for c in carriers or []:
        try:
            mod = importlib.import_module(c["module"])
            obj = getattr(mod, c["name"])
            if c.get("call"):
                if obj.cache_info().currsize == 0:
                    continue  # not computed yet: nothing to compare
                obj = obj()
        except Exception:  # noqa: BLE001
            continue
        for kt, vt in _entries_of(obj, 1 if type(obj).__name__.startswith("Weak") else 0):
            out.append([c["id"], kt, vt])
    return out


def dump_objects(obj, path: str, out: list, depth: int = 0) -> None:
    """Deep dump: [field path, printable value]; dataclasses field by field, hypothesis.settings by their attribute values,
    containers element by element, anything else by type and identity (the objects are kept alive by the configuration)."""
    import dataclasses
    import enum

    import hypothesis
    from hypothesis._settings import all_settings

    if depth > 8:
        out.append([path, "<deep>"])
    elif obj is None or isinstance(obj, (bool, int, float, str, bytes)):
        out.append([path, repr(obj)])
    elif isinstance(obj, enum.Enum):
        out.append([path, f"{type(obj).__name__}.{obj.name}"])
    elif isinstance(obj, hypothesis.settings):
        out.append([path + "#type", "hypothesis.settings"])
        for name in all_settings:
            dump_objects(getattr(obj, name), f"{path}.{name}", out, depth + 1)
    elif dataclasses.is_dataclass(obj) and not isinstance(obj, type):
        out.append([path + "#type", type(obj).__qualname__])
        for f in dataclasses.fields(obj):
            dump_objects(getattr(obj, f.name, "<unset>"), f"{path}.{f.name}", out, depth + 1)
    elif isinstance(obj, dict):
        out.append([path + "#len", str(len(obj))])
        for k in sorted(obj, key=repr):
            dump_objects(obj[k], f"{path}[{k!r}]", out, depth + 1)
    elif isinstance(obj, (list, tuple)):
        out.append([path + "#len", str(len(obj))])
        for i, v in enumerate(obj):
            dump_objects(v, f"{path}[{i}]", out, depth + 1)
    elif isinstance(obj, (set, frozenset)):
        out.append([path + "#len", str(len(obj))])
        for i, v in enumerate(sorted(obj, key=repr)):
            dump_objects(v, f"{path}{{{i}}}", out, depth + 1)
    elif callable(obj) and hasattr(obj, "__qualname__"):
        out.append([path, f"{getattr(obj, '__module__', '?')}.{obj.__qualname__}@{_token(obj)}"])
    else:
        out.append([path, f"<{type(obj).__qualname__}>@{_token(obj)}"])


def dump_inputs(config, schema) -> list:
    """The input objects of a run as the caller sees them."""
    import hashlib

    out: list = []
    dump_objects(config, "config", out)
    for name in ("location", "base_url", "app", "test_function", "generation_config", "output_config", "rate_limiter"):
        if hasattr(schema, name):
            dump_objects(getattr(schema, name), f"schema.{name}", out)
    raw = getattr(schema, "raw_schema", None)
    if isinstance(raw, dict):
        out.append(["schema.raw_schema#sha", hashlib.sha1(json.dumps(raw, sort_keys=True, default=repr).encode()).hexdigest()[:16]])
    return out


def named_strategy(name: str):
    from hypothesis import strategies as st

    return {
        "digits": st.text(alphabet="0123456789", min_size=4, max_size=8),
        "words": st.sampled_from(["alpha", "beta", "gamma"]),
        "upper": st.text(alphabet="ABCDEF", min_size=1, max_size=5),
    }[name]


def canonical(reqs) -> list:
    out = []
    for r in reqs:
        hs = sorted([k.lower(), v] for k, v in r["headers"] if k.lower() not in NOISE_HEADERS)
        out.append({"method": r["method"], "target": r["target"], "headers": hs, "body": r["body"].decode("latin-1")})
    return out


def responder_for(name, slow_prefix=None, slow_s=0.0):
    import time

    def ok(item):
        if slow_prefix and item["target"].startswith(slow_prefix):
            time.sleep(slow_s)  # a slow operation: with several workers the other threads take the later operations
        path = item["target"].split("?")[0]
        if path.startswith("/graphql"):
            return 200, [("Content-Type", "application/json")], b'{"data": {}}'
        if item["method"] == "POST" and path.rstrip("/").count("/") == 1:
            return 201, [("Content-Type", "application/json")], b'{"id": 1}'
        return 200, [("Content-Type", "application/json")], b"{}"

    def fail500(item):
        path = item["target"].split("?")[0]
        if item["method"] == "POST" and path.rstrip("/").count("/") == 1:
            return 201, [("Content-Type", "application/json")], b'{"id": 1}'
        return 500, [("Content-Type", "application/json")], b"{}"

    return {"ok": ok, "fail500": fail500}[name]


def run_spec(spec: dict, shared: dict | None = None) -> dict:
    """One engine run (deterministic loopback API); returns traffic + entropy records.  With `shared` (a dict the caller keeps) the
    recorder, the schema object and the configuration objects are built by the first call and REUSED by the later ones."""
    import hypothesis

    import schemathesis
    from schemathesis.engine import events, from_schema
    from schemathesis.engine.config import EngineConfig, ExecutionConfig, NetworkConfig
    from schemathesis.engine.phases import PhaseName
    from schemathesis.generation import GenerationConfig, GenerationMode

    from harness import core
    from harness.loopback import Recorder

    install()
    if spec.get("preimport"):
        # import every schemathesis module up front: the constants pool is then complete before the first draw
        import importlib
        import pkgutil

        for mod in pkgutil.walk_packages(schemathesis.__path__, "schemathesis."):
            try:
                importlib.import_module(mod.name)
            except Exception:  # noqa: BLE001
                pass
        # ... and build the pool once, here, before any worker thread exists: its first construction is not atomic (a thread that
        # starts drawing while another one is still harvesting sees a partial pool - finding F6)
        import hypothesis.internal.conjecture.providers as hp

        hp._get_local_constants()
    with _LOCK:
        _THREAD_REC.clear()
        _CURRENT["entropy"] = []
        _CURRENT["seed_calls"] = []
        _CURRENT["boundary"] = []
        _CURRENT["phase"] = None
    reuse = shared is not None and "config" in shared
    rec = shared["rec"] if reuse else Recorder(responder_for(spec.get("responder", "ok"), spec.get("slow_prefix"), spec.get("slow_s", 0.0)))
    tmp = None
    registered: list = []
    try:
        if reuse:
            return _execute(spec, shared["schema"], shared["config"], rec, registered)
        sch = spec.get("schema")
        generation = GenerationConfig(modes=[GenerationMode(m) for m in spec.get("modes", ["positive"])])
        gen_spec = spec.get("generation")
        if gen_spec is not None:
            from schemathesis.generation import HeaderConfig

            generation = GenerationConfig(
                modes=[GenerationMode(m) for m in spec.get("modes", ["positive"])],
                allow_x00=gen_spec.get("allow_x00", True),
                codec=gen_spec.get("codec", "utf-8"),
                graphql_allow_null=gen_spec.get("graphql_allow_null", True),
                with_security_parameters=gen_spec.get("with_security_parameters", True),
                headers=HeaderConfig(strategy=named_strategy(gen_spec["header_strategy"]) if gen_spec.get("header_strategy") else None),
            )
        if spec.get("graphql") is not None:
            schema = schemathesis.graphql.from_file(spec["graphql"])
            schema.configure(base_url=rec.url + "/graphql")
        elif "files" in sch and "entry" in sch:
            directory = spec.get("_dir")
            if directory is None:
                core.SCRATCH.mkdir(exist_ok=True)
                directory = tmp = tempfile.mkdtemp(dir=core.SCRATCH, prefix="c13_")
            for name, content in sch["files"].items():
                target = Path(directory) / name
                if not target.exists():
                    target.write_text(json.dumps(content))
            schema = schemathesis.openapi.from_path(str(Path(directory) / sch["entry"]))
            schema.configure(base_url=rec.url)
        else:
            schema = schemathesis.openapi.from_dict(sch)
            schema.configure(base_url=rec.url)
        if gen_spec is not None:
            schema.configure(generation=generation)
        for fmt, strategy_name in (spec.get("formats") or {}).items():
            schemathesis.openapi.format(fmt, named_strategy(strategy_name))
            registered.append(fmt)
        snap_before = snapshot(spec.get("carriers"))
        kw = {}
        if spec.get("step_count") is not None:
            kw["stateful_step_count"] = spec["step_count"]
        if spec.get("settings") == "minimal":
            # what a user of the Python API typically writes: everything else stays at Hypothesis' defaults
            settings = hypothesis.settings(max_examples=spec.get("max_examples", 4), deadline=None, database=None, **kw)
        else:
            settings = hypothesis.settings(
                max_examples=spec.get("max_examples", 4),
                deadline=None,
                database=None,
                derandomize=bool(spec.get("derandomize", False)),
                suppress_health_check=list(hypothesis.HealthCheck),
                **kw,
            )
        exe = ExecutionConfig(
            phases=[PhaseName.from_str(p) for p in spec["phases"]],
            hypothesis_settings=settings,
            generation=generation,
            seed=spec.get("seed"),
            workers_num=spec.get("workers", 1),
            max_failures=spec.get("max_failures"),
        )
        override = None
        if spec.get("override") is not None:
            from schemathesis.generation.overrides import Override

            ov = spec["override"]
            override = Override(query=dict(ov.get("query", {})), headers=dict(ov.get("headers", {})), cookies=dict(ov.get("cookies", {})),
                                path_parameters=dict(ov.get("path_parameters", {})))
        config = EngineConfig(execution=exe, network=NetworkConfig(headers=dict(spec.get("headers") or {})), override=override)
        if shared is not None:
            shared.update({"rec": rec, "schema": schema, "config": config, "tmp": tmp})
            tmp = None
        return _execute(spec, schema, config, rec, registered, snap_before)
    finally:
        for fmt in registered:
            try:
                from schemathesis.specs.openapi import unregister_string_format

                unregister_string_format(fmt)
            except Exception:  # noqa: BLE001
                pass
        if shared is None:
            rec.close()
        if tmp:
            shutil.rmtree(tmp, ignore_errors=True)


def _execute(spec: dict, schema, config, rec, registered: list, snap_before=None) -> dict:
    from schemathesis.engine import events, from_schema

    if snap_before is None:
        snap_before = snapshot(spec.get("carriers"))
    if True:
        cfg_before = dump_inputs(config, schema) if spec.get("dump_inputs") else []
        failures = []
        errors = []
        phase_of_request = []
        for ev in from_schema(schema, config=config).execute():
            if isinstance(ev, events.ScenarioFinished):
                names = sorted(
                    {chk.name for checks in ev.recorder.checks.values() for chk in checks if chk.status.name == "FAILURE"}
                )
                failures.append([ev.phase.name, ev.label, ev.status.name, names])
            elif isinstance(ev, events.NonFatalError):
                errors.append([ev.phase.name, ev.label, type(ev.value).__name__ if hasattr(ev, "value") else "error"])
            elif isinstance(ev, events.PhaseStarted):
                with _LOCK:
                    _CURRENT["phase"] = ev.phase.name.name
            elif isinstance(ev, events.PhaseFinished):
                with rec.lock:
                    phase_of_request.append([ev.phase.name.name, len(rec.requests)])
        reqs = rec.take()
        snap_after = snapshot(spec.get("carriers"))
        cfg_after = dump_inputs(config, schema) if spec.get("dump_inputs") else []
        with _LOCK:
            entropy = [dict(e) for e in _CURRENT["entropy"]]
            seed_calls = list(_CURRENT["seed_calls"])
            boundary = list(_CURRENT["boundary"])
        return {
            "requests": canonical(reqs),
            "failures": failures,
            "errors": errors,
            "phase_marks": phase_of_request,
            "entropy": entropy,
            "seed_calls": seed_calls,
            "boundary_draws": boundary,
            "snap_before": snap_before,
            "snap_after": snap_after,
            "cfg_before": cfg_before,
            "cfg_after": cfg_after,
        }


def main() -> int:
    from harness import core

    core.assert_repo_import()
    spec = json.load(sys.stdin)
    if "sequence" in spec:
        # several runs, possibly with different configurations, one after the other in this process
        dirs: dict = {}
        try:
            runs = []
            for one in spec["sequence"]:
                sch = one.get("schema")
                if isinstance(sch, dict) and "files" in sch and "entry" in sch:
                    key = json.dumps(sch, sort_keys=True)
                    if key not in dirs:
                        core.SCRATCH.mkdir(exist_ok=True)
                        dirs[key] = tempfile.mkdtemp(dir=core.SCRATCH, prefix="c13_seq_")
                    one = {**one, "_dir": dirs[key]}
                runs.append(run_spec(one))
        finally:
            for d in dirs.values():
                shutil.rmtree(d, ignore_errors=True)
    elif "reuse" in spec:
        # the SAME configuration / schema objects for every run (a caller that keeps its objects)
        shared: dict = {}
        try:
            runs = [run_spec(spec["reuse"], shared) for _ in range(spec.get("runs", 2))]
        finally:
            if shared.get("rec") is not None:
                shared["rec"].close()
            if shared.get("tmp"):
                shutil.rmtree(shared["tmp"], ignore_errors=True)
    else:
        runs = [run_spec(spec) for _ in range(spec.get("repeat", 1))]
    json.dump({"runs": runs}, sys.stdout)
    return 0


if __name__ == "__main__":
    sys.exit(main())
