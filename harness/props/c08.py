"""C08 - every documented operation is offered with its effective parameters, or reported.

Stages: proofs (Properties_C08.v) -> correspondence: generated documents x generated access sequences on real schema
objects (schemathesis.openapi.from_dict) against Model_C08.run_views evaluated by vm_compute; region predicates; security
keys; JSON-pointer escaping of path keys (reference_of / path_of_reference / plain_entry / operation_ref_target) ->
oracle search on the implementation (cached lookups vs lookups on a fresh schema object; override precedence; every
operation Ok or Err; effective (name, location) keys incl. security-derived parameters for every access route against
an own oracle on the raw document; the reference round trip get_operation_by_reference(operation_reference) in every
access order and the link statistic; JSON vs YAML serialisation of the same document; two-file layouts) -> replay of
the listed findings.
"""
from __future__ import annotations

import copy
import json
import warnings

from harness import core
from harness.core import clist, cjson, cstr, pstr

LEVEL = "proof"
IMPORTS = ["Common.Str", "Common.Json", "C08.Model_C08"]

HTTP_METHODS = ["get", "put", "post", "delete", "options", "head", "patch", "trace"]
LOCS = ["path", "header", "cookie", "query"]


# ----------------------------------------------------------------------------------------
# exception classes and canonical views (implementation side)
# ----------------------------------------------------------------------------------------
def exc_class(e: BaseException) -> str:
    from schemathesis.core.compat import RefResolutionError
    from schemathesis.core.errors import InvalidSchema, OperationNotFound

    if isinstance(e, OperationNotFound):
        return "ENotFound"
    if isinstance(e, InvalidSchema):
        return "EInvalid"
    if isinstance(e, RefResolutionError):
        return "ERef"
    if isinstance(e, KeyError):
        return "EKey"
    if isinstance(e, AttributeError):
        return "EAttr"
    if isinstance(e, TypeError):
        return "EType"
    if isinstance(e, StopIteration):
        return "EStop"
    if isinstance(e, ValueError):
        return "EValue"
    if type(e) is LookupError:
        return "ELookup"
    return "EOther:" + type(e).__name__


def canon_schema(s):
    """A JSON Schema as produced by the implementation; the composite 2.0 form body is put in the model's shape."""
    return s


def composite_shape(s):
    return {
        "properties": [[k, v] for k, v in s["properties"].items()],
        "additionalProperties": s["additionalProperties"],
        "type": s["type"],
        "required": s["required"],
    }


def impl_op_view(op):
    from schemathesis.specs.openapi.parameters import OpenAPI20CompositeBody, parameters_to_json_schema

    locs = []
    for cont in (op.path_parameters, op.headers, op.cookies, op.query):
        try:
            sch = parameters_to_json_schema(op, cont)
            locs.append({"props": [[k, v] for k, v in sch["properties"].items()], "required": list(sch["required"])})
        except Exception as e:  # noqa: BLE001
            locs.append({"raises": exc_class(e)})
    body = []
    for p in op.body:
        try:
            s = p.as_json_schema(op)
            if isinstance(p, OpenAPI20CompositeBody):
                s = composite_shape(s)
            sch = {"schema": s}
        except Exception as e:  # noqa: BLE001
            sch = {"raises": exc_class(e)}
        try:
            req = bool(p.is_required)
        except Exception:  # noqa: BLE001
            req = False
        body.append({"media": getattr(p, "media_type", None), **sch, "required": req})
    return {"path": op.path, "method": op.method, "scope": op.definition.scope, "raw": op.definition.raw, "locs": locs, "body": body}


def impl_access(schema, a, seen=None):
    """One access on a real schema object -> canonical result.  `inst` is the position of the returned OBJECT among the
    distinct operation objects returned so far in the sequence (same object / another object)."""
    from schemathesis.core.result import Ok

    kind = a[0]
    if kind == "iter":
        items = []
        crash = None
        try:
            for r in schema.get_all_operations():
                if isinstance(r, Ok):
                    items.append({"ok": impl_op_view(r.ok())})
                else:
                    err = r.err()
                    items.append({"err": [err.path, err.method]})
        except Exception as e:  # noqa: BLE001
            crash = exc_class(e)
        return {"iter": items, "crash": crash}
    try:
        if kind == "get":
            op = schema[a[1]][a[2]]
        elif kind == "id":
            op = schema.get_operation_by_id(a[1])
        else:
            op = schema.get_operation_by_reference(a[1])
    except Exception as e:  # noqa: BLE001
        return {"raises": exc_class(e)}
    res = {"op": impl_op_view(op)}
    if seen is not None:
        idx = next((i for i, o in enumerate(seen) if o is op), None)
        if idx is None:
            seen.append(op)
            idx = len(seen) - 1
        res["inst"] = idx
    return res


def impl_run(doc, accs, fresh_each=False, loader=None):
    import schemathesis

    with warnings.catch_warnings():
        warnings.simplefilter("ignore")
        out = []
        schema = None
        seen = []  # operation objects returned by the lookups of this sequence, for the identity pattern
        for a in accs:
            if schema is None or fresh_each:
                schema = loader(doc) if loader else schemathesis.openapi.from_dict(copy.deepcopy(doc))
            r = impl_access(schema, a, seen=None if fresh_each else seen)
            out.append(r)
        return out


# ----------------------------------------------------------------------------------------
# model side: rendering and parsing
# ----------------------------------------------------------------------------------------
def version_of(doc) -> str:
    if "swagger" in doc:
        return "V20"
    return "V31" if str(doc.get("openapi", "")).startswith("3.1") else "V30"


def c_access(a) -> str:
    if a[0] == "iter":
        return "AIter"
    if a[0] == "get":
        return f"(AGet {cstr(a[1])} {cstr(a[2])})"
    if a[0] == "id":
        return f"(AById {cstr(a[1])})"
    return f"(AByRef {cstr(a[1])})"


def c_run(doc, accs) -> str:
    return f"(run_views {version_of(doc)} {cjson(doc)} {clist([c_access(a) for a in accs], 'access')})"


def pjson(v):
    if v == "JNull":
        return None
    tag = v[0]
    if tag in ("JBool", "JInt"):
        return v[1]
    if tag == "JStr":
        return pstr(v[1])
    if tag == "JArr":
        return [pjson(x) for x in v[1]]
    if tag == "JObj":
        return {pstr(k): pjson(x) for k, x in v[1]}
    raise ValueError(v)


class OutsideModel(Exception):
    pass


def p_exc(e):
    if e in ("EFuel", "ETruncated"):
        raise OutsideModel(e)
    return e


def p_res(v, f):
    if v[0] == "Val":
        return f(v[1])
    return {"raises": p_exc(v[1])}


def p_op_view(v):
    locs = []
    for lv in v["v_locs"]:
        locs.append(p_res(lv, lambda pr: {"props": [[pjson(k), pjson(s)] for k, s in pr[0]], "required": [pjson(x) for x in pr[1]]}))
    body = []
    for media, sch, req in v["v_body"]:
        body.append({"media": pjson(media), **p_res(sch, lambda s: {"schema": pjson(s)}), "required": req})
    return {"path": pstr(v["v_path"]), "method": pstr(v["v_method"]), "scope": pstr(v["v_scope"]), "raw": pjson(v["v_raw"]), "locs": locs, "body": body}


def p_result(v):
    if v[0] == "WIter":
        items = []
        for it in v[1]:
            if it[0] == "VOk":
                items.append({"ok": p_op_view(it[1])})
            else:
                m = it[2]
                items.append({"err": [pstr(it[1]), None if m is None else pstr(m[1])]})
        crash = v[2]
        return {"iter": items, "crash": None if crash is None else p_exc(crash[1])}
    r = v[1]
    if r[0] == "Val":
        return {"op": p_op_view(r[1])}
    return {"raises": p_exc(r[1])}


def model_run(cases):
    """cases: list of (doc, accs) -> list of (list of canonical results | None when outside the model)."""
    vals = core.coq_eval(IMPORTS, [c_run(d, a) for d, a in cases], shard=40)
    out = []
    for v in vals:
        try:
            rs = [p_result(x) for x in v]
        except OutsideModel:
            out.append(None)
            continue
        # identity pattern of the model: operations stored in the cache are pairwise different as values
        # (traversal key = scope, path, method), so "same instance" is "equal view, scope included"
        seen = []
        for r in rs:
            if "op" in r:
                if r["op"] not in seen:
                    seen.append(r["op"])
                r["inst"] = seen.index(r["op"])
        out.append(rs)
    return out


# ----------------------------------------------------------------------------------------
# generators
# ----------------------------------------------------------------------------------------
SCHEMAS = [
    {"type": "string"},
    {"type": "integer", "minimum": 1},
    {"enum": ["a", "b"]},
    {"type": "array", "items": {"type": "string"}, "x-note": 1},
    {"type": "string", "maxLength": 5, "title": "dropped", "default": "d"},
    {"type": "boolean"},
    {},
]
NAMES = ["q", "id", "X-A", "c", "q", "id", "limit", "é", "a b", ": x", ""]
PATHS = ["/a", "/b/{id}", "/c~d", "/e/f", "/users/{id}/x", "/g"]
JUNK = [None, 5, "x", [], {}, [5], ["x"], True, "", [[]], "$ref"]
MEDIA = ["application/json", "text/plain", "multipart/form-data", "application/x-www-form-urlencoded", "application/xml"]


# path keys that need JSON-pointer escaping beyond the slash (RFC 6901: ~ is ~0, / is ~1, so a literal ~1 is ~01), and
# path keys with percent signs (operation_reference leaves them alone, the resolver unquotes the fragment)
TILDE_PATHS = ["/a/v~1", "/x~0", "/t~01", "/t~10", "/w~~1", "/~", "/~1", "/m~1n/{id}", "/~0~1", "/n~", "/PROGRA~1/{id}", "/~{id}/x", "/é~1", "/a/v~1/"]
PCT_PATHS = ["/p%2Fq", "/p%7Eq", "/p%7E1", "/p%41", "/p%", "/p%zz", "/p%2f~1", "/%7E"]
PCT_RE = __import__("re").compile(r"%[0-9a-fA-F]{2}")


def esc_pointer(s: str) -> str:
    return s.replace("~", "~0").replace("/", "~1")


def unesc_pointer(s: str) -> str:
    """RFC 6901 section 4: first ~1 to /, then ~0 to ~ (own decoder of the oracles)."""
    out, i = [], 0
    while i < len(s):
        if s[i] == "~" and i + 1 < len(s) and s[i + 1] in "01":
            out.append("/" if s[i + 1] == "1" else "~")
            i += 2
        else:
            out.append(s[i])
            i += 1
    return "".join(out)


def confusable_paths(p: str) -> list[str]:
    """Other path keys a faulty pointer codec would confuse with p: decoding in the other order, not at all, twice,
    only one of the two substitutions, encoding in the other order, percent-unquoting."""
    from urllib.parse import unquote

    e = esc_pointer(p)
    cands = [
        e.replace("~0", "~").replace("~1", "/"),
        e,
        unesc_pointer(p),
        e.replace("~1", "/"),
        e.replace("~0", "~"),
        unesc_pointer(p.replace("/", "~1").replace("~", "~0")),
        unquote(p),
        unesc_pointer(unquote(p)),
    ]
    out = []
    for q in cands:
        if q and q != p and q not in out and q.startswith("/"):
            out.append(q)
    return out


def special_path(p: str) -> bool:
    return "~" in p or "%" in p


def pick_paths(rng, k):
    """k path keys; a third of the documents carry 1-2 keys with tildes / percent signs, most of those together with a
    key that a faulty pointer codec would confuse with them (/a/v~1 and /a/v/)."""
    if rng.random() >= 0.33:
        return rng.sample(PATHS, k)
    out = []
    for _ in range(rng.choice([1, 1, 2])):
        p = rng.choice(TILDE_PATHS) if rng.random() < 0.8 else rng.choice(PCT_PATHS)
        if p in out:
            continue
        out.append(p)
        conf = confusable_paths(p)
        if conf and rng.random() < 0.65:
            q = rng.choice(conf)
            if q not in out:
                out.append(q)
    for p in rng.sample(PATHS, max(0, k - len(out))):
        if p not in out:
            out.append(p)
    rng.shuffle(out)
    return out


def gen_param(rng, v20, names=NAMES):
    name = rng.choice(names[:7]) if rng.random() < 0.9 else rng.choice(names)
    locs = LOCS + (["body", "formData", "formData"] if v20 else [])
    loc = rng.choice(locs) if rng.random() < 0.95 else rng.choice(["Query", "foo", "body", "formData"])
    p = {"name": name, "in": loc}
    if rng.random() < 0.4 or loc == "path":
        p["required"] = rng.choice([True, True, False])
    sch = copy.deepcopy(rng.choice(SCHEMAS))
    if rng.random() < 0.2:
        sch = {"$ref": ("#/definitions/" if v20 else "#/components/schemas/") + rng.choice(["S1", "S2"])}
    if v20:
        if loc == "body":
            p["schema"] = sch
        else:
            if "$ref" not in sch:
                p.update(sch)
            else:
                p["type"] = "string"
            if rng.random() < 0.15:
                p["x-example"] = "ex"
            if rng.random() < 0.1:
                p["x-examples"] = {"e1": {"value": 1}, "e2": {"summary": "no value"}}
    else:
        r = rng.random()
        if r < 0.85:
            p["schema"] = sch
        elif r < 0.95:
            p["content"] = {"application/json": {"schema": sch}} if rng.random() < 0.8 else {}
        if rng.random() < 0.15:
            p["example"] = "ex"
        if rng.random() < 0.1:
            p["examples"] = {"e1": {"value": 1}, "e2": {"summary": "no value"}}
    if rng.random() < 0.04:
        del p[rng.choice(list(p))]
    return p


def gen_doc(rng, malform=None):
    """A document in the modelled fragment: local references only, no servers/basePath, no percent signs in
    references, schemas on which to_json_schema_recursive is the identity."""
    v20 = rng.random() < 0.35
    comp_params = {}
    pref = "#/parameters/" if v20 else "#/components/parameters/"
    for i in range(rng.choice([0, 1, 2, 3])):
        comp_params[f"P{i}"] = gen_param(rng, v20)
    if comp_params and rng.random() < 0.4:
        comp_params["PR"] = {"$ref": pref + rng.choice(list(comp_params))}
    if rng.random() < 0.1:
        comp_params["PBAD"] = rng.choice(JUNK)

    def param_or_ref():
        if comp_params and rng.random() < 0.3:
            return {"$ref": pref + rng.choice(list(comp_params))}
        if rng.random() < 0.03:
            return {"$ref": pref + "MISSING"}
        return gen_param(rng, v20)

    sec_names = ["K1", "K2", "H1"]
    sec_defs = {}
    if rng.random() < 0.5:
        for n in sec_names:
            if rng.random() < 0.6:
                if n == "H1":
                    sec_defs[n] = {"type": "basic"} if v20 else {"type": "http", "scheme": rng.choice(["basic", "Bearer"])}
                else:
                    sec_defs[n] = {"type": "apiKey", "name": rng.choice(["X-A", "q", "api_key", "c"]), "in": rng.choice(["header", "query"] + ([] if v20 else ["cookie"]))}
                if rng.random() < 0.05:
                    del sec_defs[n][rng.choice(list(sec_defs[n]))]
        if not v20 and sec_defs and rng.random() < 0.15:
            sec_defs["KR"] = {"$ref": "#/components/securitySchemes/" + rng.choice([k for k in sec_defs])}

    def sec_req():
        return [{rng.choice(sec_names + ["KR", "NOPE"]): []} for _ in range(rng.choice([0, 1, 1, 2]))]

    op_ids = [f"op{i}" for i in range(8)]
    dup_ids = rng.random() < 0.08
    used = 0

    def gen_operation():
        nonlocal used
        op = {}
        n = rng.choice([0, 1, 2, 3, 4])
        if n or rng.random() < 0.5:
            op["parameters"] = [param_or_ref() for _ in range(n)]
        if rng.random() < 0.75:
            op["operationId"] = rng.choice(op_ids[:2]) if dup_ids else op_ids[used % 8]
            used += 1
        if v20:
            if rng.random() < 0.3:
                op["consumes"] = rng.sample(MEDIA, rng.choice([0, 1, 2]))
        elif rng.random() < 0.4:
            if rng.random() < 0.2:
                op["requestBody"] = {"$ref": "#/components/requestBodies/RB"}
            else:
                op["requestBody"] = gen_request_body()
        if rng.random() < 0.25:
            op["security"] = sec_req()
        op["responses"] = {"200": {"description": "ok"}}
        return op

    def gen_request_body():
        rb = {"content": {m: ({"schema": copy.deepcopy(rng.choice(SCHEMAS))} if rng.random() < 0.85 else {}) for m in rng.sample(MEDIA, rng.choice([1, 1, 2, 3]))}}
        if rng.random() < 0.5:
            rb["required"] = rng.choice([True, False])
        if rng.random() < 0.3:
            rb["description"] = "d"
        if rng.random() < 0.05:
            del rb["content"]
        return rb

    def gen_path_item():
        item = {}
        n = rng.choice([0, 0, 1, 2, 3])
        if n:
            item["parameters"] = [param_or_ref() for _ in range(n)]
        if rng.random() < 0.2:
            item["summary"] = "s"
        for m in rng.sample(HTTP_METHODS[:5], rng.choice([1, 1, 2, 3])):
            item[m] = gen_operation()
        if rng.random() < 0.1:
            item["x-ext"] = {"a": 1}
        return item

    paths = {}
    shared_items = {}
    ref_first = rng.random() < 0.25
    for n_path, p in enumerate(pick_paths(rng, rng.choice([1, 2, 2, 3, 4]))):
        item = gen_path_item()
        r = rng.random()
        if (r < 0.15 and not (special_path(p) and rng.random() < 0.7)) or (ref_first and n_path == 0):
            key = f"I{len(shared_items)}"
            shared_items[key] = item
            paths[p] = {"$ref": ("#/x-items/" if v20 else "#/components/pathItems/") + key}
        elif r < 0.18:
            paths[p] = {"$ref": "#/nowhere/at/all"}
        else:
            paths[p] = item
    if v20:
        doc = {"swagger": "2.0", "info": {"title": "t", "version": "1"}, "paths": paths}
        if comp_params:
            doc["parameters"] = comp_params
        doc["definitions"] = {"S1": {"type": "string"}, "S2": {"type": "integer", "maximum": 7}}
        if shared_items:
            doc["x-items"] = shared_items
        if sec_defs:
            doc["securityDefinitions"] = sec_defs
        if rng.random() < 0.4:
            doc["consumes"] = rng.sample(MEDIA, rng.choice([0, 1, 2]))
    else:
        doc = {"openapi": rng.choice(["3.0.2", "3.0.3", "3.1.0"]), "info": {"title": "t", "version": "1"}, "paths": paths}
        comps = {"schemas": {"S1": {"type": "string"}, "S2": {"type": "integer", "maximum": 7}}}
        if comp_params:
            comps["parameters"] = comp_params
        if shared_items:
            comps["pathItems"] = shared_items
        if sec_defs:
            comps["securitySchemes"] = sec_defs
        comps["requestBodies"] = {"RB": gen_request_body()}
        doc["components"] = comps
    if rng.random() < 0.4:
        doc["security"] = sec_req()
    if rng.random() < 0.3:
        plant_security_clash(rng, doc)
    if malform is None:
        malform = rng.random() < 0.3
    if malform:
        for _ in range(rng.choice([1, 1, 2])):
            malform_doc(rng, doc)
    return doc


def local_target(doc, node):
    """Generator-side helper: the value behind a (chain of) local $ref, or None."""
    for _ in range(10):
        if not (isinstance(node, dict) and isinstance(node.get("$ref"), str)):
            return node
        cur = doc
        try:
            for part in node["$ref"][2:].split("/"):
                cur = cur[part]
        except Exception:  # noqa: BLE001
            return None
        node = cur
    return None


def plant_security_clash(rng, doc):
    """Name clashes between security schemes and declared parameters: 1-3 apiKey schemes named after a parameter
    declared at operation level / path level / both, in the SAME location, in ANOTHER location, or one of each;
    activated by the document-level or the operation-level `security`, as a further requirement object or as a
    further key of an existing one (several requirements in force at once)."""
    v20 = "swagger" in doc
    _, ops, _ = doc_keys(doc)
    if not ops:
        return
    sec_locs = ["header", "query"] + ([] if v20 else ["cookie"])
    if v20:
        schemes = doc.setdefault("securityDefinitions", {})
    else:
        comps = doc.setdefault("components", {})
        if not isinstance(comps, dict):
            return
        schemes = comps.setdefault("securitySchemes", {})
    if not isinstance(schemes, dict):
        return
    for _ in range(rng.choice([1, 1, 2, 3])):
        p, m = rng.choice(ops)
        item = local_target(doc, doc["paths"][p])
        if not isinstance(item, dict) or not isinstance(item.get(m), dict):
            continue
        op = item[m]
        level = rng.choice(["operation", "operation", "path", "both"])
        holders = {"operation": [op], "path": [item], "both": [op, item]}[level]
        declared = []
        for h in holders:
            if isinstance(h.get("parameters"), list):
                for q in h["parameters"]:
                    q = local_target(doc, q)
                    if isinstance(q, dict) and isinstance(q.get("name"), str) and q.get("in") in LOCS and q["name"][:1].isalpha():
                        declared.append((q["name"], q["in"]))
        if declared and rng.random() < 0.5:
            name, loc = rng.choice(declared)
        else:
            name, loc = rng.choice(["token", "api_key", "X-A", "q", "id"]), rng.choice(LOCS)
            for i, h in enumerate(holders):
                q = {"name": name, "in": loc}
                if loc == "path" or rng.random() < 0.5:
                    q["required"] = True
                sch = copy.deepcopy(SCHEMAS[i]) if level == "both" else {"type": "string", "minLength": 8}
                if v20:
                    q.update(sch)
                else:
                    q["schema"] = sch
                if not isinstance(h.get("parameters"), list):
                    h["parameters"] = []
                h["parameters"].insert(rng.choice([0, len(h["parameters"])]), q)
        other = [x for x in sec_locs if x != loc]
        mode = rng.choice(["other", "other", "same", "both"])
        if mode == "same" and loc not in sec_locs:
            mode = "other"
        slocs = {"other": [rng.choice(other)], "same": [loc], "both": ([loc] if loc in sec_locs else []) + [rng.choice(other)]}[mode]
        keys = []
        for sloc in slocs:
            key = f"C{len(schemes)}"
            schemes[key] = {"type": "apiKey", "name": name, "in": sloc}
            keys.append(key)
        holder = op if rng.random() < 0.5 else doc
        reqs = holder.get("security")
        if not isinstance(reqs, list):
            reqs = holder["security"] = []
        for key in keys:
            if reqs and isinstance(reqs[-1], dict) and rng.random() < 0.4:
                reqs[-1][key] = []
            else:
                reqs.append({key: []})


def positions(doc):
    """(container, key) pairs at which a malformed entry is planted."""
    out = []
    paths = doc.get("paths")
    if not isinstance(paths, dict):
        return out
    items = [(paths, k) for k in paths]
    for holder, k in items:
        out.append((holder, k))
        item = holder[k]
        if isinstance(item, dict) and "$ref" in item and isinstance(item["$ref"], str):
            tgt = doc
            try:
                for part in item["$ref"][2:].split("/"):
                    tgt = tgt[part]
                item = tgt
            except Exception:  # noqa: BLE001
                continue
        if not isinstance(item, dict):
            continue
        if "parameters" in item:
            out.append((item, "parameters"))
            if isinstance(item["parameters"], list):
                out += [(item["parameters"], i) for i in range(len(item["parameters"]))]
        for m in HTTP_METHODS:
            if m in item:
                out.append((item, m))
                op = item[m]
                if not isinstance(op, dict):
                    continue
                for key in ("parameters", "requestBody", "security", "operationId", "consumes"):
                    if key in op:
                        out.append((op, key))
                if isinstance(op.get("parameters"), list):
                    for i, p in enumerate(op["parameters"]):
                        out.append((op["parameters"], i))
                        if isinstance(p, dict):
                            out += [(p, key) for key in ("in", "name", "schema", "required", "content") if key in p]
                rb = op.get("requestBody")
                if isinstance(rb, dict) and "content" in rb:
                    out.append((rb, "content"))
    for key in ("security", "consumes", "securityDefinitions", "components"):
        if key in doc:
            out.append((doc, key))
    comps = doc.get("components")
    if isinstance(comps, dict) and "securitySchemes" in comps:
        out.append((comps, "securitySchemes"))
        ss = comps["securitySchemes"]
        if isinstance(ss, dict):
            out += [(ss, k) for k in ss]
    return out


def malform_doc(rng, doc):
    pos = positions(doc)
    if not pos:
        return
    holder, k = rng.choice(pos)
    r = rng.random()
    if r < 0.75:
        holder[k] = copy.deepcopy(rng.choice(JUNK))
    elif r < 0.85 and isinstance(holder, dict) and "parameters" not in holder:
        holder["parameters"] = copy.deepcopy(rng.choice(JUNK))
    elif isinstance(holder, dict):
        del holder[k]
    else:
        holder[k] = {"name": "q"}


def doc_keys(doc):
    """paths, (path, method) pairs and operation ids present in the document (through path-item references)."""
    paths, ops, ids = [], [], []
    ps = doc.get("paths")
    if isinstance(ps, dict):
        for p, item in ps.items():
            paths.append(p)
            if isinstance(item, dict) and isinstance(item.get("$ref"), str):
                tgt = doc
                try:
                    for part in item["$ref"][2:].split("/"):
                        tgt = tgt[part]
                    item = tgt
                except Exception:  # noqa: BLE001
                    item = None
            if isinstance(item, dict):
                for m, op in item.items():
                    if m in HTTP_METHODS:
                        ops.append((p, m))
                        if isinstance(op, dict) and isinstance(op.get("operationId"), str):
                            ids.append(op["operationId"])
    return paths, ops, ids


def id_owner(doc, oid):
    """(path, method) of the last operation with this operationId."""
    found = None
    ps = doc.get("paths")
    if isinstance(ps, dict):
        for p, item in ps.items():
            if isinstance(item, dict) and isinstance(item.get("$ref"), str):
                tgt = doc
                try:
                    for part in item["$ref"][2:].split("/"):
                        tgt = tgt[part]
                    item = tgt
                except Exception:  # noqa: BLE001
                    item = None
            if isinstance(item, dict):
                for m, op in item.items():
                    if m in HTTP_METHODS and isinstance(op, dict) and op.get("operationId") == oid:
                        found = (p, m)
    return found


def gen_accesses(rng, doc, n=None):
    paths, ops, ids = doc_keys(doc)
    n = n or rng.choice([2, 3, 4, 5, 6, 8])
    out = []
    if ids and rng.random() < 0.35:
        # start by operationId, before anything was reached by path (the id scan decides scope and traversal key)
        out.append(["id", rng.choice(ids)])
        n -= 1
    focus = rng.sample(ops, min(len(ops), rng.choice([1, 2]))) if ops else []
    special = [po for po in ops if special_path(po[0])]
    if special and rng.random() < 0.75:
        # the keys that need escaping and the keys they could be confused with, in both orders
        focus = rng.sample(special, min(len(special), 2))
        if len(focus) < 2:
            others = [po for po in ops if po not in focus]
            conf = [po for po in others if po[0] in confusable_paths(focus[0][0])]
            if conf or others:
                focus.append(rng.choice(conf or others))
        rng.shuffle(focus)
    if out and id_owner(doc, out[0][1]):
        focus = [id_owner(doc, out[0][1])] + focus[:1]
    for _ in range(n):
        r = rng.random()
        if r < 0.12:
            out.append(["iter"])
            continue
        po = rng.choice(focus) if focus and rng.random() < 0.7 else (rng.choice(ops) if ops else ("/a", "get"))
        p, m = po
        r = rng.random()
        if r < 0.36:
            mm = rng.choice([m, m.upper(), m.capitalize()]) if rng.random() < 0.9 else rng.choice(["get", "parameters", "nope", "summary"])
            pp = p if rng.random() < 0.93 else rng.choice(paths + ["/zzz"]) if paths else "/zzz"
            out.append(["get", pp, mm])
        elif r < 0.66:
            # the id of the focused operation when it has one
            oid = None
            item = doc["paths"].get(p) if isinstance(doc.get("paths"), dict) else None
            if isinstance(item, dict) and isinstance(item.get(m), dict) and isinstance(item[m].get("operationId"), str):
                oid = item[m]["operationId"]
            if oid is None or rng.random() < 0.2:
                oid = rng.choice(ids + ["missing"]) if ids else "missing"
            out.append(["id", oid])
        else:
            ref = f"#/paths/{esc_pointer(p)}/{m}"
            if rng.random() < 0.12:
                ref = rng.choice([ref + "/", "#/paths/~1zzz/get", "#/components/schemas/S1", "#/paths", "#", "nofragment", f"#/paths/{esc_pointer(p)}/GET", f"#/paths/{esc_pointer(p)}"])
            out.append(["ref", ref])
    return out


# ----------------------------------------------------------------------------------------
# comparison helpers and oracles
# ----------------------------------------------------------------------------------------
def norm(x):
    return json.loads(json.dumps(x))


def strip(rs, scope=False):
    """Results without the identity pattern (and optionally without the recorded scope)."""
    out = []
    for r in rs:
        r = dict(r)
        r.pop("inst", None)
        if scope and "op" in r:
            r["op"] = {k: v for k, v in r["op"].items() if k != "scope"}
        out.append(r)
    return out


def same_result(impl, model) -> bool:
    if isinstance(model, dict) and model.get("raises") == "EOther":
        return isinstance(impl, dict) and "raises" in impl  # a class the model does not pin down
    return impl == model


def count_ops(doc):
    return len(doc_keys(doc)[1])


def duplicate_ids(doc) -> bool:
    ids = doc_keys(doc)[2]
    return len(ids) != len(set(ids))


def id_scan_fails(doc) -> bool:
    """Does collecting the operation ids of a fresh schema object raise?"""
    r = impl_run(doc, [["id", "\x00no such id"]])[0]
    return r.get("raises") != "ENotFound"


def canonical_reference(a) -> bool:
    return a[0] != "ref" or (a[1].startswith("#/paths/") and not a[1].endswith("/") and a[1].count("/") == 3)


def order_region(doc, accs, seq, fresh):
    """Which listed region explains a difference between cached and fresh lookups (None = outside every region)."""
    if any(a[0] == "ref" and PCT_RE.search(a[1]) for a in accs):
        # the reference of a path key with a percent escape resolves to ANOTHER key (or to none): what a lookup by that
        # reference caches under the traversal key of the path is another operation
        return "percent_in_path"
    if duplicate_ids(doc):
        return "duplicate_operation_id"
    if strip(seq, scope=True) == strip(fresh, scope=True) and any(a[0] == "ref" for a in accs):
        return "scope_recorded_by_reference"
    seq, fresh = strip(seq, scope=True), strip(fresh, scope=True)
    for a, s, f in zip(accs, seq, fresh):
        if s == f:
            continue
        if a[0] == "id" and id_scan_fails(doc):
            return "lookup_by_id_after_failed_scan"
        if isinstance(f, dict) and f.get("raises") == "EType" and "op" in s:
            return "unhashable_operation_id"
        return None
    return None


def override_failures(schema_doc):
    """Independent oracle for the precedence rule: for every offered operation and every (name, location) defined at
    operation level AND at path level, the generated property must be the operation-level schema."""
    import schemathesis
    from schemathesis.core.result import Ok
    from schemathesis.specs.openapi.parameters import parameters_to_json_schema

    out = []
    with warnings.catch_warnings():
        warnings.simplefilter("ignore")
        schema = schemathesis.openapi.from_dict(copy.deepcopy(schema_doc))
        try:
            for r in schema.get_all_operations():
                if not isinstance(r, Ok):
                    continue
                op = r.ok()
                for cont, locname in ((op.path_parameters, "path"), (op.headers, "header"), (op.cookies, "cookie"), (op.query, "query")):
                    try:
                        names = [p.name for p in cont]
                        props = parameters_to_json_schema(op, cont)["properties"]
                    except Exception:  # noqa: BLE001
                        continue
                    for n in set(x for x in names if isinstance(x, str) and names.count(x) > 1):
                        try:
                            want = cont.get(n).as_json_schema(op)
                        except Exception:  # noqa: BLE001
                            continue
                        if props.get(n) != want:
                            out.append({"operation": op.label, "location": locname, "name": n, "generated": props.get(n), "operation_level": want})
        except Exception:  # noqa: BLE001
            pass
    return out


def ok_or_err_failures(doc, it):
    """Every documented (path, method) is Ok with that label or an Err naming the path."""
    missing = []
    paths, ops, _ = doc_keys(doc)
    ok = {(i["ok"]["path"], i["ok"]["method"]) for i in it["iter"] if "ok" in i}
    err_paths = {i["err"][0] for i in it["iter"] if "err" in i}
    for p, m in ops:
        if (p, m) not in ok and p not in err_paths:
            missing.append([p, m])
    return missing


# ----------------------------------------------------------------------------------------
# independent oracle for the effective parameter keys (name, location), security-derived ones included.
# Computed here from the RAW document only (own $ref resolution), never through schemathesis.
# ----------------------------------------------------------------------------------------
KEY_LOCS = ("path", "header", "cookie", "query")


class NotApplicable(Exception):
    """The document is malformed at a place the oracle would have to interpret: the oracle makes no demand."""


def o_resolve(doc, node):
    hops = 0
    while isinstance(node, dict) and "$ref" in node:
        ref = node["$ref"]
        if not isinstance(ref, str) or not ref.startswith("#/") or "%" in ref or hops > 20:
            raise NotApplicable("reference")
        cur = doc
        for part in ref[2:].split("/"):
            part = part.replace("~1", "/").replace("~0", "~")
            if isinstance(cur, dict) and part in cur:
                cur = cur[part]
            elif isinstance(cur, list) and part.isdigit() and int(part) < len(cur):
                cur = cur[int(part)]
            else:
                raise NotApplicable("dangling reference")
        node = cur
        hops += 1
    return node


def o_declared(doc, holder):
    """(name, in) of the parameters declared by a path item / an operation, references resolved."""
    if "parameters" not in holder:
        return []
    params = holder["parameters"]
    if not isinstance(params, list):
        raise NotApplicable("parameters")
    out = []
    for p in params:
        p = o_resolve(doc, p)
        if not isinstance(p, dict) or not isinstance(p.get("name"), str) or not isinstance(p.get("in"), str):
            raise NotApplicable("parameter")
        out.append((p["name"], p["in"]))
    return out


def o_security(doc, op):
    """-> (required keys, tolerated keys) contributed by the security requirements in force for the operation."""
    v20 = "swagger" in doc
    if v20:
        defs = doc.get("securityDefinitions", {})
    else:
        comps = doc.get("components", {})
        if not isinstance(comps, dict):
            raise NotApplicable("components")
        defs = comps.get("securitySchemes", {})
    if not isinstance(defs, dict) or "$ref" in defs:
        raise NotApplicable("security schemes")
    # an operation-level `security` replaces the document-level one (an empty array removes it)
    reqs = op["security"] if "security" in op else doc.get("security", [])
    if not isinstance(reqs, list) or not all(isinstance(r, dict) for r in reqs):
        raise NotApplicable("security requirements")
    wanted = {k for r in reqs for k in r}
    required, tolerated = set(), set()
    for key, d in defs.items():
        if key not in wanted:
            continue
        if not v20:
            d = o_resolve(doc, d)
        if not isinstance(d, dict) or "$ref" in d or not isinstance(d.get("type"), str):
            raise NotApplicable("security scheme")
        if d["type"] == "apiKey":
            if not isinstance(d.get("name"), str) or not isinstance(d.get("in"), str):
                raise NotApplicable("apiKey scheme")
            if d["in"] in ("header", "query") or (d["in"] == "cookie" and not v20):
                required.add((d["name"], d["in"]))
            elif d["in"] in KEY_LOCS:
                tolerated.add((d["name"], d["in"]))  # not a legal apiKey location of this version: no demand either way
        elif d["type"] == ("basic" if v20 else "http"):
            required.add(("Authorization", "header"))
    return required, tolerated


def o_path_item(doc, path):
    paths = doc.get("paths")
    if not isinstance(paths, dict) or path not in paths:
        raise NotApplicable("paths")
    item = o_resolve(doc, paths[path])
    if not isinstance(item, dict):
        raise NotApplicable("path item")
    return item


def effective_keys_oracle(doc, path, method):
    """What the operation has to be offered with, as keys (name, location) of the four non-body locations:
    operation-level parameters, path-level parameters (overridden by (name, in), which leaves the key set alone),
    and for every security requirement in force an apiKey parameter (name, in) / the Authorization header - a
    security key that is already declared with the same (name, in) is served by the declared parameter."""
    item = o_path_item(doc, path)
    op = item.get(method)
    if not isinstance(op, dict) or "$ref" in op:
        raise NotApplicable("operation")
    declared = o_declared(doc, op) + o_declared(doc, item)
    required, tolerated = o_security(doc, op)
    decl = [k for k in declared if k[1] in KEY_LOCS]
    return {"declared": decl, "security": required, "expected": set(decl) | required, "tolerated": tolerated}


def impl_keys(op):
    out = []
    for cont, loc in ((op.path_parameters, "path"), (op.headers, "header"), (op.cookies, "cookie"), (op.query, "query")):
        for p in cont:
            out.append((p.name, loc))
    return out


def keys_verdict(want, got):
    """None when the operation is offered with its effective keys, else what is off."""
    have = set(got)
    missing = sorted(want["expected"] - have)
    extra = sorted(have - want["expected"] - want["tolerated"])
    dup = []
    for k in sorted(want["security"]):
        if k == ("Authorization", "header"):
            continue
        if got.count(k) != max(1, want["declared"].count(k)):
            dup.append([list(k), got.count(k)])
    if missing or extra or dup:
        return {"missing": [list(k) for k in missing], "extra": [list(k) for k in extra], "wrong_multiplicity": dup,
                "offered_with": [list(k) for k in got], "effective": sorted(list(k) for k in want["expected"])}
    return None


def effective_keys_failures(rng, doc):
    """Every operation of the document, reached by iteration / path+method / operationId / reference on fresh schema
    objects and then by all routes in a shuffled order on ONE schema object, must carry the oracle's keys.
    -> (number of operation x route observations, failures [(operation, route, verdict)], not applicable count)."""
    import schemathesis
    from schemathesis.core.result import Ok

    _, ops, ids = doc_keys(doc)
    wants = {}
    skipped = 0
    for p, m in ops:
        try:
            wants[(p, m)] = effective_keys_oracle(doc, p, m)
        except NotApplicable:
            skipped += 1
    if not wants:
        return 0, [], skipped
    fails, n_obs = [], 0

    def judge(op, key, route):
        nonlocal n_obs
        if key not in wants:
            return
        try:
            got = impl_keys(op)
        except Exception:  # noqa: BLE001
            return
        n_obs += 1
        v = keys_verdict(wants[key], got)
        if v is not None:
            fails.append((list(key), route, v))

    def lookups(schema, plan, tag):
        for route, (p, m) in plan:
            try:
                if route == "iteration":
                    for r in schema.get_all_operations():
                        if isinstance(r, Ok):
                            judge(r.ok(), (r.ok().path, r.ok().method), tag + "iteration")
                    continue
                if route == "path+method":
                    op = schema[p][m]
                elif route == "operationId":
                    item = o_path_item(doc, p)
                    oid = item[m].get("operationId")
                    if not isinstance(oid, str) or ids.count(oid) != 1:
                        continue
                    op = schema.get_operation_by_id(oid)
                else:
                    if PCT_RE.search(p):
                        continue  # region percent_in_path (finding F8): judged by the reference round-trip oracle
                    op = schema.get_operation_by_reference(f"#/paths/{esc_pointer(p)}/{m}")
            except Exception:  # noqa: BLE001
                continue  # not offered this way: the accounting oracle's business
            if (op.path, op.method) == (p, m):
                judge(op, (p, m), tag + route)

    with warnings.catch_warnings():
        warnings.simplefilter("ignore")
        load = lambda: schemathesis.openapi.from_dict(copy.deepcopy(doc))  # noqa: E731
        keys = list(wants)
        lookups(load(), [("iteration", keys[0])], "fresh: ")
        for route in ("path+method", "operationId", "reference"):
            lookups(load(), [(route, k) for k in keys], "fresh: ")
        plan = [(route, k) for k in keys for route in ("path+method", "operationId", "reference")] + [("iteration", keys[0])]
        rng.shuffle(plan)
        lookups(load(), plan, "shared instance: ")
    return n_obs, fails, skipped


# ----------------------------------------------------------------------------------------
# path keys that need JSON-pointer escaping: generator, the reference round trip (independent oracle), the link statistic
# ----------------------------------------------------------------------------------------
POINTER_ALPHABET = ["~", "~", "0", "1", "/", "a", "{id}", "é", "~0", "~1", "~01", "~10", "~~", "v", ".", "-"]
PCT_ALPHABET = ["%", "%2F", "%7E", "%7e", "%41", "%2f", "%25", "%zz"]


def random_special_path(rng, pct):
    alpha = POINTER_ALPHABET + (PCT_ALPHABET if pct else [])
    return "/" + "".join(rng.choice(alpha) for _ in range(rng.choice([1, 2, 3, 4, 6])))


def gen_pointer_doc(rng, pct=None):
    """A well-formed document whose path keys contain ~, ~0, ~1, ~01, ~10, ~~1, slashes (and, with pct, percent
    escapes), usually next to the key a faulty pointer codec would confuse them with.  Every operation has its own
    operationId and its own parameter names, so another operation coming back from a lookup is visible; links by
    operationRef / operationId point at the operations."""
    if pct is None:
        pct = rng.random() < 0.2
    v20 = rng.random() < 0.25
    keys = []

    def add(k):
        if k not in keys and len(keys) < 6:
            keys.append(k)

    for _ in range(rng.choice([1, 2, 2, 3])):
        r = rng.random()
        if r < 0.4:
            k = rng.choice(TILDE_PATHS)
        elif r < 0.8:
            k = random_special_path(rng, pct)
        elif r < 0.9 and pct:
            k = rng.choice(PCT_PATHS)
        else:
            k = rng.choice(PATHS)
        add(k)
        conf = confusable_paths(k)
        if not pct:
            conf = [q for q in conf if "%" not in q]
        if conf and rng.random() < 0.7:
            for q in rng.sample(conf, min(len(conf), rng.choice([1, 1, 2]))):
                add(q)
    rng.shuffle(keys)
    paths, shared_items, ops = {}, {}, []
    n_op = 0
    for k in keys:
        item = {}
        if rng.random() < 0.4:
            sp = {"name": f"s{len(paths)}", "in": rng.choice(["query", "header"])}
            if v20:
                sp["type"] = "string"
            else:
                sp["schema"] = {"type": "string"}
            item["parameters"] = [sp]
        for m in rng.sample(HTTP_METHODS[:4], rng.choice([1, 1, 2])):
            prm = {"name": f"q{n_op}", "in": rng.choice(["query", "header", "query"]), "required": rng.choice([True, False])}
            if v20:
                prm["type"] = rng.choice(["string", "integer"])
            else:
                prm["schema"] = {"type": rng.choice(["string", "integer"])}
            item[m] = {"operationId": f"op{n_op}", "parameters": [prm], "responses": {"200": {"description": "ok"}}}
            ops.append((k, m))
            n_op += 1
        if rng.random() < 0.1:
            name = f"I{len(shared_items)}"
            shared_items[name] = item
            paths[k] = {"$ref": ("#/x-items/" if v20 else "#/components/pathItems/") + name}
        else:
            paths[k] = item
    links_field = "x-links" if v20 else "links"
    n_link = 0
    for k, m in ops:
        if rng.random() < 0.65:
            item = paths[k] if "$ref" not in paths[k] else shared_items[paths[k]["$ref"].rsplit("/", 1)[1]]
            links = {}
            for _ in range(rng.choice([1, 1, 2])):
                tk, tm = rng.choice([po for po in ops if special_path(po[0])] or ops) if rng.random() < 0.7 else rng.choice(ops)
                r = rng.random()
                if r < 0.7:
                    link = {"operationRef": f"#/paths/{esc_pointer(tk)}/{tm}"}
                elif r < 0.85:
                    titem = paths[tk] if "$ref" not in paths[tk] else shared_items[paths[tk]["$ref"].rsplit("/", 1)[1]]
                    link = {"operationId": titem[tm]["operationId"]}
                elif r < 0.93:
                    link = {"operationRef": rng.choice(["#/paths/~1nope/get", f"#/paths/{esc_pointer(tk)}/trace", "#/paths"])}
                else:
                    link = {"operationId": "nope"}
                links[f"L{n_link}"] = link
                n_link += 1
            item[m]["responses"]["200"][links_field] = links
    if v20:
        doc = {"swagger": "2.0", "info": {"title": "t", "version": "1"}, "paths": paths}
        if shared_items:
            doc["x-items"] = shared_items
    else:
        doc = {"openapi": rng.choice(["3.0.2", "3.1.0"]), "info": {"title": "t", "version": "1"}, "paths": paths}
        if shared_items:
            doc["components"] = {"pathItems": shared_items}
    return doc


def doc_links(doc):
    """The link objects of the document (through path items behind $ref), in document order."""
    out = []
    field = "x-links" if "swagger" in doc else "links"
    for p, m in doc_keys(doc)[1]:
        item = local_target(doc, doc["paths"][p])
        op = item.get(m) if isinstance(item, dict) else None
        if not isinstance(op, dict) or not isinstance(op.get("responses"), dict):
            continue
        for resp in op["responses"].values():
            if isinstance(resp, dict) and isinstance(resp.get(field), dict):
                out += [l for l in resp[field].values() if isinstance(l, dict)]
    return out


def inline_ops(doc):
    """(path, method) of the operations whose path item is written inline under its key (they have a #/paths/... reference)."""
    out = []
    for p, m in doc_keys(doc)[1]:
        item = doc["paths"][p]
        if isinstance(item, dict) and "$ref" not in item and isinstance(item.get(m), dict):
            out.append((p, m))
    return out


def o_link_selected(doc, link) -> bool:
    """Own oracle: does the link name a documented operation?  operationRef is read by RFC 6901: the reference has to be
    #/paths/<token>/<method> and <token> decodes (~1 first, then ~0) to the key of an inline path item."""
    _, ops, ids = doc_keys(doc)
    if "operationId" in link:
        return link["operationId"] in ids
    ref = link.get("operationRef")
    if not isinstance(ref, str) or not ref.startswith("#/paths/"):
        return False
    parts = ref[2:].split("/")
    if len(parts) != 3:
        return False
    return (unesc_pointer(parts[1]), parts[2]) in inline_ops(doc)


def describe_op(op):
    return {"path": op.path, "method": op.method, "raw": op.definition.raw, "keys": sorted(set(impl_keys(op)))}


def reference_roundtrip_failures(rng, doc):
    """For every operation with an inline path item: get_operation_by_reference(operation.operation_reference) has to be
    the operation of that (path, method): same path, method, raw definition (the one written in the document) and parameter
    keys as the oracle computes from the document; the same object as schema[path][method] / get_operation_by_id on the
    same schema object - whatever was looked up before (reference first; every path first; reference then id; all routes
    shuffled on one object).  operation_reference itself has to be the RFC 6901 pointer.  The link statistic has to count
    every link that names a documented operation.  -> (observations, [(operation, order, detail)])"""
    import schemathesis

    ops = inline_ops(doc)
    fails, n_obs = [], 0
    want = {}
    for p, m in ops:
        try:
            w = effective_keys_oracle(doc, p, m)
            keys = sorted(w["expected"])
        except NotApplicable:
            keys = None
        want[(p, m)] = {"path": p, "method": m, "raw": doc["paths"][p][m], "keys": keys}

    def judge(po, order, got, same_as=None):
        nonlocal n_obs
        n_obs += 1
        w = want[po]
        if isinstance(got, Exception):
            fails.append((list(po), order, {"expected": f"{po[1].upper()} {po[0]}", "raises": exc_class(got), "message": str(got)[:200]}))
            return
        d = describe_op(got)
        off = {k: {"expected": w[k], "got": d[k]} for k in ("path", "method", "raw") if d[k] != w[k]}
        if w["keys"] is not None and [list(k) for k in w["keys"]] != [list(k) for k in d["keys"]]:
            off["keys"] = {"expected": [list(k) for k in w["keys"]], "got": [list(k) for k in d["keys"]]}
        if same_as is not None and same_as is not got:
            off["identity"] = f"not the object returned for {same_as.label} by the other route"
        if off:
            fails.append((list(po), order, off))

    with warnings.catch_warnings():
        warnings.simplefilter("ignore")
        load = lambda: schemathesis.openapi.from_dict(copy.deepcopy(doc))  # noqa: E731
        refs = {}
        twin = load()
        for p, m in ops:
            try:
                refs[(p, m)] = twin[p][m].operation_reference
            except Exception:  # noqa: BLE001
                continue
            n_obs += 1
            if refs[(p, m)] != f"#/paths/{esc_pointer(p)}/{m}":
                fails.append(([p, m], "operation_reference", {"expected": f"#/paths/{esc_pointer(p)}/{m}", "got": refs[(p, m)]}))

        def baseline(po):
            # the lookup by path and method on a fresh object offers the documented operation (else: the other oracles' business)
            try:
                d = describe_op(load()[po[0]][po[1]])
            except Exception:  # noqa: BLE001
                return False
            w = want[po]
            return all(d[k] == w[k] for k in ("path", "method", "raw")) and (w["keys"] is None or [list(k) for k in w["keys"]] == [list(k) for k in d["keys"]])

        ops = [po for po in ops if po in refs and baseline(po)]

        def by_ref(schema, po):
            try:
                return schema.get_operation_by_reference(refs[po])
            except Exception as e:  # noqa: BLE001
                return e

        # 1. reference first, on a fresh object each
        for po in ops:
            judge(po, "reference first", by_ref(load(), po))
        # 2. every path first (in a shuffled order), then the references
        schema = load()
        direct = {}
        for po in rng.sample(ops, len(ops)):
            direct[po] = schema[po[0]][po[1]]
        for po in ops:
            judge(po, "every path first, then by reference", by_ref(schema, po), same_as=direct[po])
        # 3. reference, then operationId
        schema = load()
        has_id = lambda po: isinstance(want[po]["raw"], dict) and isinstance(want[po]["raw"].get("operationId"), str)  # noqa: E731
        for po in rng.sample(ops, len(ops)):
            r = by_ref(schema, po)
            if not has_id(po):
                continue
            try:
                i = schema.get_operation_by_id(want[po]["raw"]["operationId"])
            except Exception as e:  # noqa: BLE001
                i = e
            judge(po, "by reference, then by operationId (the operationId result)", i, same_as=None if isinstance(r, Exception) else r)
        # 4. all routes shuffled on one object
        schema = load()
        plan = [(route, po) for po in ops for route in ("path", "id", "reference", "reference") if route != "id" or has_id(po)]
        rng.shuffle(plan)
        first = {}
        for route, po in plan:
            try:
                if route == "path":
                    got = schema[po[0]][po[1]]
                elif route == "id":
                    got = schema.get_operation_by_id(want[po]["raw"]["operationId"])
                else:
                    got = schema.get_operation_by_reference(refs[po])
            except Exception as e:  # noqa: BLE001
                got = e
            judge(po, f"mixed order {[r[0] + ':' + r[1][0] for r in plan]}: by {route}", got, same_as=first.get(po))
            if not isinstance(got, Exception):
                first.setdefault(po, got)
        # 5. the link statistic
        links = doc_links(doc)
        if links:
            n_obs += 1
            expect = {"total": len(links), "selected": sum(1 for l in links if o_link_selected(doc, l))}
            try:
                st = load().statistic.links
                got = {"total": st.total, "selected": st.selected}
            except Exception as e:  # noqa: BLE001
                got = {"raises": exc_class(e)}
            if got != expect:
                off = [l for l in links if "operationRef" in l]
                fails.append((None, "link statistic", {"expected": expect, "got": got, "links": links,
                                                       "percent": any(PCT_RE.search(l["operationRef"]) for l in off if isinstance(l["operationRef"], str))}))
    return n_obs, fails


def roundtrip_region(operation, detail):
    """Finding F8: a path key with a percent escape (the reference operation_reference builds is unquoted by the resolver)."""
    if operation is None:
        return "percent_in_path" if detail.get("percent") else None
    return "percent_in_path" if PCT_RE.search(operation[0]) else None


def reference_stage(chk, rng, n):
    """Stage 2d.  Per document: (i) Model_C08.reference_of against APIOperation.operation_reference, path_of_reference of it
    against the (path, method) of the operation get_operation_by_reference returns; (ii) the region predicate plain_entry and
    the hypotheses of C08_reference_and_path_lookups_any_order_partial evaluated in Coq: where they hold, the implementation's
    lookups by reference / by path in a shuffled order on ONE object equal the lookups on fresh objects, and by reference
    equals by path; (iii) Model_C08.operation_ref_target per link against the link statistic."""
    import schemathesis

    docs = [gen_pointer_doc(rng) for _ in range(n)]
    exprs, metas = [], []
    with warnings.catch_warnings():
        warnings.simplefilter("ignore")
        for doc in docs:
            v = version_of(doc)
            ops = doc_keys(doc)[1][:5]
            twin = schemathesis.openapi.from_dict(copy.deepcopy(doc))
            refs = {}
            for p, m in ops:
                try:
                    refs[(p, m)] = twin[p][m].operation_reference
                except Exception:  # noqa: BLE001
                    refs[(p, m)] = None
            accs = []
            for p, m in ops:
                accs.append(["get", p, m])
                if refs[(p, m)] is not None and (p, m) in inline_ops(doc):
                    accs += [["ref", refs[(p, m)]]] * rng.choice([1, 2])
            rng.shuffle(accs)
            links = [l for l in doc_links(doc) if "operationRef" in l]
            pm = clist([f"({cstr(p)}, {cstr(m)})" for p, m in ops], "(str * str)")
            cacc = clist([c_access(a) for a in accs], "access")
            exprs.append(
                f"(let d := {cjson(doc)} in "
                f"(map (fun pm => (reference_of (fst pm) (snd pm), path_of_reference (reference_of (fst pm) (snd pm)), plain_entry d (fst pm) (snd pm))) {pm}, "
                f"map (operation_ref_target d) {clist([cjson(l['operationRef']) for l in links], 'json')}, "
                f"forallb (plain_access d) {cacc} && forallb (self_ok {v} d) {cacc}))")
            metas.append((doc, ops, refs, accs, links))
            chk.seen({"doc": doc, "stage": "reference"}, True)
    vals = core.coq_eval(IMPORTS, exprs, shard=25)
    n_ref = n_plain = n_seq = n_links = 0
    with warnings.catch_warnings():
        warnings.simplefilter("ignore")
        for (doc, ops, refs, accs, links), (per_op, targets, seq_ok) in zip(metas, vals):
            load = lambda: schemathesis.openapi.from_dict(copy.deepcopy(doc))  # noqa: E731
            for (p, m), (mref, mpath, plain) in zip(ops, per_op):
                inp = {"doc": doc, "operation": [p, m]}
                mref = pstr(mref)
                mpm = None if mpath is None else [pstr(mpath[1][0]), pstr(mpath[1][1])]
                if mpm != [p, m]:
                    chk.disagree("C08_reference_roundtrip: path_of_reference (reference_of p m) is not (p, m)", inp, [p, m], mpm)
                if refs[(p, m)] is None:
                    continue
                n_ref += 1
                chk.count("reference:" + ("percent escape" if PCT_RE.search(p) else "tilde" if "~" in p else "plain") + " path key")
                if refs[(p, m)] != mref:
                    chk.disagree("APIOperation.operation_reference vs Model_C08.reference_of", inp, refs[(p, m)], mref)
                    continue
                try:
                    r = load().get_operation_by_reference(refs[(p, m)])
                    got = [r.path, r.method]
                except Exception as e:  # noqa: BLE001
                    r, got = None, {"raises": exc_class(e)}
                if r is not None and got != mpm:
                    chk.disagree("(path, method) of get_operation_by_reference(operation_reference) vs Model_C08.path_of_reference", inp, got, mpm)
                if plain:
                    n_plain += 1
                    a = strip(norm([impl_access(load(), ["ref", refs[(p, m)]])]), scope=True)[0]
                    b = strip(norm([impl_access(load(), ["get", p, m])]), scope=True)[0]
                    if a.get("raises") == "EKey":
                        a = {"raises": "ELookup"}
                    unhashable = isinstance(doc["paths"][p][m], dict) and isinstance(doc["paths"][p][m].get("operationId"), (list, dict))
                    if a != b and not unhashable:
                        chk.disagree("C08_reference_lookup_is_path_lookup_partial: plain_entry = true but the implementation's lookup by "
                                     "operation_reference differs from the lookup by path and method", inp, a, b)
            if seq_ok and accs:
                n_seq += 1
                a = strip(norm(impl_run(doc, accs)), scope=True)
                b = strip(norm(impl_run(doc, accs, fresh_each=True)), scope=True)
                if a != b:
                    chk.disagree("C08_reference_and_path_lookups_any_order_partial: its hypotheses hold but the implementation's lookups on one "
                                 "schema object differ from the lookups on fresh objects", {"doc": doc, "accesses": accs}, a, b)
            if links:
                n_links += 1
                documented = {(m, p) for p, m in doc_keys(doc)[1]}
                model_sel = 0
                for t in targets:
                    if t is not None and (pstr(t[1][0]), pstr(t[1][1])) in documented:
                        model_sel += 1
                model_sel += sum(1 for l in doc_links(doc) if "operationRef" not in l and l.get("operationId") in doc_keys(doc)[2])
                try:
                    st = load().statistic.links
                    impl_sel = [st.total, st.selected]
                except Exception as e:  # noqa: BLE001
                    impl_sel = {"raises": exc_class(e)}
                if impl_sel != [len(doc_links(doc)), model_sel]:
                    chk.disagree("link statistic (total, selected) vs Model_C08.operation_ref_target per operationRef link", {"doc": doc}, impl_sel, [len(doc_links(doc)), model_sel])
    return {"documents": len(docs), "operation_references": n_ref, "plain_entries": n_plain,
            "sequences_in_the_region_of_the_any_order_theorem": n_seq, "documents_with_links": n_links}


YAML_PLAIN_KEY = __import__("re").compile(r"[A-Za-z0-9_.\-]+")
DATE_LIKE = __import__("re").compile(r"\d{4}-\d{2}-\d{2}([Tt ][0-9:.+\-Zz]+)?")


def to_yaml(v, ind=0) -> str:
    """Block-style YAML writer that leaves mapping keys (200, on, off, null, 1e3, 2020-01-01) and date-like
    string values unquoted - the cases the property names."""
    pad = "  " * ind
    if isinstance(v, dict):
        if not v:
            return "{}"
        lines = []
        for k, x in v.items():
            key = k if YAML_PLAIN_KEY.fullmatch(k) else json.dumps(k)
            if isinstance(x, (dict, list)) and x:
                lines.append(f"{pad}{key}:\n{to_yaml(x, ind + 1)}")
            else:
                lines.append(f"{pad}{key}: {to_yaml(x, ind + 1)}")
        return "\n".join(lines)
    if isinstance(v, list):
        if not v:
            return "[]"
        lines = []
        for x in v:
            if isinstance(x, (dict, list)) and x:
                lines.append(f"{pad}-\n{to_yaml(x, ind + 1)}")
            else:
                lines.append(f"{pad}- {to_yaml(x, ind + 1)}")
        return "\n".join(lines)
    if isinstance(v, str) and DATE_LIKE.fullmatch(v):
        return v
    return json.dumps(v)


def yaml_variant(rng, doc):
    """Add what YAML 1.1 would reinterpret: numeric / boolean-looking keys, date-like values."""
    d = copy.deepcopy(doc)
    paths = d.get("paths")
    if isinstance(paths, dict):
        for item in paths.values():
            if not isinstance(item, dict):
                continue
            for m, op in item.items():
                if m in HTTP_METHODS and isinstance(op, dict):
                    op["responses"] = {k: {"description": "r"} for k in rng.sample(["200", "404", "default", "1e3", "5XX", "0200", "0x1F", "1_0"], 3)}
                    if "swagger" not in d and rng.random() < 0.6:
                        op["requestBody"] = {
                            "content": {
                                "application/json": {
                                    "schema": {
                                        "type": "object",
                                        "properties": {k: {"type": "string", "enum": [rng.choice(["2020-01-01", "2001-12-14t21:59:43.10-05:00", "on", "1e3", "~"])]} for k in rng.sample(["on", "off", "yes", "no", "null", "true", "2020-01-01", "123", "1.5", "y", "n"], 4)},
                                        "required": ["on"],
                                    }
                                }
                            }
                        }
    return d


# ----------------------------------------------------------------------------------------
# listed findings: canonical witnesses replayed on the implementation
# ----------------------------------------------------------------------------------------
def witness_fails(w) -> bool:
    kind = w["kind"]
    doc = w.get("doc")
    if kind == "override":
        return bool(override_failures(doc))
    if kind == "iteration":
        it = impl_run(doc, [["iter"]])[0]
        return it["crash"] is not None and bool(ok_or_err_failures(doc, it))
    if kind == "two_file":
        for oid, expect, got, distinct in two_file_eval(w["root"], w["shared"], w["owners"], w["operations"], w["order"]):
            if oid == w["operation"]:
                return distinct or any(v != expect for v in got.values())
        return False
    if kind == "reference_roundtrip":
        import random

        _, fails = reference_roundtrip_failures(random.Random(0), doc)
        return any(roundtrip_region(op, d) == "percent_in_path" for op, _, d in fails)
    if kind == "order":
        accs = w["accesses"]
        return strip(norm(impl_run(doc, accs))) != norm(impl_run(doc, accs, fresh_each=True))
    raise ValueError(kind)


def clash_histogram(chk, doc):
    for p, m in doc_keys(doc)[1]:
        try:
            w = effective_keys_oracle(doc, p, m)
        except NotApplicable:
            continue
        for n, loc in w["security"]:
            if (n, loc) == ("Authorization", "header"):
                chk.count("security:http-authorization")
                continue
            same = (n, loc) in w["declared"]
            other = any(dn == n and dl != loc for dn, dl in w["declared"])
            chk.count("security:apiKey " + ("declared same name same location" if same else "not declared there")
                      + (" + same name in another location" if other else ""))
        if len(w["security"]) > 1:
            chk.count("security:several requirements in force")


def security_keys_stage(chk, rng, cases, n):
    import schemathesis

    picked, rest = [], []
    for doc, _ in cases:
        for p, m in doc_keys(doc)[1]:
            try:
                w = effective_keys_oracle(doc, p, m)
                (picked if w["security"] else rest).append((doc, p, m))
            except NotApplicable:
                rest.append((doc, p, m))
    rng.shuffle(picked)
    rng.shuffle(rest)
    sel = picked[: n * 3 // 4]
    sel += rest[: n - len(sel)]
    exprs, impls = [], []
    with warnings.catch_warnings():
        warnings.simplefilter("ignore")
        for doc, p, m in sel:
            v = version_of(doc)
            acc = c_access(["get", p, m])
            obs = "(Val true)"
            try:
                op = schemathesis.openapi.from_dict(copy.deepcopy(doc))[p][m]
                names = []
                for cont in (op.path_parameters, op.headers, op.cookies, op.query):
                    try:
                        names.append([q.name for q in cont])
                    except Exception as e:  # noqa: BLE001
                        names.append({"raises": exc_class(e)})
                impl = {"keys": names}
                try:
                    conts = [clist([cjson(q.definition) for q in cont], "json") for cont in (op.path_parameters, op.headers, op.cookies, op.query)]
                    obs = f"(observed_keys_present {v} d {cjson(op.definition.raw)} {' '.join(conts)})"
                except Exception:  # noqa: BLE001
                    pass
            except Exception as e:  # noqa: BLE001
                impl = {"raises": exc_class(e)}
            impls.append(impl)
            exprs.append(f"(let d := {cjson(doc)} in (fresh_keys {v} d {acc}, {obs}))")
    vals = core.coq_eval(IMPORTS, exprs, shard=20) if exprs else []
    agree = outside = present = 0
    for (doc, p, m), impl, (mk, mo) in zip(sel, impls, vals):
        inp = {"doc": doc, "accesses": [["get", p, m]]}
        try:
            if mk[0] == "Val":
                model = {"keys": [[pjson(x) for x in c[1]] if c[0] == "Val" else {"raises": p_exc(c[1])} for c in mk[1]]}
            else:
                model = {"raises": p_exc(mk[1])}
        except OutsideModel:
            outside += 1
            continue
        impl = norm(impl)
        ok = same_result(impl, model) if "raises" in model else ("keys" in impl and all(same_result(a, b) for a, b in zip(impl["keys"], model["keys"])))
        if not ok:
            chk.disagree("parameter names per container vs Model_C08.fresh_keys", inp, impl, model)
        else:
            agree += 1
        if "keys" in impl and mo[0] == "Val":
            if mo[1] is not True:
                chk.disagree("C08_security_keys_present: its conclusion is false on the operation the implementation built "
                             "(an active apiKey definition is not served by the container of its location)", inp, impl, "security_keys_present = true")
            else:
                present += 1
    return {"operations": len(sel), "with_active_security": min(len(picked), n * 3 // 4), "agree": agree, "outside_model": outside,
            "theorem_conclusion_true_on_implementation": present}


# ----------------------------------------------------------------------------------------
def run(chk: core.Check):
    quick = chk.tier == "quick"
    chk.trusted = [
        "Coq 8.16.1 kernel, vm_compute (witness lemmas and model evaluation); no native_compute; no axioms",
        "hand-written model theories/C08/Model_C08.v: Python duck typing on JSON values, local $ref resolution, resolve_all, "
        "collect_parameters 2.0/3.0, add_parameter, security parameters, parameters_to_json_schema, get_all_operations, "
        "OperationCache + the three lookups",
        "correspondence harness harness/props/c08.py (encoders, Coq output parser, canonical views, generators, exception-class mapping)",
        "PyYAML (YAML oracle only; not modelled)",
        "effective-keys oracle (effective_keys_oracle: own $ref resolution, operation + path level parameters, security requirements in force -> "
        "(name, location) keys; written from the OpenAPI 2.0 / 3.0 rules, never calls schemathesis)",
        "reference round-trip oracle (own RFC 6901 encoder / decoder esc_pointer / unesc_pointer, expected operation = the definition written under "
        "paths[path][method] of the raw document; own count of links that name a documented operation)",
    ]
    chk.assumptions = [
        "to_json_schema_recursive (converter.py, property C01) is a parameter conv of the model; the generators only emit schemas on which it is the identity",
        "references are local (#/...), without $id/$anchor keys or servers/basePath; jsonschema.RefResolver, urllib urljoin and unquote behave as modelled for them "
        "(percent escapes of ASCII bytes are modelled; a percent-encoded non-ASCII byte puts the case outside the model)",
        "documents whose reference chains exceed RECURSION_DEPTH_LIMIT inside an operation (recursive schemas) are outside the model (ETruncated) and only counted",
        "header name validation of requests (_VALID_HEADER_NAME_RE_STR) as transcribed in header_name_ok",
    ]
    chk.rule = (
        "documents drawn from one PRNG (VERIF_SEED): OpenAPI 2.0 / 3.0 / 3.1, 1-4 paths (15% behind $ref, 3% unresolvable), shared and operation "
        "parameters from small name x location pools (so equal (name, location) at both levels is frequent), $ref to components incl. chains and "
        "missing targets, requestBody alternatives / consumes / body / formData, security schemes colliding with parameter names, operationIds "
        "(8% duplicated), 30% with 1-2 malformed entries (null, 5, 'x', [], {}, [5], ['x'], ...) planted at path item / parameters / parameter / "
        "in / name / schema / requestBody / content / security positions; x access sequences of 2-8 lookups (iteration, by path+method in three "
        "casings, by operationId, by reference incl. junk references) focused on 1-2 operations; non-trivial = the document has an operation and "
        "the sequence reaches a cached entry or an error; distinct by canonical JSON; 30% of the documents (50% in the effective-keys search) get 1-3 "
        "planted apiKey schemes named after a parameter declared at operation level / path level / both, in the same location, another location or "
        "one of each, activated by the document-level or operation-level security, as a new requirement object or a further key of an existing one; "
        "a third of the documents carry 1-2 path keys that need JSON-pointer escaping beyond the slash (~, ~0, ~1, ~01, ~10, ~~1, a trailing slash, percent "
        "escapes %2F %7E %41 %zz) together with a key a faulty pointer codec would confuse them with (decoding in the other order / twice / not at all, "
        "percent-unquoting: /a/v~1 and /a/v/), and their access sequences focus on those keys in both orders; the reference stages use small well-formed "
        "documents over an alphabet of ~ 0 1 / {id} ~0 ~1 ~01 ~10 ~~ (20% with percent escapes) with links by operationRef / operationId"
    )
    chk.proofs(["Common", "C08"])
    rng = chk.rng

    # ---- stage 2: correspondence on documents x access sequences
    corpus = [json.loads(p.read_text()) for p in sorted((core.VERIF / "corpus" / "C08").glob("*.json"))]
    n = 520 if quick else 7000
    cases = [(c["doc"], c["accesses"]) for c in corpus]
    for _ in range(n):
        d = gen_doc(rng)
        cases.append((d, gen_accesses(rng, d)))
    models = []
    for i in range(0, len(cases), 1200):
        models += model_run(cases[i : i + 1200])
    outside = 0
    agree = 0
    impl_results = []
    for (doc, accs), model in zip(cases, models):
        impl = norm(impl_run(doc, accs))
        impl_results.append(impl)
        kinds = {a[0] for a in accs}
        nontrivial = count_ops(doc) > 0 and len(accs) >= 2
        chk.seen({"doc": doc, "accesses": accs}, nontrivial)
        chk.count("version:" + version_of(doc))
        for k in kinds:
            chk.count("access:" + k)
        for r in impl:
            if "iter" in r:
                chk.count("iteration:" + ("completes" if r["crash"] is None else "ends with " + r["crash"]))
            elif "op" in r:
                chk.count("lookup:operation")
            else:
                chk.count("lookup:raises " + r["raises"])
        if model is None:
            outside += 1
            continue
        model = norm(model)
        bad = [(a, x, y) for a, x, y in zip(accs, impl, model) if not same_result(x, y)]
        if bad:
            a, x, y = bad[0]
            chk.disagree("schema lookups vs Model_C08.run_views", {"doc": doc, "accesses": accs, "first_difference_at": a}, x, y)
        else:
            agree += 1
            if count_ops(doc) > 1:
                chk.sample({"doc_paths": list(doc.get("paths", {})) if isinstance(doc.get("paths"), dict) else None, "accesses": accs,
                            "results": [("iter:%d items, crash=%s" % (len(r["iter"]), r["crash"])) if "iter" in r else (r.get("raises") or r["op"]["method"] + " " + r["op"]["path"]) for r in impl]})
    chk.stages["correspondence"] = {"cases": len(cases), "corpus": len(corpus), "agree": agree, "outside_model": outside}

    # ---- stage 2b: the region predicates of the theorems, evaluated in Coq, against the implementation:
    #      coherent = true  =>  the sequence on one schema object equals the lookups on fresh objects;
    #      iteration_completes = true  =>  every documented operation is Ok or Err
    k = len(corpus) + (140 if quick else 1000)
    sub = [(d, a) for (d, a) in cases[:k]]
    flags = core.coq_eval(IMPORTS, [f"(coherent {version_of(d)} {cjson(d)} {clist([c_access(x) for x in a], 'access')}, coherent_strict {version_of(d)} {cjson(d)} {clist([c_access(x) for x in a], 'access')}, iteration_completes {version_of(d)} {cjson(d)})" for d, a in sub], shard=25)
    n_coh = n_strict = n_compl = 0
    for (doc, accs), (coh, strict, compl), impl in zip(sub, flags, impl_results):
        if coh:
            n_coh += 1
            fresh = norm(impl_run(doc, accs, fresh_each=True))
            if strip(fresh, scope=True) != strip(impl, scope=True):
                chk.disagree("coherent = true but the implementation's cached lookups differ from fresh ones", {"doc": doc, "accesses": accs}, impl, fresh)
            if strict:
                n_strict += 1
                if strip(fresh) != strip(impl):
                    chk.disagree("coherent_strict = true but cached lookups differ from fresh ones (scope included)", {"doc": doc, "accesses": accs}, impl, fresh)
        it = next((r for r in impl if "iter" in r), None) or norm(impl_run(doc, [["iter"]]))[0]
        if compl != (it["crash"] is None):
            chk.disagree("iteration_completes vs the implementation", {"doc": doc, "accesses": [["iter"]]}, it["crash"], compl)
        if compl:
            n_compl += 1
            if ok_or_err_failures(doc, it):
                chk.disagree("iteration_completes = true but a documented operation is neither Ok nor Err", {"doc": doc, "accesses": [["iter"]]}, ok_or_err_failures(doc, it), None)
    chk.stages["region_predicates"] = {"cases": len(sub), "coherent": n_coh, "coherent_strict": n_strict, "iteration_completes": n_compl}

    # ---- stage 2c: security-derived parameters.  (i) Model_C08.fresh_keys (names per container, order and duplicates kept)
    #      against the real operation; (ii) the executable conclusion of C08_security_keys_present evaluated on what the
    #      IMPLEMENTATION holds (its parameter definitions per container) with the active definitions the model derives
    chk.stages["security_keys"] = security_keys_stage(chk, rng, cases, 120 if quick else 600)

    # ---- stage 2d: JSON-pointer escaping of path keys: Model_C08.reference_of / path_of_reference / plain_entry /
    #      operation_ref_target and the hypotheses of the any-order theorem, evaluated in Coq, against the implementation
    chk.stages["reference_round_trip"] = reference_stage(chk, rng, 120 if quick else 900)

    # ---- stage 3: oracle search on the implementation (testing; supports the tie, never replaces a theorem)
    mult = 10 if chk.broken else 1
    n_order = override_n = crash_n = 0
    order_diff = 0
    for (doc, accs), impl in zip(cases, impl_results):
        # (a) cached lookups vs the same lookups on fresh schema objects
        fresh = norm(impl_run(doc, accs, fresh_each=True))
        n_order += 1
        if fresh != strip(impl) and all(canonical_reference(a) for a in accs):
            order_diff += 1
            chk.fail("a lookup returns something else than on a fresh schema object (depends on earlier accesses)",
                     {"doc": doc, "accesses": accs}, {"sequence": impl, "fresh": fresh}, region=order_region(doc, accs, impl, fresh))
        # (b) precedence of operation-level parameters
        for f in override_failures(doc)[:1]:
            override_n += 1
            chk.fail("generated schema is not the operation-level definition", {"doc": doc}, f, region="path_level_overrides")
        # (c) every documented operation Ok or Err
        it = next((r for r in impl if "iter" in r), None) or norm(impl_run(doc, [["iter"]]))[0]
        missing = ok_or_err_failures(doc, it)
        if missing:
            crash_n += 1
            chk.fail("documented operations neither offered nor reported", {"doc": doc}, {"missing": missing, "generator_ended_with": it["crash"]},
                     region="uncaught_exception" if it["crash"] is not None else None)
    extra = (150 if quick else 2000) * mult
    for _ in range(extra):
        doc = gen_doc(rng)
        accs = gen_accesses(rng, doc, n=rng.choice([6, 8, 12]))
        a = strip(norm(impl_run(doc, accs)))
        b = norm(impl_run(doc, accs, fresh_each=True))
        n_order += 1
        chk.seen({"doc": doc, "accesses": accs, "stage": "search"}, count_ops(doc) > 0)
        if a != b and all(canonical_reference(x) for x in accs):
            order_diff += 1
            chk.fail("a lookup returns something else than on a fresh schema object (depends on earlier accesses)",
                     {"doc": doc, "accesses": accs}, {"sequence": a, "fresh": b}, region=order_region(doc, accs, a, b))
    chk.stages["search_order_precedence_accounting"] = {
        "sequences_vs_fresh": n_order, "order_dependent": order_diff, "override_hits": override_n, "documents_with_unaccounted_operations": crash_n}

    # (f) effective parameter keys incl. security-derived ones: own oracle on the raw document vs the real operation,
    #     for every operation and every access route (fresh objects and one shared object)
    n_obs = n_keyfail = n_na = n_docs = 0
    extra_docs = []
    for _ in range((150 if quick else 1000) * mult):
        d = gen_doc(rng, malform=rng.random() < 0.15)
        if rng.random() < 0.5:
            plant_security_clash(rng, d)
        extra_docs.append(d)
        chk.seen({"doc": d, "stage": "effective-keys"}, count_ops(d) > 0)
    for doc in [d for d, _ in cases] + extra_docs:
        n_docs += 1
        clash_histogram(chk, doc)
        obs, fails, na = effective_keys_failures(rng, doc)
        n_obs += obs
        n_na += na
        for operation, route, verdict in fails[:1]:
            n_keyfail += 1
            verdict["routes_failing_for_this_document"] = sorted({r for _, r, _ in fails})
            chk.fail("an operation is offered with other parameters than its effective ones (declared + security-derived, by (name, location))",
                     {"kind": "effective_keys", "doc": doc, "operation": operation, "route": route}, verdict, region=None)
    chk.stages["search_effective_keys"] = {"documents": n_docs, "operation_x_route_observations": n_obs,
                                           "operations_outside_the_oracle": n_na, "documents_failing": n_keyfail}

    # (g) the reference round trip: get_operation_by_reference(operation.operation_reference) is the operation of that (path,
    #     method) for path keys with ~, ~0, ~1, ~01, ~10, ~~1, percent signs and the keys a faulty codec confuses them with,
    #     in every access order; the link statistic counts operationRef links to such keys (own RFC 6901 decoder)
    n_rt_docs = n_rt_obs = n_rt_fail = 0
    rt_docs = [d for d, _ in cases if any(special_path(p) for p in doc_keys(d)[0])][: (150 if quick else 1500)]
    rt_docs = [d for d in rt_docs if not id_scan_fails(d) and not duplicate_ids(d)]
    for _ in range((220 if quick else 2500) * mult):
        d = gen_pointer_doc(rng)
        rt_docs.append(d)
        chk.seen({"doc": d, "stage": "reference-round-trip"}, True)
    for doc in rt_docs:
        n_rt_docs += 1
        try:
            obs, fails = reference_roundtrip_failures(rng, doc)
        except Exception:  # noqa: BLE001
            continue  # a malformed correspondence document the oracle cannot walk: the other stages' business
        n_rt_obs += obs
        by_region = {}
        for operation, order, detail in fails:
            by_region.setdefault(roundtrip_region(operation, detail), (operation, order, detail))
        for region, (operation, order, detail) in by_region.items():
            n_rt_fail += 1
            chk.fail("lookup by JSON reference (operation_reference) does not return the documented operation of that path and method, "
                     "or the link statistic does not count a link to it",
                     {"kind": "reference_roundtrip", "doc": doc, "operation": operation, "order": order},
                     {**detail, "failing_lookups_in_this_document": len(fails)}, region=region)
    chk.stages["search_reference_round_trip"] = {"documents": n_rt_docs, "observations": n_rt_obs, "failing": n_rt_fail}

    # (d) JSON vs YAML serialisation of the same document
    import schemathesis

    n_yaml = (120 if quick else 2500) * mult
    yaml_bad = 0
    for _ in range(n_yaml):
        doc = yaml_variant(rng, gen_doc(rng, malform=False))
        text = to_yaml(doc) + "\n"
        chk.seen({"yaml": doc}, True)
        try:
            with warnings.catch_warnings():
                warnings.simplefilter("ignore")
                loaded = schemathesis.openapi.from_file(text)
            raw = loaded.raw_schema
            same = json.dumps(raw, sort_keys=False, default=repr) == json.dumps(doc, sort_keys=False, default=repr)
            if same:
                a = norm(impl_access(loaded, ["iter"]))
                b = norm(impl_run(doc, [["iter"]])[0])
                same = a == b
        except Exception as e:  # noqa: BLE001
            same = False
            raw = f"{type(e).__name__}: {e}"
        if not same:
            yaml_bad += 1
            chk.fail("the YAML form of the document loads differently from the JSON form", {"doc": doc, "yaml": text}, {"loaded": repr(raw)[:3000]})
    chk.stages["search_json_vs_yaml"] = {"documents": n_yaml, "differences": yaml_bad}

    # (e) two-file layouts loaded with from_path: every operation, obtained by id / by path / by reference in varying
    #     order, must carry the scope of ITS file and mean what ITS file says (response, referenced parameter)
    chk.stages["search_two_file_layouts"] = two_file_check(chk, rng, (50 if quick else 1200) * mult)

    # ---- listed findings
    for f in chk.findings:
        chk.known(f, witness_fails(f["witness"]))


def replay(payload) -> int:
    for f in payload.get("failing_inputs", []):
        inp = f.get("input") or {}
        print("failing input:", f.get("what"))
        if "accesses" in inp:
            a = norm(impl_run(inp["doc"], inp["accesses"]))
            b = norm(impl_run(inp["doc"], inp["accesses"], fresh_each=True))
            print("  sequence:", [(r.get("raises") or ("op" in r and r["op"]["method"] + " " + r["op"]["path"]) or "iter") for r in a])
            print("  fresh   :", [(r.get("raises") or ("op" in r and r["op"]["method"] + " " + r["op"]["path"]) or "iter") for r in b])
        elif inp.get("kind") == "two_file":
            for oid, expect, got, distinct in two_file_eval(inp["root"], inp["shared"], inp["owners"], inp["operations"], inp["order"]):
                if oid == inp["operation"]:
                    print("  expected:", expect, "\n  got     :", got, "\n  different objects:", distinct)
        elif inp.get("kind") == "reference_roundtrip":
            import random

            obs, fails = reference_roundtrip_failures(random.Random(0), inp["doc"])
            print("  operation", inp["operation"], "order", inp["order"])
            for operation, order, detail in fails[:4]:
                print("   ", operation, "|", order, "|", json.dumps(detail, default=repr)[:400])
            if not fails:
                print("   no longer failing (%d observations)" % obs)
        elif inp.get("kind") == "effective_keys":
            import random

            obs, fails, _ = effective_keys_failures(random.Random(0), inp["doc"])
            print("  operation", inp["operation"], "route", inp["route"])
            for operation, route, verdict in fails[:4]:
                print("   ", operation, route, "missing:", verdict["missing"], "extra:", verdict["extra"], "offered with:", verdict["offered_with"])
            if not fails:
                print("   no longer failing (%d observations)" % obs)
        elif "doc" in inp:
            print("  override:", override_failures(inp["doc"])[:2])
            it = norm(impl_run(inp["doc"], [["iter"]]))[0]
            print("  unaccounted:", ok_or_err_failures(inp["doc"], it), "crash:", it["crash"])
    for b in payload.get("broken_obligations_or_correspondence", []):
        print("broken:", b.get("kind"), b.get("what"))
        inp = b.get("input")
        if b.get("kind") == "correspondence" and isinstance(inp, dict) and "accesses" in inp:
            m = model_run([(inp["doc"], inp["accesses"])])[0]
            i = norm(impl_run(inp["doc"], inp["accesses"]))
            for a, x, y in zip(inp["accesses"], i, norm(m) if m else [None] * len(i)):
                if not same_result(x, y):
                    print("  access", a, "\n   implementation:", json.dumps(x)[:600], "\n   model         :", json.dumps(y)[:600])
                    break
    return 0


# ----------------------------------------------------------------------------------------
# two-file layouts (oracle only: the model has local references only)
# ----------------------------------------------------------------------------------------
def two_file_docs(rng):
    """root.yaml + shared/a.yaml.  Both files define #/components/responses/R and #/components/parameters/P with
    different content, so an operation whose local references are resolved against the wrong file is visible."""
    R = lambda who: {"description": who, "content": {"application/json": {"schema": {"type": "string", "title": who}}}}  # noqa: E731
    P = lambda who, ty: {"name": "p", "in": "query", "required": True, "schema": {"type": ty, "title": who}}  # noqa: E731

    def op(oid, with_param):
        o = {"operationId": oid, "responses": {"200": {"$ref": "#/components/responses/R"}}}
        if with_param:
            o["parameters"] = [{"$ref": "#/components/parameters/P"}]
        return o

    shared = {"items": {}, "components": {"responses": {"R": R("shared")}, "parameters": {"P": P("shared", "string")}}}
    if rng.random() < 0.2:
        del shared["components"]["responses"]
    root = {"openapi": "3.0.2", "info": {"title": "t", "version": "1"}, "paths": {},
            "components": {"responses": {"R": R("root")}, "parameters": {"P": P("root", "integer")}}}
    owners = {}
    n = rng.choice([2, 3, 4])
    kinds = [rng.random() < 0.45 for _ in range(n)]
    if rng.random() < 0.5:
        kinds[0] = True  # a path item behind $ref first, inline ones after it
    for i, behind_ref in enumerate(kinds):
        path = f"/p{i}" + rng.choice(["", "", "~1", "~0/x", "/~01"])
        item = {}
        if rng.random() < 0.4:
            item["parameters"] = [{"name": "s", "in": "query", "schema": {"type": "boolean"}}]
        for m in rng.sample(["get", "post", "put"], rng.choice([1, 2])):
            oid = f"{m}P{i}"
            item[m] = op(oid, rng.random() < 0.6)
            owners[oid] = {"path": path, "method": m, "file": "shared" if behind_ref else "root", "has_param": "parameters" in item[m]}
        if behind_ref:
            shared["items"][f"I{i}"] = item
            root["paths"][path] = {"$ref": f"shared/a.yaml#/items/I{i}"}
        else:
            root["paths"][path] = item
    return root, shared, owners


def two_file_observe(schema, op):
    """What the operation means: document of its scope, its 200 response resolved in its scope, its query parameter p."""
    from urllib.parse import urldefrag

    out = {"scope_file": urldefrag(op.definition.scope)[0].rsplit("/", 1)[-1]}
    try:
        _, resp = schema.resolver.resolve_in_scope(op.definition.raw["responses"]["200"], op.definition.scope)
        out["response"] = resp.get("description")
    except Exception as e:  # noqa: BLE001
        out["response"] = "raises " + exc_class(e)
    out["p"] = next((p.definition.get("schema", {}).get("title") for p in op.query if p.definition.get("name") == "p"), None)
    out["shared_s"] = any(p.definition.get("name") == "s" for p in op.query)
    return out


def two_file_eval(root, shared, owners, oids, order):
    """Load root.yaml (+ shared/a.yaml) with from_path and look every operation up in the given order of lookup kinds.
    -> list of (operation id, expected, got per kind, lookups returned different objects)."""
    import shutil
    import tempfile
    from pathlib import Path

    import schemathesis

    core.SCRATCH.mkdir(exist_ok=True)
    td = tempfile.mkdtemp(dir=core.SCRATCH, prefix="c08_two_")
    out = []
    try:
        (Path(td) / "shared").mkdir()
        (Path(td) / "root.yaml").write_text(to_yaml(root) + "\n")
        (Path(td) / "shared" / "a.yaml").write_text(to_yaml(shared) + "\n")
        with warnings.catch_warnings():
            warnings.simplefilter("ignore")
            schema = schemathesis.openapi.from_path(str(Path(td) / "root.yaml"))
            for oid in oids:
                w = owners[oid]
                if w["file"] == "shared" and "responses" not in shared["components"]:
                    expect = {"raises": "ERef"}  # its own file has no such response: reported
                else:
                    expect = {"scope_file": "root.yaml" if w["file"] == "root" else "a.yaml", "response": w["file"],
                              "p": w["file"] if w["has_param"] else None}
                got = {}
                objs = {}
                for kind in order:
                    if kind == "ref" and w["file"] != "root":
                        continue  # an operation under a path item behind $ref has no #/paths/... reference
                    try:
                        if kind == "id":
                            o = schema.get_operation_by_id(oid)
                        elif kind == "get":
                            o = schema[w["path"]][w["method"]]
                        else:
                            o = schema.get_operation_by_reference(f"#/paths/{esc_pointer(w['path'])}/{w['method']}")
                        objs[kind] = o
                        obs = two_file_observe(schema, o)
                        obs.pop("shared_s")
                        got[kind] = obs
                    except Exception as e:  # noqa: BLE001
                        got[kind] = {"raises": exc_class(e)}
                out.append((oid, expect, got, len({id(o) for o in objs.values()}) > 1))
    finally:
        shutil.rmtree(td, ignore_errors=True)
    return out


def two_file_region(owner, order, expect, got, distinct):
    """by_id_resolves_in_root_scope: the operation lives in the other file and everything that is off is the by-id result
    or a later lookup that returned the object the by-id lookup had cached."""
    if owner["file"] != "shared" or distinct or "id" not in got or got["id"] == expect:
        return None
    for k, v in got.items():
        if v == expect or k == "id":
            continue
        if order.index("id") < order.index(k) and v == got["id"]:
            continue
        return None
    return "by_id_resolves_in_root_scope"


def two_file_check(chk, rng, n):
    bad = 0
    for _ in range(n):
        root, shared, owners = two_file_docs(rng)
        order = rng.choice([["id", "get", "ref"], ["get", "id", "ref"], ["ref", "id", "get"], ["id", "ref", "get"]])
        oids = list(owners)
        rng.shuffle(oids)
        chk.seen({"two_file": root, "shared": shared, "order": order, "ids": oids}, True)
        for oid, expect, got, distinct in two_file_eval(root, shared, owners, oids, order):
            if distinct or any(v != expect for v in got.values()):
                bad += 1
                chk.fail("two-file layout: an operation does not mean what ITS file says, or the lookups return different objects",
                         {"kind": "two_file", "root": root, "shared": shared, "owners": owners, "operations": oids, "operation": oid, "order": order},
                         {"expected": expect, "got": got, "different_objects": distinct},
                         region=two_file_region(owners[oid], order, expect, got, distinct))
    return {"layouts": n, "operations_off": bad}
