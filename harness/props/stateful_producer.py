"""The real execute_state_machine_loop (engine/phases/stateful/_executor.py) driven by a scripted stand-in for Hypothesis:
the base class handed to the loop has a `run` that starts the scenarios / steps the script says, and a `step` that does what
the script says; the harness can request a stop before any action of the thread.  Compared with ModelP_C11 (C11, C12, C05)."""
from __future__ import annotations

import queue
import threading
import unittest

from harness import core

STATUS = {"SUCCESS": "SUCCESS", "FAILURE": "FAILURE", "ERROR": "ERROR", "INTERRUPTED": "INTERRUPTED", "SKIP": "SKIP"}
STEP = ["ok", "fail", "err", "ki"]
END = ["ok", "failure_group", "flaky", "skip", "unsat", "other"]


def gen_case(rng) -> dict:
    nsuites = rng.choice([1, 1, 2, 3])
    behs = []
    for _ in range(nsuites):
        scs = []
        worst = 0
        for _ in range(rng.choice([0, 1, 1, 2, 3])):
            steps = []
            for _ in range(rng.choice([0, 1, 2, 3])):
                st = rng.choices(STEP, [6, 2, 1, 0.4])[0]
                steps.append(st)
                if st != "ok":
                    break
            if rng.random() < 0.15:
                steps += [rng.choice(STEP)]      # steps Hypothesis would not reach: dead tail, must be ignored
            scs.append(steps)
        for steps in scs:
            for st in steps:
                worst = max(worst, {"ok": 0, "fail": 1, "err": 2, "ki": 0}[st])
        if rng.random() < 0.7:
            end = {0: rng.choice(["ok", "ok", "skip", "unsat"]), 1: rng.choice(["failure_group", "flaky"]), 2: "other"}[worst]
        else:
            end = rng.choice(END)
        behs.append({"scenarios": scs, "end": end})
    # actions of the thread are numbered from 0; stop requests arrive before the action with that number
    stop_before = None
    r = rng.random()
    if r < 0.15:
        stop_before = 0
    elif r < 0.6:
        stop_before = rng.randint(1, 30)
    case = {"behs": behs, "maxf": rng.choice([None, None, 1, 2, 3]), "max_examples": rng.choice([1, 2, 5]),
            "extra": rng.choice([0, 0, 1]), "stop_before": stop_before, "limit0": rng.random() < 0.05}
    if rng.random() < 0.25:
        # faults in ctx.maximize_metrics() during teardown (one entry per teardown); only in runs where no KeyboardInterrupt can be in
        # flight during a teardown (the model ignores a fault then, the real exception would replace the interrupt)
        case.update({"stop_before": None, "maxf": None, "limit0": False})
        for b in case["behs"]:
            b["scenarios"] = [[st for st in steps if st != "ki"] for steps in b["scenarios"]]
        n_tear = sum(len(b["scenarios"]) for b in case["behs"])
        case["faults"] = [rng.random() < 0.5 for _ in range(n_tear)]
    return case


class _Scripted(Exception):
    pass


def run_real(case: dict, via_consumer: bool = False) -> dict:
    """Runs the real loop (in this thread, or - via_consumer - as the thread started by the real stateful.execute whose consumer
    loop then yields the events); returns the events it put and the actions it performed."""
    import hypothesis
    from hypothesis.control import BuildContext
    from hypothesis.errors import Flaky, Unsatisfiable
    from hypothesis.internal.conjecture.data import ConjectureData

    import schemathesis
    from schemathesis.core.failures import Failure, FailureGroup
    from schemathesis.engine.config import EngineConfig, ExecutionConfig, NetworkConfig
    from schemathesis.engine.context import EngineContext
    from schemathesis.engine.phases.stateful import _executor as X
    from schemathesis.engine.recorder import ScenarioRecorder
    from harness.engine_util import demo_schema

    actions: list[str] = []
    stop_event = threading.Event()
    state = {"n": 0}

    def action(name: str):
        """Called right before every action of the thread that the model counts as one step."""
        if case["stop_before"] is not None and state["n"] == case["stop_before"]:
            stop_event.set()
            state["puts_before_stop"] = sum(1 for a in actions if a == "put")
        state["n"] += 1
        actions.append(name)

    class Q(queue.Queue):
        def put(self, item, *a, **kw):
            action("put")
            return super().put(item, *a, **kw)

    q = Q()
    schema = schemathesis.openapi.from_dict(demo_schema())
    config = EngineConfig(
        execution=ExecutionConfig(hypothesis_settings=hypothesis.settings(max_examples=case["max_examples"], database=None),
                                  max_failures=case["maxf"], seed=1),
        network=NetworkConfig(),
    )
    engine = EngineContext(schema=schema, stop_event=stop_event, config=config)
    engine.__dict__["session"] = None      # cached_property: no real session needed
    if case.get("limit0"):
        engine.control.has_reached_the_failure_limit = True
    control = engine.control

    # flag reads are actions of the thread as well
    class ControlProxy:
        def __getattr__(self, name):
            return getattr(control, name)

    real_is_interrupted = type(engine).is_interrupted
    real_has_to_stop = type(engine).has_to_stop

    class Eng(type(engine)):
        @property
        def is_interrupted(self):
            action("read_interrupted")
            return real_is_interrupted.fget(self)

        @property
        def has_to_stop(self):
            action("read_has_to_stop")
            return real_has_to_stop.fget(self)

    engine.__class__ = Eng
    suites = iter(case["behs"])
    bodies: list[bool] = []
    fcount = [0]

    class Base:
        """Stand-in for the APIStateMachine subclass: `run` is Hypothesis."""

        def __init__(self):
            self.recorder = ScenarioRecorder(label="Stateful tests")

        def setup(self):
            pass

        def teardown(self):
            pass

        def before_call(self, case_):
            pass

        def step(self, input):
            st = input
            action("body")
            bodies.append(control.is_stopped)
            if st == "ok":
                return None
            if st == "fail":
                fs = []
                for _ in range(1 + case["extra"]):
                    fcount[0] += 1
                    control.count_failure()       # what validate_response.on_failure does for every new failure
                    fs.append(Failure(operation="GET /x", title=f"f{fcount[0]}", message="m"))
                raise FailureGroup(fs)
            if st == "err":
                raise _Scripted("step error")
            raise KeyboardInterrupt

        @classmethod
        def run(cls, settings=None):
            beh = next(suites, {"scenarios": [], "end": "ok"})
            for steps in beh["scenarios"]:
                data = ConjectureData.for_choices([])
                with BuildContext(data, is_final=False, wrapped_test=None):
                    m = cls()
                    m.setup()
                    try:
                        try:
                            for st in steps:
                                m.step(st)
                        finally:
                            m.teardown()
                    except KeyboardInterrupt:
                        raise
                    except BaseException:
                        pass        # Hypothesis records the error and goes on (shrinking, further examples)
            end = beh["end"]
            action("run_end")
            if end == "ok":
                return
            if end == "failure_group":
                raise FailureGroup([Failure(operation="GET /x", title="final", message="m")])
            if end == "flaky":
                raise Flaky("flaky")
            if end == "skip":
                raise unittest.case.SkipTest("no examples")
            if end == "unsat":
                raise Unsatisfiable("unsat")
            raise _Scripted("run error")

    err = None
    phase_status = None
    from unittest import mock as _mock

    from schemathesis.engine.phases.stateful.context import StatefulContext

    faults = list(case.get("faults") or [])
    real_maximize = StatefulContext.maximize_metrics

    def maximize(self):
        if faults and faults.pop(0):
            raise _Scripted("maximize_metrics failed")
        return real_maximize(self)

    patcher = _mock.patch.object(StatefulContext, "maximize_metrics", maximize)
    patcher.start()
    try:
        return _run_real_inner(case, via_consumer, locals())
    finally:
        patcher.stop()


def _run_real_inner(case, via_consumer, env):
    import threading

    X, Base, engine, q, Q, action, schema, actions, bodies, stop_event, control, state = (
        env[k] for k in ("X", "Base", "engine", "q", "Q", "action", "schema", "actions", "bodies", "stop_event", "control", "state"))
    err = None
    phase_status = None
    if via_consumer:
        from unittest import mock

        from schemathesis.engine.phases import Phase, PhaseName
        from schemathesis.engine.phases import stateful as ST

        died = []
        real_loop = X.execute_state_machine_loop

        def loop(**kw):
            qq = kw["event_queue"]              # the queue the real consumer created: count its puts as actions too
            inner = qq.put

            def counted_put(item, *a, _inner=inner, **k):
                action("put")
                return _inner(item, *a, **k)

            qq.put = counted_put
            try:
                real_loop(**kw)
            except BaseException as exc:
                died.append(repr(exc))
                raise

        phase = Phase(name=PhaseName.STATEFUL_TESTING, is_supported=True, is_enabled=True)
        evs = []
        with mock.patch.object(type(schema), "as_state_machine", lambda self: Base), mock.patch.object(X, "execute_state_machine_loop", loop), \
                mock.patch.object(threading, "excepthook", lambda args: None):
            for ev in ST.execute(engine, phase):
                if type(ev).__name__ == "PhaseFinished":
                    phase_status = ev.status.name
                else:
                    evs.append(ev)
        err = died[0] if died else None
    else:
        try:
            X.execute_state_machine_loop(state_machine=Base, event_queue=q, engine=engine)
        except BaseException as exc:  # the thread would die with this
            err = repr(exc)
        evs = []
        while not q.empty():
            evs.append(q.get())
    return {"events": canon_events(evs), "actions": actions, "bodies": bodies, "stop_set": stop_event.is_set(),
            "limit": control.has_reached_the_failure_limit, "counter": control._failures_counter, "died": err,
            "phase_status": phase_status, "puts_before_stop": state.get("puts_before_stop")}


def canon_events(evs) -> list:
    suites: dict = {}
    scens: dict = {}
    out = []
    for e in evs:
        k = type(e).__name__
        if k == "SuiteStarted":
            suites.setdefault(e.id, len(suites))
            out.append(["SuS", suites[e.id]])
        elif k == "SuiteFinished":
            out.append(["SuF", suites.get(e.id, -1), e.status.name])
        elif k == "ScenarioStarted":
            scens.setdefault(e.id, len(scens))
            out.append(["ScS", scens[e.id], suites.get(e.suite_id, -1)])
        elif k == "ScenarioFinished":
            out.append(["ScF", scens.get(e.id, -1), suites.get(e.suite_id, -1), e.status.name])
        elif k == "Interrupted":
            out.append(["Intr"])
        elif k == "NonFatalError":
            out.append(["NFE"])
        else:
            out.append([k])
    return out


# ---- model side ------------------------------------------------------------------------------------------------------

def beh_coq(b: dict, extra: int) -> str:
    def st(x):
        return {"ok": "StOk", "fail": f"(StFail {extra})", "err": "StErr", "ki": "StKI"}[x]

    def live(steps):
        # steps after the first one that raises are never reached
        out = []
        for x in steps:
            out.append(x)
            if x != "ok":
                break
        return out

    scs = "[" + "; ".join("[" + "; ".join(st(x) for x in live(steps)) + "]" for steps in b["scenarios"]) + "]"
    end = {"ok": "ROk", "failure_group": "RFailureGroup", "flaky": "RFlaky", "skip": "RSkipTest", "unsat": "RUnsat", "other": "ROther"}[b["end"]]
    return f"({scs}, {end})"


def model_expr(case: dict, n_actions: int) -> str:
    """The model is run with one LP per action the real thread performed, the stop request where the harness set it, and
    then until it terminates."""
    behs = "[" + "; ".join(beh_coq(b, case["extra"]) for b in case["behs"]) + "]"
    maxf = "None" if case["maxf"] is None else f"(Some {case['maxf']})"
    labels = []
    sb = case["stop_before"]
    total = n_actions + 40
    for i in range(total):
        if sb is not None and i == sb and sb < n_actions:      # a request after the thread's last action was never made
            labels.append("LStop")
        labels.append("LP")
    ls = "[" + "; ".join(labels) + "]"
    lim0 = "true" if case.get("limit0") else "false"
    faults = "[" + "; ".join("true" if f else "false" for f in (case.get("faults") or [])) + "]"
    return (f"(let s := prun_obs {{| p_maxf := {maxf}; p_maxex := {case['max_examples']} |}} {ls} (pinit_f {faults} false {lim0} 0 {behs}) in "
            f"(pscript s, rev (p_bodies s), pcode s, (p_stop s, p_limit s, p_counter s), "
            f"(nested (pscript s), all_closed_p (pscript s), phase_status (pscript s))))")


def canon_model_events(evs) -> list:
    out = []
    for e in evs:
        if isinstance(e, str):
            out.append([{"PIntr": "Intr", "PNFE": "NFE"}[e]])
            continue
        name, args = e[0], list(e[1:])
        out.append([name] + [a if isinstance(a, int) else str(a) for a in args])
    return out


def ref_nesting(evs: list) -> str | None:
    """The property text as an automaton over canonical events (independent of the Coq checker)."""
    suite = None
    scen = None
    for e in evs:
        k = e[0]
        if k == "SuS":
            if suite is not None or scen is not None:
                return f"suite {e[1]} opened inside another suite / scenario"
            suite = e[1]
        elif k == "SuF":
            if suite != e[1]:
                return f"SuiteFinished for suite {e[1]} which is not the open one ({suite})"
            if scen is not None:
                return "suite closed while a scenario is open"
            suite = None
        elif k == "ScS":
            if suite is None or e[2] != suite or scen is not None:
                return f"scenario {e[1]} opened outside its suite"
            scen = e[1]
        elif k == "ScF":
            if scen != e[1] or e[2] != suite:
                return f"ScenarioFinished for scenario {e[1]} which is not the open one"
            scen = None
    if suite is not None or scen is not None:
        return "the thread ended with an open suite / scenario"
    return None


def scenarios_after_stop(r: dict) -> int:
    """ScenarioStarted events put after the harness requested the stop."""
    if r.get("puts_before_stop") is None:
        return 0
    return sum(1 for e in r["events"][r["puts_before_stop"]:] if e[0] == "ScS")


def stage(chk, n: int, what: str = "stateful producer", c12: bool = False) -> dict:
    """Correspondence real execute_state_machine_loop vs ModelP_C11 + the property's oracles on the real events."""
    rng = chk.rng
    corpus = [c for c in (core.VERIF / "corpus" / "C11").glob("producer_*.json")]
    import json as _json

    cases = [_json.loads(p.read_text()) for p in sorted(corpus)] + [gen_case(rng) for _ in range(n)]
    for k, c in enumerate(cases):
        c.setdefault("via_consumer", k % 3 == 0)       # every third case runs through the real stateful.execute consumer
    reals = [run_real(c, c["via_consumer"]) for c in cases]
    models = core.coq_eval(["C11.Model_C11", "C11.ModelP_C11"], [model_expr(c, len(r["actions"])) for c, r in zip(cases, reals)])
    bad = 0
    stops = 0
    for c, r, m in zip(cases, reals, models):
        nontrivial = len(r["events"]) > 2
        chk.seen({"producer": c}, nontrivial)
        stops += c["stop_before"] is not None
        mev = canon_model_events(m[0])
        mstop, mlimit, mcounter = m[3]
        mnested, mclosed, mstatus = m[4]
        if r["died"] is not None:
            bad += 1
            chk.fail(f"{what}: the state-machine thread died with {r['died']}", c)
            continue
        if mev != r["events"]:
            bad += 1
            chk.disagree(f"{what}: events put by execute_state_machine_loop vs ModelP_C11.pscript", c, r["events"], mev)
        elif list(m[1]) != r["bodies"] or m[2] != 12 or (bool(mstop), bool(mlimit), mcounter) != (r["stop_set"], r["limit"], r["counter"]):
            bad += 1
            chk.disagree(f"{what}: step bodies / final flags vs ModelP_C11", c,
                         [r["bodies"], r["stop_set"], r["limit"], r["counter"]], [list(m[1]), m[2], mstop, mlimit, mcounter])
        if r["phase_status"] is not None and r["phase_status"] != str(mstatus):
            bad += 1
            chk.disagree(f"{what}: PhaseFinished status of stateful.execute vs ModelP_C11.phase_status", c, r["phase_status"], str(mstatus))
        d = ref_nesting(r["events"])
        if d is not None:
            bad += 1
            chk.fail(f"{what}: events of the stateful thread are not properly nested: {d}", c)
        if c12 and not c["via_consumer"]:
            k = scenarios_after_stop(r)
            if k > 1 and all(len(steps) > 0 for b in c["behs"] for steps in b["scenarios"]):
                bad += 1
                chk.fail(f"{what}: {k} scenarios announced after the stop request", c)
            elif k == 1:
                chk.fail(f"{what}: a scenario was announced after the stop request", c, region="stateful_scenario_after_stop")
        if sum(1 for b in r["bodies"] if b) > 1:
            bad += 1
            chk.fail(f"{what}: more than one step executed after the stop was visible", c)
    return {"runs": len(cases), "with_stop_request": stops, "problems": bad}
