"""C19, stage `same_name_case_hooks`: SEVERAL hooks registered under ONE name on one dispatcher, evaluated by real data generation.

A history = events generate(op) / register(complete expression) / unregister on ONE schema object and one test dispatcher (the event
format of c19.gen_events), built so that 2-4 registrations share a hook name AND a dispatcher (mostly filter_case / map_case /
flatmap_case / before_generate_case, sometimes a parameter container) with DIFFERENT filters, in all decorator forms and scopes, with
unregistrations in between.  Every registration has its own instrumented function object; a generation builds
`operation.as_strategy(hooks=test dispatcher)` ONCE and draws several cases from it; the harness sees, per generated case, WHICH hook
functions ran, in which order and how often (nothing about how the code wraps a hook into a callback is looked at).

Compared with
 (a) the property read directly (oracle -> concrete failing inputs): per generated case every registration in force whose own filters
     select the operation runs exactly once, every other one never, and the hooks of one name on one dispatcher run in registration order;
 (b) Model_C19.gen_trace (exact order over scopes and kinds, per target; theorems C19_same_name_hooks_in_order / _each_once / _all_scopes);
 (c) the sentinel Model_C19.gen_trace_late (every callback of a name calls the LAST hook of that name: C19_late_binding_refuted): on the
     histories where it differs from gen_trace the code must not agree with it everywhere.
"""
from __future__ import annotations

from harness import core
from harness.core import clist, cnat
from harness.props import c19 as B

CASE_HOOKS = ["filter_case", "map_case", "flatmap_case", "before_generate_case"]
PARAM_HOOKS = [f"{k}_{t}" for k in B.ORACLE_KINDS for t in ("query", "headers", "cookies")]


def _reg(i, scope, form, hook, fn_name, filters):
    return {"id": i, "scope": scope, "form": form, "hook": hook, "fn_name": fn_name, "filters": filters}


# always run first
SAME_FIXED = [
    # three map_case hooks on the schema dispatcher through two closures; the LAST one is filtered out for GET /users/{id}
    [["register", _reg(0, "schema_hook", "function", "map_case", "map_case", [["apply_to", {"path": "/users"}]])],
     ["register", _reg(1, "schema", "named", "map_case", "tag_b", [["apply_to", {"path": "/users/{id}"}]])],
     ["register", _reg(2, "schema_hook", "named_inner", "map_case", "tag_c", [["skip_for", {"path": "/users/{id}"}]])],
     ["generate", 0], ["generate", 2], ["unregister", 2], ["generate", 0], ["generate", 2]],
    # global: three filter_case hooks (none / GET / tag admin); test: two flatmap_case hooks, one through hooks.apply
    [["register", _reg(0, "global", "named", "filter_case", "keep_all", [])],
     ["register", _reg(1, "global", "function", "filter_case", "filter_case", [["apply_to", {"method": "GET"}]])],
     ["generate", 1],
     ["register", _reg(2, "global", "named_split", "filter_case", "keep_admin", [["apply_to", {"tag": "admin"}], ["skip_for", {"method": "DELETE"}]])],
     ["register", _reg(3, "test", "apply", "flatmap_case", "again", [])],
     ["register", _reg(4, "test", "named", "flatmap_case", "again_post", [["apply_to", {"method": "post"}]])],
     ["generate", 0], ["generate", 1], ["generate", 3], ["unregister", 0], ["generate", 1], ["unregister", 4], ["generate", 1]],
    # before_generate_case x2 and map_case x2 on the test dispatcher, map_query x3 on the schema dispatcher
    [["register", _reg(0, "test", "named", "before_generate_case", "bg_a", [["skip_for", {"method": "GET"}]])],
     ["register", _reg(1, "test", "function", "before_generate_case", "before_generate_case", [])],
     ["register", _reg(2, "test", "named_inner", "map_case", "m_a", [["apply_to", {"operation_id": "getUser"}]])],
     ["register", _reg(3, "test", "apply", "map_case", "m_b", [])],
     ["register", _reg(4, "schema", "function", "map_query", "map_query", [["apply_to", {"tag": "users"}]])],
     ["register", _reg(5, "schema_hook", "named", "map_query", "q_b", [])],
     ["register", _reg(6, "schema", "named_inner", "map_query", "q_c", [["apply_to", {"path": "/items"}]])],
     ["generate", 2], ["generate", 4], ["generate", 5], ["unregister", 3], ["unregister", 5], ["generate", 2], ["generate", 5]],
    # the last hook of the name selects everything, the earlier ones are filtered: (multiplicity, not selection, is what goes wrong)
    [["register", _reg(0, "global", "function", "flatmap_case", "flatmap_case", [["apply_to", {"method": "GET"}]])],
     ["register", _reg(1, "global", "named", "flatmap_case", "fm_b", [["apply_to", {"path": "/users"}]])],
     ["register", _reg(2, "global", "named", "flatmap_case", "fm_c", [])],
     ["generate", 0], ["generate", 1], ["generate", 5]],
]


def gen_filters(rng, taken):
    """0-2 filter calls, different from the chains already used in the group"""
    for _ in range(8):
        filters = []
        if rng.random() < 0.75:
            for c in rng.sample(B.ORACLE_CRIT, rng.choice([1, 1, 1, 2])):
                filters.append([rng.choice(["apply_to", "apply_to", "skip_for"]), c])
        if filters not in taken:
            return filters
    return filters


def gen_same(rng):
    """-> events.  1-2 groups of 2-4 registrations under one hook name on one dispatcher + 0-2 unrelated registrations."""
    groups = []
    for _ in range(rng.choice([1, 1, 2])):
        hook = rng.choice(CASE_HOOKS) if rng.random() < 0.75 else rng.choice(PARAM_HOOKS)
        disp = rng.choice(["global", "schema", "test"])
        groups.append((hook, disp, rng.choice([2, 2, 3, 3, 4])))
    regs, rid = [], 0
    for hook, disp, n in groups:
        taken = []
        for _ in range(n):
            scope = rng.choice(["schema", "schema_hook"]) if disp == "schema" else disp
            forms = ["function", "named", "named", "named_inner", "named_split"] + (["apply"] if disp == "test" else [])
            form = rng.choice(forms)
            filters = [] if form == "apply" else gen_filters(rng, taken)
            taken.append(filters)
            if form == "function":
                fn_name = hook
            else:
                k = rng.random()
                fn_name = f"custom_hook_{rid}" if k < 0.6 else (rng.choice(CASE_HOOKS + PARAM_HOOKS) if k < 0.8 else hook)
            regs.append(_reg(rid, scope, form, hook, fn_name, filters))
            rid += 1
    for r in B.gen_registrations(rng, rng.choice([0, 0, 1, 2])):
        regs.append({**r, "id": rid})
        rid += 1
    rng.shuffle(regs)  # the groups interleave; registration order inside a group = order of the events
    for i, r in enumerate(regs):
        r["id"] = i
    used = rng.sample(range(len(B.UNIVERSE)), rng.choice([2, 2, 3]))
    events, pending, live = [], list(regs), []
    while pending:
        k = rng.random()
        if k < 0.7 or not live:
            r = pending.pop(0)
            events.append(["register", r])
            live.append(r["id"])
        elif k < 0.82:
            events.append(["unregister", live.pop(rng.randrange(len(live)))])
        else:
            events.append(["generate", rng.choice(used)])
    for i in used:
        events.append(["generate", i])
    for _ in range(rng.choice([0, 1, 1, 2])):
        if live:
            events.append(["unregister", live.pop(rng.randrange(len(live)))])
            events.append(["generate", rng.choice(used)])
    return events


# ---------- execution: per generated case, the registrations whose function ran, in order ----------
def make_counting_fn(kind, rid, trace):
    from hypothesis import strategies as st

    def record(ctx):
        trace.append((rid, ctx.operation.label))

    if kind == "map":
        def fn(ctx, value):
            record(ctx)
            return value
    elif kind == "filter":
        def fn(ctx, value):
            record(ctx)
            return True
    elif kind == "flatmap":
        def fn(ctx, value):
            record(ctx)
            return st.just(value)
    else:
        def fn(ctx, strategy):
            return strategy.map(lambda v: (record(ctx), v)[1])
    return fn


def draw_traced(operation, test_disp, examples, seed, trace):
    """Build the strategy ONCE, draw `examples` cases -> the part of the trace each completed draw produced."""
    import hypothesis
    from hypothesis import strategies as st

    strategy = operation.as_strategy(hooks=test_disp)
    cases = []

    @hypothesis.seed(seed)
    @hypothesis.settings(max_examples=examples, database=None, deadline=None, derandomize=False, phases=[hypothesis.Phase.generate],
                         suppress_health_check=list(hypothesis.HealthCheck))
    @hypothesis.given(data=st.data())
    def run_one(data):
        start = len(trace)
        data.draw(strategy)  # a rejected draw leaves through an exception: its partial trace is not a generated case
        cases.append(trace[start:])

    run_one()
    return cases


def same_run(events, seed=0, examples=3):
    """-> for every generate event [op index, [per generated case: [registration ids in the order their hooks ran]], stray]"""
    env = B.Env()
    funcs, trace, out = {}, [], []
    try:
        for ev in events:
            if ev[0] == "register":
                r = ev[1]
                kind = next(k for k in B.ORACLE_KINDS if r["hook"].startswith(k + "_"))
                fn = make_counting_fn(kind, r["id"], trace)
                fn.__name__ = fn.__qualname__ = r.get("fn_name", r["hook"])
                funcs[r["id"]] = (fn, r)
                B.oracle_register(env, r, fn)
            elif ev[0] == "unregister":
                fn, r = funcs[ev[1]]
                env.disps[B.SCOPE_DISP[r["scope"]]].unregister(fn)
            else:
                del trace[:]
                label = B.FACTS[ev[1]]["label"]
                cases = draw_traced(env.operations[ev[1]], env.disps[2], examples, seed, trace)
                stray = sorted({rid for c in cases for rid, lb in c if lb != label})
                out.append([ev[1], [[rid for rid, _ in c] for c in cases], stray])
    finally:
        env.H.GLOBAL_HOOK_DISPATCHER.unregister_all()
        env.disps[1].unregister_all()
        env.close()
    return out


def live_at_generations(events):
    live, out = {}, []
    for ev in events:
        if ev[0] == "register":
            live[ev[1]["id"]] = ev[1]
        elif ev[0] == "unregister":
            live.pop(ev[1], None)
        else:
            out.append(dict(live))
    return out


def describe(r):
    return f"#{r['id']} ({r['hook']}, {r['form']} form on {r['scope']}, function {r['fn_name']}, own filters {r['filters'] or 'none'})"


def same_oracle(events, real):
    """The property read directly -> list of messages (one per deviating (generation, hook name, dispatcher))."""
    bad = []
    for j, (live, (oi, cases, stray)) in enumerate(zip(live_at_generations(events), real)):
        f = B.FACTS[oi]
        if stray:
            bad.append(f"generation #{j} for {f['label']}: hooks of registrations {stray} ran with the context of ANOTHER operation")
        groups = {}
        for r in live.values():
            groups.setdefault((r["hook"], B.SCOPE_DISP[r["scope"]]), []).append(r)
        for (hook, di), regs in sorted(groups.items()):
            ids = {r["id"] for r in regs}
            want = [r["id"] for r in regs if B.expected_selected(r, f) and (B.hook_target(hook) != "body" or B.has_body(f))]
            for ci, ran in enumerate(cases):
                got = [rid for rid in ran if rid in ids]
                if got == want:
                    continue
                wrongly = sorted({rid for rid in got if rid not in want})
                missing = [rid for rid in want if rid not in got]
                repeated = sorted({rid for rid in got if got.count(rid) > 1})
                parts = []
                if wrongly:
                    parts.append("ran although its own filters exclude the operation: " + "; ".join(describe(live[x]) for x in wrongly))
                if missing:
                    parts.append("did not run although its own filters select the operation: " + "; ".join(describe(live[x]) for x in missing))
                if repeated:
                    parts.append(f"ran more than once for one case: {repeated}")
                if not parts:
                    parts.append("not in registration order")
                bad.append(
                    f"generation #{j} for {f['label']}, generated case {ci}: under the name {hook} on the {B.DISP_NAMES[di]} dispatcher "
                    f"({len(regs)} registrations {sorted(ids)}) the hooks of registrations {got} ran (in this order); the ones in force whose "
                    f"own filters select the operation are {want} (registration order, each once); " + "; ".join(parts))
                break
        gone = sorted({rid for c in cases for rid in c if rid not in live})
        if gone:
            bad.append(f"generation #{j} for {f['label']}: hooks of registrations {gone} ran although they are not registered at that moment")
    return bad


def c_same_observe(events):
    return "(same_name_observe [Global; Schema; Test] %s (Some 2%%nat) %s)" % (clist([cnat(c) for c in B.CLOSURES], "nat"), B.c_event_list(events))


def model_rows(events, trace):
    """parsed gen_trace -> per generation, per target of Model_C19.all_targets, the registration ids in order
    (body hooks only for operations with a body, as in the code path)"""
    gens = [ev[1] for ev in events if ev[0] == "generate"]
    out = []
    for oi, per_target in zip(gens, B.unsym(trace)):
        row = []
        for ti, applied in enumerate(per_target):
            row.append([] if ti == 4 and not B.has_body(B.FACTS[oi]) else [fid for _, fid in applied])
        out.append(row)
    return out


def real_rows(events, real):
    """the same shape from the real traces: per generation, per generated case, per target the registration ids in run order"""
    target = {ev[1]["id"]: B.hook_target(ev[1]["hook"]) for ev in events if ev[0] == "register"}
    return [[[[rid for rid in ran if target.get(rid) == tg] for tg in B.ORACLE_TARGETS_COQ] for ran in cases] for _, cases, _ in real]


def max_group(events):
    groups = {}
    for ev in events:
        if ev[0] == "register":
            k = (ev[1]["hook"], B.SCOPE_DISP[ev[1]["scope"]])
            groups[k] = groups.get(k, 0) + 1
    return max(groups.values(), default=0)


def stage(chk: core.Check, boost=1):
    quick = chk.tier == "quick"
    rng = chk.rng
    base = 60 if quick else 600
    runs = []
    found_before = len(chk.failures)
    for i in range(len(SAME_FIXED) + base * boost):
        if i >= len(SAME_FIXED) + base and len(chk.failures) > found_before:
            break  # the tenfold budget is for finding a concrete failing input; there is one
        events = SAME_FIXED[i] if i < len(SAME_FIXED) else gen_same(rng)
        try:
            real = same_run(events, seed=rng.randrange(1 << 30))
        except Exception as exc:  # noqa: BLE001
            chk.fail(f"data generation with several hooks under one name crashed: {type(exc).__name__}: {exc}"[:300], {"same_name_events": events})
            continue
        runs.append((events, real))
        bad = same_oracle(events, real)
        if bad:
            chk.fail(bad[0], {"same_name_events": events}, detail={"further_mismatches_in_this_history": len(bad) - 1})
    model = core.coq_eval(B.IMPORTS, [c_same_observe(ev) for ev, _ in runs], shard=30)
    wrong = disagree = n_gen = n_cases = distinguishing = like_sentinel = 0
    first_like = None
    for (events, real), mv in zip(runs, model):
        plain, late = model_rows(events, mv[0]), model_rows(events, mv[1])
        rows = real_rows(events, real)
        n_gen += len(real)
        n_cases += sum(len(c) for _, c, _ in real)
        mg = max_group(events)
        chk.seen({"same_name_events": events}, mg >= 2)
        chk.count(f"same_name:hooks_under_one_name_on_one_dispatcher:{min(mg, 4)}")
        chk.count("same_name:unregister_events", sum(1 for e in events if e[0] == "unregister"))
        for ev in events:
            if ev[0] == "register":
                chk.count(f"same_name:{ev[1]['hook'] if ev[1]['hook'].endswith('_case') else 'parameter hook'}:{ev[1]['form']}:{ev[1]['scope']}")
        if same_oracle(events, real):
            wrong += 1
        mismatch = next(((j, ci) for j, (per_case, m) in enumerate(zip(rows, plain)) for ci, r in enumerate(per_case) if r != m), None)
        if mismatch is not None or len(rows) != len(plain) or any(not c for c in rows):
            disagree += 1
            j, ci = mismatch if mismatch is not None else (None, None)
            chk.disagree("several hooks under one name: hook functions run per generated case (per target, in order) vs Model_C19.gen_trace",
                         {"same_name_events": events, "generation": j, "case": ci},
                         rows[j][ci] if j is not None else "no generated case", plain[j] if j is not None else None)
        if late != plain:
            distinguishing += 1
            if rows and all(r == m for per_case, m in zip(rows, late) for r in per_case):
                like_sentinel += 1
                first_like = first_like or events
    chk.stages["same_name_case_hooks"] = {
        "histories": len(runs), "fixed": len(SAME_FIXED), "generate_events": n_gen, "generated_cases": n_cases, "oracle_wrong_histories": wrong,
        "model_disagrees": disagree, "histories_where_the_late_binding_sentinel_differs": distinguishing,
        "of_those_the_code_behaves_like_the_sentinel": like_sentinel,
    }
    if distinguishing and like_sentinel == distinguishing:
        chk.fail("on every history with several hooks under one name the code behaves like the sentinel Model_C19.gen_trace_late: all "
                 "callbacks built for one hook name call the LAST hook of that name (C19_late_binding_refuted)", {"same_name_events": first_like})


def replay_one(events):
    real = same_run(events)
    bad = same_oracle(events, real)
    for j, ev in enumerate(events):
        print(f"  event {j}: {ev}")
    live = live_at_generations(events)
    for j, (oi, cases, stray) in enumerate(real):
        print(f"  generation #{j} {B.FACTS[oi]['label']}: registered {sorted(live[j])}; per generated case the hooks of registrations {cases} ran")
    for m in bad:
        print("  [VIOLATION]", m)
    print("->", "FAILS" if bad else "passes")
