"""C19 - extensions (hooks, auth providers) apply exactly where their own filters say.

Stages: proofs (Properties_C19.v) -> correspondence of registration histories executed on real HookDispatcher
objects (global / schema / test, every closure produced by to_filterable_hook) and real AuthStorage objects with the
Coq state machines of Model_C19.v (step / astep evaluated by vm_compute) -> the pre-fix models `register_prefix` and
`as_strategy_case_hooks_prefix` must DISAGREE with the code (regression sentinels for the fixed findings F1, F2) -> oracle search with real data generation (operation.as_strategy with
hooks on three scopes; an independent reading of the filters written here) -> replay of listed findings.
"""
from __future__ import annotations

import json
import re
from types import SimpleNamespace

from harness import core
from harness.core import cN, cbool, clist, cnat, copt, cstr, ctuple, pstr

LEVEL = "proof"
IMPORTS = ["Common.Str", "C19.Model_C19"]

# ----------------------------------------------------------------------------------------
# the small API every history is evaluated against
# ----------------------------------------------------------------------------------------
def _params(path):
    ps = [
        {"name": "q", "in": "query", "required": True, "schema": {"type": "string", "maxLength": 3}},
        {"name": "X-A", "in": "header", "required": True, "schema": {"type": "string", "pattern": "^[a-z]{1,3}$"}},
        {"name": "c", "in": "cookie", "required": True, "schema": {"type": "string", "pattern": "^[a-z]{1,3}$"}},
    ]
    if "{id}" in path:
        ps.append({"name": "id", "in": "path", "required": True, "schema": {"type": "integer", "minimum": 1, "maximum": 9}})
    return ps


def _op(path, tags=None, opid=None, body=False):
    d = {"parameters": _params(path), "responses": {"200": {"description": "ok"}}}
    if tags is not None:
        d["tags"] = tags
    if opid is not None:
        d["operationId"] = opid
    if body:
        d["requestBody"] = {
            "required": True,
            "content": {"application/json": {"schema": {"type": "object", "properties": {"a": {"type": "integer"}}, "required": ["a"], "additionalProperties": False}}},
        }
    return d


RAW = {
    "openapi": "3.0.2",
    "info": {"title": "t", "version": "1"},
    "paths": {
        "/users": {
            "get": _op("/users", ["users"], "listUsers"),
            "post": _op("/users", ["users", "admin"], "createUser", body=True),
        },
        "/users/{id}": {
            "get": _op("/users/{id}", None, "getUser"),
            "delete": _op("/users/{id}", ["admin"], None),
            "put": _op("/users/{id}", ["users"], "updateUser", body=True),
        },
        "/items": {"patch": _op("/items", [], None, body=True)},
    },
}
UNIVERSE = [("/users", "get"), ("/users", "post"), ("/users/{id}", "get"), ("/users/{id}", "delete"), ("/users/{id}", "put"), ("/items", "patch")]


def raw_facts(i):
    """What the filters may look at, read from the raw document (not through get_operation_attribute)."""
    path, method = UNIVERSE[i]
    d = RAW["paths"][path][method]
    return {"idx": i, "label": f"{method.upper()} {path}", "method": method, "path": path, "tags": d.get("tags"), "opid": d.get("operationId")}


FACTS = [raw_facts(i) for i in range(len(UNIVERSE))]

ATTRS = ["name", "method", "path", "tag", "operation_id"]  # keyword order of _add_filter's loop
ATTR_COQ = {"name": "ALabel", "method": "AMethod", "path": "APath", "tag": "ATag", "operation_id": "AOpId"}
ATTR_LABEL = {"name": "label", "method": "method", "path": "path", "tag": "tag", "operation_id": "operation_id"}
COQ_ATTR_LABEL = {"ALabel": "label", "AMethod": "method", "APath": "path", "ATag": "tag", "AOpId": "operation_id"}
FACT_KEY = {"name": "label", "method": "method", "path": "path", "tag": "tags", "operation_id": "opid"}

VALUES = {
    "name": ["GET /users", "POST /users", ["GET /users", "DELETE /users/{id}"], "nope", ["PATCH /items"]],
    "method": ["get", "GET", "Post", ["get", "put"], ["DELETE"], "patch", []],
    "path": ["/users", "/users/{id}", ["/items", "/users"], "/none"],
    "tag": ["users", "admin", ["admin", "x"], "zzz"],
    "operation_id": ["getUser", ["listUsers", "createUser"], "none", "updateUser"],
}
REGEXES = [
    ("name", "users$"), ("name", "^P"), ("method", "^p"), ("method", "E"), ("path", "id"), ("path", "^/i"),
    ("tag", "^a"), ("tag", "s$"), ("operation_id", "User$"), ("operation_id", "^get"),
]
REGEX_BASE = 100


def f_is_get(ctx):
    return ctx.operation.method.upper() == "GET"


def f_has_path_param(ctx):
    return "{" in ctx.operation.path


def f_never(ctx):
    return False


def f_tagged(ctx):
    return bool(ctx.operation.definition.raw.get("tags"))


FUNCS = [f_is_get, f_has_path_param, f_never, f_tagged]
FUNC_TABLE = [
    [i for i, f in enumerate(FACTS) if f["method"] == "get"],
    [i for i, f in enumerate(FACTS) if "{" in f["path"]],
    [],
    [i for i, f in enumerate(FACTS) if f["tags"]],
]


def regex_flags(attr):
    return re.IGNORECASE if attr == "method" else 0


def regex_table(j):
    attr, pat = REGEXES[j]
    rx = re.compile(pat, regex_flags(attr))
    out = []
    for f in FACTS:
        v = f[FACT_KEY[attr]]
        if attr == "method":
            v = v.upper()
        if v is None:
            continue
        if isinstance(v, list):
            if any(rx.search(e) for e in v):
                out.append(f["idx"])
        elif rx.search(v):
            out.append(f["idx"])
    return out


REGEX_TABLE = [regex_table(j) for j in range(len(REGEXES))]


def opaque_label(qid):
    if qid >= REGEX_BASE:
        attr, pat = REGEXES[qid - REGEX_BASE]
        return f"{ATTR_LABEL[attr]}_regex={re.compile(pat, regex_flags(attr))!r}"
    return FUNCS[qid].__name__


# ---------- filter calls ----------
def gen_call(rng):
    """One apply_to(...)/skip_for(...) call: {"func": i|None, "crit": {attr: [expected|None, regex index|None]}}."""
    call = {"func": None, "crit": {}}
    k = rng.random()
    if k < 0.04:
        return call  # empty: IncorrectUsage
    if rng.random() < 0.2:
        call["func"] = rng.randrange(len(FUNCS))
    n = rng.choice([0, 1, 1, 1, 2, 2, 3]) if call["func"] is not None else rng.choice([1, 1, 1, 2, 2, 3])
    for attr in rng.sample(ATTRS, n):
        e = r = None
        kind = rng.random()
        cands = [j for j, (a, _) in enumerate(REGEXES) if a == attr]
        if kind < 0.7:
            e = rng.choice(VALUES[attr])
        elif kind < 0.95:
            r = rng.choice(cands)
        else:
            e, r = rng.choice(VALUES[attr]), rng.choice(cands)  # both: IncorrectUsage
        call["crit"][attr] = [e, r]
    return call


def call_kwargs(call):
    kw = {}
    if call["func"] is not None:
        kw["func"] = FUNCS[call["func"]]
    for attr, (e, r) in call["crit"].items():
        if e is not None:
            kw[attr] = list(e) if isinstance(e, list) else e
        if r is not None:
            kw[attr + "_regex"] = REGEXES[r][1]
    return kw


def c_opaque(qid, table):
    return "{| q_id := %s; q_table := %s |}" % (cN(qid), clist([cN(i) for i in table], "N"))


def c_expected(e):
    if isinstance(e, list):
        return "(EMany %s)" % clist([cstr(x) for x in e], "str")
    return "(EOne %s)" % cstr(e)


def c_call(call, func_table=None, regex_table=None):
    """func_table / regex_table: truth tables of the opaque matchers over the universe in use (default: the 6 operations of RAW)"""
    func_table = FUNC_TABLE if func_table is None else func_table
    regex_table = REGEX_TABLE if regex_table is None else regex_table
    fn = None if call["func"] is None else c_opaque(call["func"], func_table[call["func"]])
    crit = []
    for attr in ATTRS:
        e, r = call["crit"].get(attr, [None, None])
        crit.append(
            ctuple(
                ATTR_COQ[attr],
                copt(None if e is None else c_expected(e), "expected"),
                copt(None if r is None else c_opaque(REGEX_BASE + r, regex_table[r]), "opaque"),
            )
        )
    return "{| c_func := %s; c_crit := %s |}" % (copt(fn, "opaque"), clist(crit))


def c_oper(f):
    return "{| o_idx := %s; o_label := %s; o_method := %s; o_path := %s; o_tags := %s; o_opid := %s |}" % (
        cN(f["idx"]),
        cstr(f["label"]),
        cstr(f["method"]),
        cstr(f["path"]),
        copt(None if f["tags"] is None else clist([cstr(t) for t in f["tags"]], "str"), "(list str)"),
        copt(None if f["opid"] is None else cstr(f["opid"]), "str"),
    )


C_UNIVERSE = None


def c_universe():
    global C_UNIVERSE
    if C_UNIVERSE is None:
        C_UNIVERSE = clist([c_oper(f) for f in FACTS], "oper")
    return C_UNIVERSE


# ---------- canonical form of a filter set ----------
def canon_real_fs(fs):
    if fs is None:
        return None
    return [sorted([m.label for m in f.matchers] for f in fs._includes), sorted([m.label for m in f.matchers] for f in fs._excludes)]


def matcher_label(m):
    if m[0] == "MOpaque":
        return opaque_label(m[1]["q_id"])
    _, a, e = m
    val = [pstr(x) for x in e[1]] if e[0] == "EMany" else pstr(e[1])
    return f"{COQ_ATTR_LABEL[a]}={val!r}"


def canon_model_fs(v):
    """parsed `option fset`"""
    if v is None:
        return None
    fs = v[1] if isinstance(v, tuple) and v[0] == "Some" else v
    return [sorted([matcher_label(m) for m in f] for f in fs["incl"]), sorted([matcher_label(m) for m in f] for f in fs["excl"])]


# ----------------------------------------------------------------------------------------
# hook names and functions
# ----------------------------------------------------------------------------------------
KINDS = {"before_generate": "KBeforeGenerate", "filter": "KFilter", "map": "KMap", "flatmap": "KFlatmap"}
TARGETS = {"path_parameters": "TPath", "query": "TQuery", "headers": "THeaders", "cookies": "TCookies", "body": "TBody", "case": "TCase"}
SPECIAL = {
    "before_process_path": "NBeforeProcessPath", "before_load_schema": "NBeforeLoadSchema", "after_load_schema": "NAfterLoadSchema",
    "before_add_examples": "NBeforeAddExamples", "before_init_operation": "NBeforeInitOperation", "before_call": "NBeforeCall",
    "after_call": "NAfterCall",
}
UNKNOWN = ["not_a_hook", "map_", "before_generate", "MAP_BODY"]
KIND_BACK = {v: k for k, v in KINDS.items()}
TARGET_BACK = {v: k for k, v in TARGETS.items()}
SPECIAL_BACK = {v: k for k, v in SPECIAL.items()}
PARAM_TARGETS = ["path_parameters", "query", "headers", "cookies", "body"]
DISPATCH_NAMES = [("before_add_examples", 1), ("before_init_operation", 1), ("before_process_path", 2)]


def c_hname(name):
    if name in SPECIAL:
        return SPECIAL[name]
    for k, kc in KINDS.items():
        if name.startswith(k + "_") and name[len(k) + 1 :] in TARGETS:
            return f"(NGen {kc} {TARGETS[name[len(k) + 1:]]})"
    if name in UNKNOWN:
        return f"(NUnknown {cN(UNKNOWN.index(name))})"
    return f"(NUnknown {cN(1000 + sum(ord(ch) * (i + 1) for i, ch in enumerate(name)) % 100000)})"  # any other function name: no hook name


def p_hname(v):
    if isinstance(v, tuple) and v[0] == "NGen":
        return f"{KIND_BACK[v[1]]}_{TARGET_BACK[v[2]]}"
    if isinstance(v, tuple) and v[0] == "NUnknown":
        return UNKNOWN[v[1]]
    return SPECIAL_BACK[v]


# the function objects of one history: id = index; (function __name__, number of parameters)
FN_SPECS = [
    ("map_body", 2), ("map_body", 2), ("filter_query", 2), ("flatmap_headers", 2), ("before_generate_query", 2),
    ("before_generate_body", 2), ("map_case", 2), ("filter_case", 2), ("before_process_path", 3), ("before_load_schema", 2),
    ("after_load_schema", 2), ("before_add_examples", 2), ("before_init_operation", 2), ("before_call", 3), ("not_a_hook", 2),
    ("map_query", 3), ("map_cookies", 2), ("before_generate_path_parameters", 2), ("flatmap_body", 2), ("filter_headers", 2),
    ("before_add_examples", 2), ("map_query", 2), ("before_generate_case", 2), ("flatmap_case", 2),
]
NAMED_POOL = (
    [f"{k}_{t}" for k in KINDS for t in TARGETS] + list(SPECIAL) + ["before_process_path", "before_add_examples", "map_query", "map_body"] + UNKNOWN[:2]
)


def c_fn(fid):
    name, arity = FN_SPECS[fid]
    return "{| h_id := %s; h_name := %s; h_arity := %s |}" % (cN(fid), c_hname(name), cnat(arity))


def make_fn(fid, log):
    name, arity = FN_SPECS[fid]
    params = ", ".join(f"a{i}" for i in range(arity))
    ns = {"log": log, "fid": fid}
    ns["ran"] = RAN
    exec(f"def {name}({params}):\n    ran.append(fid)\n    log.append(('call', fid))\n    return a1\n", ns)
    fn = ns[name]
    fn.fid = fid
    return fn


RAN = []  # every instrumented hook function of the harness notes its id here whenever its body runs
PROBE = object()  # the value handed to a recorded callback when it is called


class _Pending:
    """A callback handed to .filter / .map / .flatmap, not called yet."""

    def __init__(self, kind, callback):
        self.kind, self.callback = kind, callback


class FakeStrategy:
    """Stands in for a Hypothesis strategy (apply_to_container / _apply_hooks never draw).  Like Hypothesis it only KEEPS the
    callbacks it is given; `resolve_log` calls them afterwards - when the loops that built them are over - and reports which
    instrumented hook function actually ran.  Nothing about the representation of a callback (functools.partial, lambda,
    closure, bound method) is looked at."""

    def __init__(self, log):
        self.log = log

    def filter(self, f):
        self.log.append(_Pending("filter", f))
        return self

    def map(self, f):
        self.log.append(_Pending("map", f))
        return self

    def flatmap(self, f):
        self.log.append(_Pending("flatmap", f))
        return self


def resolve_log(log):
    """-> [(kind, function id)]: eager calls (before_generate hooks note ("call", id) themselves) stay where they are; every kept
    callback is called once with PROBE, each hook function that runs gives one entry (none: (kind, None))."""
    out = []
    for entry in list(log):
        if not isinstance(entry, _Pending):
            out.append(tuple(entry))
            continue
        del RAN[:]
        try:
            entry.callback(PROBE)
            ran = list(RAN)
        except Exception as exc:  # noqa: BLE001
            ran = [f"raises:{type(exc).__name__}"]
        out += [(entry.kind, fid) for fid in ran] or [(entry.kind, None)]
    del RAN[:]
    return out


def canon_log(log):
    return [["before_generate" if k == "call" else k, fid] for k, fid in resolve_log(log)]


def canon_model_applied(v):
    return [[KIND_BACK[k], fid] for k, fid in v]


OUTCOMES = {"Done", "RejectedFilter", "ValueError", "TypeError", "IncorrectUsage", "BadIndex"}


def outcome_of(thunk):
    from schemathesis.core.errors import IncorrectUsage

    try:
        return "Done", thunk()
    except IncorrectUsage:
        return "IncorrectUsage", None
    except ValueError as exc:
        return ("RejectedFilter" if str(exc).startswith("Filters are not applicable") else "ValueError"), None
    except TypeError:
        return "TypeError", None
    except Exception as exc:  # noqa: BLE001
        return f"Other:{type(exc).__name__}", None


# ----------------------------------------------------------------------------------------
# one environment = real dispatchers on three scopes + the four closures
# ----------------------------------------------------------------------------------------
SCOPES = ["Global", "Schema", "Test"]
CLOSURES = [0, 1, 1, 2]  # GLOBAL.register, schema.hooks.register, schema.hook, test_dispatcher.register


class Env:
    def __init__(self):
        import schemathesis
        from schemathesis import hooks as H

        self.H = H
        self.log = []
        self.flush_global()
        self.schema = schemathesis.openapi.from_dict(RAW)

        def test(case):
            pass

        self.test = test
        self.disps = [H.GLOBAL_HOOK_DISPATCHER, self.schema.hooks, H.HookDispatcher.add_dispatcher(test)]
        self.regs = [H.GLOBAL_HOOK_DISPATCHER.register, self.schema.hooks.register, self.schema.hook, self.disps[2].register]
        self.decs = []
        self.fns = [make_fn(i, self.log) for i in range(len(FN_SPECS))]
        self.operations = [self.schema[p][m.upper()] for p, m in UNIVERSE]
        self.schema_t = self.schema.clone(test_function=test)

    def flush_global(self):
        """The global closure lives as long as the process: consume whatever an earlier history left pending."""
        H = self.H
        dummy = make_fn(0, [])
        try:
            H.GLOBAL_HOOK_DISPATCHER.register(dummy)
        finally:
            H.GLOBAL_HOOK_DISPATCHER.unregister_all()

    def close(self):
        self.flush_global()

    # ---- execute one low-level operation, return its outcome
    def execute(self, op):
        k = op[0]
        if k == "filter":
            _, r, inc, call = op
            out, res = outcome_of(lambda: getattr(self.regs[r], "apply_to" if inc else "skip_for")(**call_kwargs(call)))
            if out == "Done" and res is not self.regs[r]:
                return "Other:chain-does-not-return-register"
            return out
        if k == "regfn":
            _, r, f = op
            return outcome_of(lambda: self.regs[r](self.fns[f]))[0]
        if k == "regname":
            _, r, name = op
            out, dec = outcome_of(lambda: self.regs[r](name))
            if out == "Done":
                self.decs.append(dec)
            return out
        if k == "decfilter":
            _, d, inc, call = op
            out, res = outcome_of(lambda: getattr(self.decs[d], "apply_to" if inc else "skip_for")(**call_kwargs(call)))
            if out == "Done" and res is not self.decs[d]:
                return "Other:chain-does-not-return-decorator"
            return out
        if k == "decapply":
            _, d, f = op
            return outcome_of(lambda: self.decs[d](self.fns[f]))[0]
        if k == "direct":
            _, di, f, name = op
            if di == 2:
                return outcome_of(lambda: self.schema.hooks.apply(self.fns[f], name=name)(self.test))[0]
            return outcome_of(lambda: self.disps[di].register_hook_with_name(self.fns[f], name))[0]
        if k == "unregister":
            _, di, f = op
            return outcome_of(lambda: self.disps[di].unregister(self.fns[f]))[0]
        if k == "unregister_all":
            return outcome_of(lambda: self.disps[op[1]].unregister_all())[0]
        raise AssertionError(op)

    # ---- everything the model is compared on
    def observe(self, with_test: bool):
        H = self.H
        hooks = [[[name, [fn.fid for fn in fs]] for name, fs in d._hooks.items()] for d in self.disps]
        fsets = [canon_real_fs(getattr(fn, "filter_set", None)) for fn in self.fns]
        ctxs = [None] + self.operations
        per_disp, all_disp, dispatched = [], [], []
        tdisp = self.disps[2] if with_test else None
        for o in ctxs:
            ctx = H.HookContext(o)
            row = []
            for d in self.disps:
                cells = []
                for tg in PARAM_TARGETS:
                    del self.log[:]
                    d.apply_to_container(FakeStrategy(self.log), tg, ctx)
                    cells.append(canon_log(self.log))
                row.append(cells)
            per_disp.append(row)
            cells = []
            for tg in PARAM_TARGETS:
                del self.log[:]
                H.apply_to_all_dispatchers(o or self.operations[0], ctx, tdisp, FakeStrategy(self.log), tg)
                cells.append(canon_log(self.log))
            all_disp.append(cells)
            cells = []
            for name, extra in DISPATCH_NAMES:
                del self.log[:]
                (self.schema_t if with_test else self.schema).dispatch_hook(name, ctx, *([None] * extra))
                cells.append([fid for _, fid in self.log])
            dispatched.append(cells)
        # case-level hooks: APIOperation.as_strategy with the case strategy replaced by a recorder
        case_level = []
        for o in self.operations:
            del self.log[:]
            log = self.log
            o.schema.get_case_strategy = lambda *a, **k: FakeStrategy(log)  # instance attribute of OUR schema object
            try:
                o.as_strategy(hooks=tdisp)
            finally:
                del o.schema.get_case_strategy
            case_level.append(canon_log(self.log))
        return {"hooks": hooks, "filter_sets": fsets, "per_dispatcher": per_disp, "all_dispatchers": all_disp, "dispatched": dispatched, "case_level": case_level}


def c_op(op):
    k = op[0]
    if k == "filter":
        return f"(OFilter {cnat(op[1])} {cbool(op[2])} {c_call(op[3])})"
    if k == "regfn":
        return f"(ORegFn {cnat(op[1])} {c_fn(op[2])})"
    if k == "regname":
        return f"(ORegName {cnat(op[1])} {c_hname(op[2])})"
    if k == "decfilter":
        return f"(ODecFilter {cnat(op[1])} {cbool(op[2])} {c_call(op[3])})"
    if k == "decapply":
        return f"(ODecApply {cnat(op[1])} {c_fn(op[2])})"
    if k == "direct":
        return f"(ODirect {cnat(op[1])} {c_fn(op[2])} {c_hname(op[3])})"
    if k == "unregister":
        return f"(OUnregister {cnat(op[1])} {cN(op[2])})"
    if k == "unregister_all":
        return f"(OUnregisterAll {cnat(op[1])})"
    raise AssertionError(op)


def c_observe(ops, with_test, fixed=True):
    return "(observe %s %s %s %s %s %s %s)" % (
        cbool(fixed),
        "[Global; Schema; Test]",
        clist([cnat(c) for c in CLOSURES], "nat"),
        clist([c_op(o) for o in ops], "op"),
        clist([cN(i) for i in range(len(FN_SPECS))], "N"),
        c_universe(),
        copt(cnat(2) if with_test else None, "nat"),
    )


def unsym(v):
    """core.parse_coq_value leaves nullary constructors in argument position as Sym objects: make them plain names."""
    if isinstance(v, core.Sym):
        return None if v.name == "None" else v.name
    if isinstance(v, list):
        return [unsym(x) for x in v]
    if isinstance(v, tuple):
        return tuple(unsym(x) for x in v)
    if isinstance(v, dict):
        return {k: unsym(x) for k, x in v.items()}
    return v


def canon_model_observation(v):
    outs, hooks, fsets, per_disp, all_disp, dispatched, case_level, own, case_prefix = unsym(v)
    return (
        list(outs),
        {
            "hooks": [[[p_hname(n), list(fs)] for n, fs in d] for d in hooks],
            "filter_sets": [canon_model_fs(x) for x in fsets],
            "per_dispatcher": [[[canon_model_applied(c) for c in cells] for cells in row] for row in per_disp],
            "all_dispatchers": [[canon_model_applied(c) for c in cells] for cells in all_disp],
            "dispatched": [[list(c) for c in cells] for cells in dispatched],
            "case_level": [canon_model_applied(c) for c in case_level],
            "own_chain": [canon_model_fs(x) for x in own],
            "case_level_prefix": canon_model_applied(case_prefix),
        },
    )


# ---------- history generator (online: the real outcome decides which decorators exist) ----------
def gen_history(rng, env, n_steps):
    ops, outs = [], []

    def do(op):
        ops.append(op)
        outs.append(env.execute(op))
        return outs[-1]

    registered = []
    for _ in range(n_steps):
        k = rng.random()
        r = rng.randrange(len(CLOSURES))
        if k < 0.55:  # a complete decorator expression
            for _ in range(rng.choice([0, 0, 1, 1, 2, 3])):
                do(["filter", r, rng.random() < 0.6, gen_call(rng)])
            # a quarter of the expressions register a function object of this history AGAIN (other closure / name / chain)
            f = rng.choice(registered) if registered and rng.random() < 0.25 else rng.randrange(len(FN_SPECS))
            if rng.random() < 0.5:
                do(["regfn", r, f])
            else:
                name = rng.choice(NAMED_POOL) if rng.random() < 0.6 else FN_SPECS[f][0]
                if do(["regname", r, name]) == "Done":
                    d = len(env.decs) - 1
                    for _ in range(rng.choice([0, 0, 0, 1, 2])):
                        do(["decfilter", d, rng.random() < 0.6, gen_call(rng)])
                    do(["decapply", d, f])
            registered.append(f)
        elif k < 0.61:
            do(["filter", r, rng.random() < 0.6, gen_call(rng)])
        elif k < 0.65:
            do(["regname", r, rng.choice(NAMED_POOL)])
        elif k < 0.71 and env.decs:
            do(["decfilter", rng.randrange(len(env.decs)), rng.random() < 0.6, gen_call(rng)])
        elif k < 0.79 and env.decs:
            f = rng.randrange(len(FN_SPECS))
            do(["decapply", rng.randrange(len(env.decs)), f])
            registered.append(f)
        elif k < 0.86:
            f = rng.randrange(len(FN_SPECS))
            do(["direct", rng.randrange(3), f, rng.choice(NAMED_POOL) if rng.random() < 0.5 else FN_SPECS[f][0]])
            registered.append(f)
        elif k < 0.97:
            f = rng.choice(registered) if registered and rng.random() < 0.8 else rng.randrange(len(FN_SPECS))
            do(["unregister", rng.randrange(3), f])
        else:
            do(["unregister_all", rng.randrange(3)])
    return ops, outs


def run_history_real(ops, with_test):
    env = Env()
    try:
        outs = [env.execute(op) for op in ops]
        return outs, env.observe(with_test)
    finally:
        env.close()


def first_diff(a, b, path=""):
    if type(a) != type(b):
        return f"{path}: {a!r} vs {b!r}"
    if isinstance(a, dict):
        for k in a:
            d = first_diff(a[k], b.get(k), f"{path}.{k}")
            if d:
                return d
        return None
    if isinstance(a, list):
        if len(a) != len(b):
            return f"{path}: length {len(a)} vs {len(b)}: {a!r} vs {b!r}"[:400]
        for i, (x, y) in enumerate(zip(a, b)):
            d = first_diff(x, y, f"{path}[{i}]")
            if d:
                return d
        return None
    return None if a == b else f"{path}: {a!r} vs {b!r}"


# ----------------------------------------------------------------------------------------
# auth providers
# ----------------------------------------------------------------------------------------
N_CLS = 5
N_TESTS = 3


def make_provider_cls(cid):
    class Provider:
        def get(self, case, context):
            return f"token-{cid}"

        def set(self, case, data, context):
            case.headers = {"Authorization": data}

    Provider.__name__ = f"Provider{cid}"
    Provider.cid = cid
    return Provider


class AuthEnv:
    def __init__(self):
        import schemathesis
        from schemathesis import auths as A

        self.A = A
        A.GLOBAL_AUTH_STORAGE.unregister()
        self.schema = schemathesis.openapi.from_dict(RAW)
        self.storages = [A.GLOBAL_AUTH_STORAGE, self.schema.auth]
        self.wrappers = []
        self.classes = [make_provider_cls(i) for i in range(N_CLS)]
        self.tests = []
        for i in range(N_TESTS):
            def test(case):
                pass

            test.__name__ = f"test_{i}"
            self.tests.append(test)
        self.test_storage_index = {}
        self.operations = [self.schema[p][m.upper()] for p, m in UNIVERSE]

    def close(self):
        self.A.GLOBAL_AUTH_STORAGE.unregister()

    def execute(self, op):
        import requests.auth

        k = op[0]
        if k == "register":
            refresh = op[2]
            out, w = outcome_of(lambda: self.storages[op[1]].register(refresh_interval=refresh))
            if out == "Done":
                self.wrappers.append(("register", w))
            return out
        if k == "apply":
            out, w = outcome_of(lambda: self.storages[1].apply(self.classes[op[1]], refresh_interval=op[2]))
            if out == "Done":
                self.wrappers.append(("apply", w))
            return out
        if k == "from_requests":
            auth = requests.auth.HTTPBasicAuth(f"user-{op[2]}", "p")
            auth.cid = op[2]
            out, w = outcome_of(lambda: self.storages[op[1]].set_from_requests(auth))
            if out == "Done":
                self.wrappers.append(("requests", w))
            return out
        if k == "filter":
            _, w, inc, call = op
            target = self.wrappers[w][1]
            out, res = outcome_of(lambda: getattr(target, "apply_to" if inc else "skip_for")(**call_kwargs(call)))
            if out == "Done" and res is not target:
                return "Other:chain-does-not-return-wrapper"
            return out
        if k == "call":
            _, w, arg = op
            kind, target = self.wrappers[w]
            if kind == "register":
                return outcome_of(lambda: target(self.classes[arg]))[0]
            if kind == "apply":
                return outcome_of(lambda: target(self.tests[arg]))[0]
            return outcome_of(lambda: target(arg))[0]
        if k == "unregister":
            return outcome_of(lambda: self.storages[op[1]].unregister())[0]
        raise AssertionError(op)

    def provider_facts(self, p):
        A = self.A
        fs = None
        if isinstance(p, A.SelectiveAuthProvider):
            fs = p.filter_set
            p = p.provider
        if isinstance(p, A.CachingAuthProvider):
            p = p.provider
        cid = p.auth.cid if isinstance(p, A.RequestsAuth) else type(p).cid
        return [cid, canon_real_fs(fs)]

    def observe(self):
        A = self.A
        # test storages in creation order: the harness knows it from the execution order
        ordered = list(self.storages) + [A.AuthStorageMark.get(self.tests[t]) for t in self.test_order]
        provs = [[self.provider_facts(p) for p in s.providers] for s in ordered]
        applied = []
        for o in self.operations:
            row = []
            for t in [None] + list(range(N_TESTS)):
                storage = None if t is None else A.AuthStorageMark.get(self.tests[t])
                case = o.Case()
                try:
                    A.set_on_case(case, A.AuthContext(operation=o, app=None), storage)
                except Exception as exc:  # noqa: BLE001
                    row.append("AuthRaises" if type(exc).__name__ == "IncorrectUsage" else f"Other:{type(exc).__name__}")
                    continue
                if getattr(case, "_auth", None) is not None:
                    row.append(["AuthBy", case._auth.cid])
                elif case.headers and "Authorization" in case.headers:
                    row.append(["AuthBy", int(case.headers["Authorization"].split("-")[1])])
                else:
                    row.append("AuthNone")
            applied.append(row)
        return {"providers": provs, "applied": applied}


def gen_auth_history(rng, env, n_steps):
    ops, outs = [], []
    env.test_order = []

    def do(op):
        ops.append(op)
        out = env.execute(op)
        outs.append(out)
        if op[0] == "call" and env.wrappers[op[1]][0] == "apply" and out == "Done":
            env.test_order.append(op[2])
        return out

    def refresh():
        return rng.choice([300, 300, None])

    for _ in range(n_steps):
        k = rng.random()
        if k < 0.6:  # complete expression
            form = rng.choice(["register", "register", "apply", "from_requests"])
            s = rng.randrange(2)
            cid = rng.randrange(N_CLS)
            if form == "register":
                do(["register", s, refresh()])
            elif form == "apply":
                do(["apply", cid, refresh()])
            else:
                do(["from_requests", s, cid])
            w = len(env.wrappers) - 1
            for _ in range(rng.choice([0, 0, 1, 1, 2, 3])):
                do(["filter", w, rng.random() < 0.6, gen_call(rng)])
            if form == "register":
                do(["call", w, cid])
            elif form == "apply":
                do(["call", w, rng.randrange(N_TESTS)])
        elif k < 0.7:
            do(["register", rng.randrange(2), refresh()])
        elif k < 0.8 and env.wrappers:
            do(["filter", rng.randrange(len(env.wrappers)), rng.random() < 0.6, gen_call(rng)])
        elif k < 0.9 and env.wrappers:
            w = rng.randrange(len(env.wrappers))
            if env.wrappers[w][0] != "requests":
                do(["call", w, rng.randrange(N_CLS if env.wrappers[w][0] == "register" else N_TESTS)])
        else:
            do(["unregister", rng.randrange(2)])
    return ops, outs


def c_aop(op):
    k = op[0]
    if k == "register":
        return f"(ARegister {cnat(op[1])})"
    if k == "apply":
        return f"(AApply {cN(op[1])})"
    if k == "from_requests":
        return f"(AFromRequests {cnat(op[1])} {cN(op[2])})"
    if k == "filter":
        return f"(AFilter {cnat(op[1])} {cbool(op[2])} {c_call(op[3])})"
    if k == "call":
        return f"(ACall {cnat(op[1])} {cN(op[2])})"
    if k == "unregister":
        return f"(AUnregister {cnat(op[1])})"
    raise AssertionError(op)


def c_aobserve(ops):
    tests = clist([copt(None, "N")] + [copt(cN(t)) for t in range(N_TESTS)], "(option N)")
    return f"(aobserve 2%nat {clist([c_aop(o) for o in ops], 'aop')} {c_universe()} {tests})"


def canon_model_aobservation(v):
    outs, provs, applied = unsym(v)
    return (
        list(outs),
        {
            "providers": [[[c, canon_model_fs(fs)] for c, fs in s] for s in provs],
            "applied": [[(list(x) if isinstance(x, tuple) else x) for x in row] for row in applied],
        },
    )


def run_auth_history_real(ops):
    env = AuthEnv()
    env.test_order = []
    try:
        outs = []
        for op in ops:
            out = env.execute(op)
            outs.append(out)
            if op[0] == "call" and env.wrappers[op[1]][0] == "apply" and out == "Done":
                env.test_order.append(op[2])
        return outs, env.observe()
    finally:
        env.close()


# ----------------------------------------------------------------------------------------
# oracle: real data generation, an independent reading of the filters
# ----------------------------------------------------------------------------------------
def expected_match(crit, fact) -> bool:
    """Does one apply_to/skip_for criterion dict (attr -> value | list) select the operation?  Written from the
    documentation of the filters, not from filters.py: every given criterion must hold."""
    for attr, want in crit.items():
        have = fact[FACT_KEY[attr]]
        wants = [w.upper() if attr == "method" else w for w in (want if isinstance(want, list) else [want])]
        if attr == "method":
            have = have.upper()
        if have is None:
            return False
        haves = have if isinstance(have, list) else [have]
        if not any(h in wants for h in haves):
            return False
    return True


def expected_selected(reg, fact) -> bool:
    inc = [c for kind, c in reg["filters"] if kind == "apply_to"]
    exc = [c for kind, c in reg["filters"] if kind == "skip_for"]
    if any(expected_match(c, fact) for c in exc):
        return False
    return not inc or any(expected_match(c, fact) for c in inc)


ORACLE_CRIT = [
    {"method": "GET"}, {"method": "post"}, {"method": ["put", "delete"]}, {"path": "/users"}, {"path": "/users/{id}"}, {"tag": "admin"},
    {"tag": "users"}, {"operation_id": "getUser"}, {"name": "PATCH /items"}, {"method": "GET", "path": "/users"},
    {"tag": ["admin", "x"], "method": "DELETE"}, {"operation_id": ["listUsers", "updateUser"]}, {"path": "/none"},
]
ORACLE_KINDS = ["map", "filter", "flatmap", "before_generate"]
ORACLE_TARGETS = ["query", "headers", "cookies", "path_parameters", "body", "case"]


def gen_registrations(rng, n):
    regs = []
    for i in range(n):
        nf = rng.choice([0, 0, 1, 1, 1, 2, 3])
        filters, seen = [], []
        for _ in range(nf):
            c = rng.choice(ORACLE_CRIT)
            if c in seen:
                continue
            seen.append(c)
            filters.append([rng.choice(["apply_to", "apply_to", "skip_for"]), c])
        form = rng.choice(["function", "named", "named", "named_inner", "named_inner", "named_split", "apply"])
        scope = rng.choice(["global", "schema", "schema_hook", "test"])
        hook = f"{rng.choice(ORACLE_KINDS)}_{rng.choice(ORACLE_TARGETS)}"
        if form == "apply":
            # schema.hooks.apply(function, name=hook)(test): test scope, no filters
            scope, filters = "test", []
        # the Python name of the function: the function form needs the hook name; in the named forms (and apply) it is free:
        # mostly a name that is no hook name at all, sometimes the name of ANOTHER hook, sometimes the hook name itself
        if form == "function":
            fn_name = hook
        else:
            k = rng.random()
            fn_name = f"custom_hook_{i}" if k < 0.6 else (f"{rng.choice(ORACLE_KINDS)}_{rng.choice(ORACLE_TARGETS)}" if k < 0.8 else hook)
        regs.append({"id": i, "scope": scope, "form": form, "hook": hook, "fn_name": fn_name, "filters": filters})
    return regs


# always run first: named-form registrations whose function name is no hook name, on all three scopes (+ hooks.apply), a subset unregistered
ORACLE_FIXED = [
    (
        [
            {"id": 0, "scope": "global", "form": "named", "hook": "map_query", "fn_name": "tag_a", "filters": [["apply_to", {"method": "GET"}]]},
            {"id": 1, "scope": "schema_hook", "form": "named_inner", "hook": "map_query", "fn_name": "tag_b", "filters": [["skip_for", {"path": "/items"}]]},
            {"id": 2, "scope": "test", "form": "named", "hook": "map_query", "fn_name": "tag_c", "filters": []},
            {"id": 3, "scope": "test", "form": "apply", "hook": "filter_headers", "fn_name": "tag_d", "filters": []},
            {"id": 4, "scope": "schema", "form": "function", "hook": "map_query", "fn_name": "map_query", "filters": [["apply_to", {"tag": "users"}]]},
            {"id": 5, "scope": "global", "form": "named_split", "hook": "before_generate_cookies", "fn_name": "map_query", "filters": [["apply_to", {"path": "/users"}], ["skip_for", {"method": "post"}]]},
        ],
        unreg,
    )
    for unreg in [(), (0,), (1, 3), (2, 4), (0, 1, 2, 3, 5)]
]


def gen_unregister(rng, regs):
    """A subset of the registrations to unregister afterwards (about a third; more often those whose function name is not the hook name)."""
    return tuple(r["id"] for r in regs if rng.random() < (0.4 if r.get("fn_name", r["hook"]) != r["hook"] else 0.2))


def make_oracle_fn(kind, fired_labels):
    from hypothesis import strategies as st

    def record(ctx):
        fired_labels.add(ctx.operation.label)

    if kind == "map":
        def fn(ctx, value):
            record(ctx)
            return value
    elif kind == "filter":
        def fn(ctx, value):
            record(ctx)
            return True
    elif kind == "flatmap":
        def fn(ctx, value):
            record(ctx)
            return st.just(value)
    else:
        def fn(ctx, strategy):
            return strategy.map(lambda v: (record(ctx), v)[1])
    return fn


def oracle_register(env, r, fn):
    """One complete registration expression through the public API."""
    closures = {"global": env.regs[0], "schema": env.regs[1], "schema_hook": env.regs[2], "test": env.regs[3]}
    target = closures[r["scope"]]

    def chain(t, fs):
        for k, c in fs:
            t = getattr(t, k)(**{a: (list(v) if isinstance(v, list) else v) for a, v in c.items()})
        return t

    if r["form"] == "function":
        chain(target, r["filters"])(fn)
    elif r["form"] == "apply":
        env.schema.hooks.apply(fn, name=r["hook"])(env.test)
    elif r["form"] == "named":
        chain(target, r["filters"])(r["hook"])(fn)
    elif r["form"] == "named_inner":
        chain(target(r["hook"]), r["filters"])(fn)
    else:
        half = len(r["filters"]) // 2
        chain(chain(target, r["filters"][:half])(r["hook"]), r["filters"][half:])(fn)


def draw_cases(operation, test_disp, examples, seed):
    import hypothesis

    strategy = operation.as_strategy(hooks=test_disp)

    @hypothesis.seed(seed)
    @hypothesis.settings(max_examples=examples, database=None, deadline=None, derandomize=False, phases=[hypothesis.Phase.generate],
                         suppress_health_check=list(hypothesis.HealthCheck))
    @hypothesis.given(case=strategy)
    def run_one(case):
        pass

    run_one()


def hook_target(hook):
    return "path_parameters" if hook.endswith("path_parameters") else hook.split("_")[-1]


def has_body(fact):
    return "requestBody" in RAW["paths"][fact["path"]][fact["method"]]


# ---------- generation INTERLEAVED with registration / unregistration on one schema object ----------
SCOPE_CLOSURE = {"global": 0, "schema": 1, "schema_hook": 2, "test": 3}
SCOPE_DISP = {"global": 0, "schema": 1, "schema_hook": 1, "test": 2}


def _reg(i, scope, form, hook, fn_name, filters):
    return {"id": i, "scope": scope, "form": form, "hook": hook, "fn_name": fn_name, "filters": filters}


# always run first: generate, register, generate the SAME operation again, unregister, generate again - on every scope and form
INTERLEAVED_FIXED = [
    [["generate", 0], ["register", _reg(0, "global", "function", "map_query", "map_query", [["apply_to", {"method": "GET"}]])], ["generate", 0], ["generate", 1],
     ["register", _reg(1, "schema_hook", "named_inner", "filter_headers", "tag_b", [["skip_for", {"path": "/items"}]])], ["generate", 0], ["generate", 5],
     ["unregister", 0], ["generate", 0], ["register", _reg(2, "test", "named", "map_cookies", "tag_c", [])], ["generate", 0], ["unregister", 1], ["unregister", 2], ["generate", 0]],
    [["generate", 1], ["generate", 4], ["register", _reg(0, "test", "apply", "before_generate_body", "tag_d", [])], ["generate", 1], ["generate", 4],
     ["register", _reg(1, "schema", "named_split", "flatmap_path_parameters", "tag_e", [["apply_to", {"path": "/users/{id}"}], ["skip_for", {"method": "put"}]])],
     ["generate", 4], ["generate", 2], ["unregister", 0], ["generate", 1], ["register", _reg(2, "global", "named", "map_case", "tag_f", [["apply_to", {"tag": "admin"}]])],
     ["generate", 1], ["generate", 2], ["unregister", 2], ["generate", 1]],
]


def gen_events(rng, n_regs):
    """[["generate", op index] | ["register", registration] | ["unregister", registration id]]: few operations, generated repeatedly."""
    regs = gen_registrations(rng, n_regs)
    used = rng.sample(range(len(UNIVERSE)), rng.choice([1, 2, 2, 3]))
    events, pending, live = [], list(regs), []
    if rng.random() < 0.7:
        events.append(["generate", rng.choice(used)])
    while pending or (live and rng.random() < 0.3):
        k = rng.random()
        if pending and k < 0.6:
            r = pending.pop(0)
            events.append(["register", r])
            live.append(r["id"])
        elif live and k < 0.8:
            events.append(["unregister", live.pop(rng.randrange(len(live)))])
        else:
            events.append(["generate", rng.choice(used)])
            continue
        if rng.random() < 0.7:
            events.append(["generate", rng.choice(used)])
    for i in used:
        events.append(["generate", i])
    return events


def interleaved_run(events, seed=0, examples=2):
    """Execute the events on ONE Env (one schema object, the same operation objects, one test dispatcher);
    -> for every generate event [op index, sorted ids of the registrations whose hook ran during that generation]."""
    env = Env()
    funcs, sets, out = {}, {}, []
    try:
        for ev in events:
            if ev[0] == "register":
                r = ev[1]
                kind = next(k for k in ORACLE_KINDS if r["hook"].startswith(k + "_"))
                sets[r["id"]] = set()
                fn = make_oracle_fn(kind, sets[r["id"]])
                fn.__name__ = fn.__qualname__ = r.get("fn_name", r["hook"])
                funcs[r["id"]] = (fn, r)
                oracle_register(env, r, fn)
            elif ev[0] == "unregister":
                fn, r = funcs[ev[1]]
                env.disps[SCOPE_DISP[r["scope"]]].unregister(fn)
            else:
                for st_ in sets.values():
                    st_.clear()
                draw_cases(env.operations[ev[1]], env.disps[2], examples, seed)
                label = FACTS[ev[1]]["label"]
                stray = sorted(rid for rid, st_ in sets.items() if st_ - {label})
                out.append([ev[1], sorted(rid for rid, st_ in sets.items() if st_)] + ([{"ran_with_other_operation": stray}] if stray else []))
    finally:
        env.H.GLOBAL_HOOK_DISPATCHER.unregister_all()
        env.disps[1].unregister_all()
        env.close()
    return out


def interleaved_expected(events):
    """The property text read directly: a hook runs in a generation iff it is registered at that moment (registered before, not
    unregistered since) and its own filters select the operation (body hooks need an operation with a body)."""
    live, out = {}, []
    for ev in events:
        if ev[0] == "register":
            live[ev[1]["id"]] = ev[1]
        elif ev[0] == "unregister":
            live.pop(ev[1], None)
        else:
            f = FACTS[ev[1]]
            out.append([ev[1], sorted(rid for rid, r in live.items() if expected_selected(r, f) and (hook_target(r["hook"]) != "body" or has_body(f)))])
    return out


def crit_call(c):
    return {"func": None, "crit": {a: [v, None] for a, v in c.items()}}


def c_event_list(events):
    """the events as a Coq `list event` (h_id = registration id: one function object per registration)"""
    out, n_dec = [], 0
    for ev in events:
        if ev[0] == "generate":
            out.append(f"(EGenerate {c_oper(FACTS[ev[1]])})")
        elif ev[0] == "unregister":
            r = next(e[1] for e in events if e[0] == "register" and e[1]["id"] == ev[1])
            out.append(f"(EOp (OUnregister {cnat(SCOPE_DISP[r['scope']])} {cN(ev[1])}))")
        else:
            r = ev[1]
            c = cnat(SCOPE_CLOSURE[r["scope"]])
            fn = "{| h_id := %s; h_name := %s; h_arity := 2%%nat |}" % (cN(r["id"]), c_hname(r.get("fn_name", r["hook"])))
            fl = [(cbool(k == "apply_to"), c_call(crit_call(cr))) for k, cr in r["filters"]]
            if r["form"] == "function":
                outer, inner = fl, None
            elif r["form"] == "apply":
                out.append(f"(EOp (ODirect 2%nat {fn} {c_hname(r['hook'])}))")
                continue
            elif r["form"] == "named":
                outer, inner = fl, []
            elif r["form"] == "named_inner":
                outer, inner = [], fl
            else:
                half = len(fl) // 2
                outer, inner = fl[:half], fl[half:]
            out += [f"(EOp (OFilter {c} {i} {call}))" for i, call in outer]
            if inner is None:
                out.append(f"(EOp (ORegFn {c} {fn}))")
            else:
                out.append(f"(EOp (ORegName {c} {c_hname(r['hook'])}))")
                out += [f"(EOp (ODecFilter {cnat(n_dec)} {i} {call}))" for i, call in inner]
                out.append(f"(EOp (ODecApply {cnat(n_dec)} {fn}))")
                n_dec += 1
    return clist(out, "event")


def c_events(events):
    return "(gen_trace (init [Global; Schema; Test] %s) 0 1 (Some 2%%nat) %s)" % (clist([cnat(c) for c in CLOSURES], "nat"), c_event_list(events))


def model_interleaved(events, trace):
    """parsed gen_trace -> same shape as interleaved_run (body hooks only count for operations with a body, as in the code path)."""
    gens = [ev[1] for ev in events if ev[0] == "generate"]
    out = []
    for i, per_target in zip(gens, unsym(trace)):
        ids = set()
        for ti, applied in enumerate(per_target):
            if ti == 4 and not has_body(FACTS[i]):
                continue
            ids.update(fid for _, fid in applied)
        out.append([i, sorted(ids)])
    return out


def oracle_run(regs, unregister=(), examples=2, seed=0):
    """Register on real dispatchers, generate real cases for every operation, return {reg id: set of labels it fired for}."""
    import hypothesis
    from hypothesis import strategies as st

    import schemathesis
    from schemathesis import hooks as H

    env = Env()  # flushes and empties the global dispatcher
    fired = {r["id"]: set() for r in regs}
    try:
        schema = env.schema
        test_disp = env.disps[2]
        closures = {"global": env.regs[0], "schema": env.regs[1], "schema_hook": env.regs[2], "test": env.regs[3]}
        dispatchers = {"global": env.disps[0], "schema": env.disps[1], "schema_hook": env.disps[1], "test": env.disps[2]}
        funcs = {}
        for r in regs:
            rid = r["id"]
            kind = next(k for k in ORACLE_KINDS if r["hook"].startswith(k + "_"))

            fn = make_oracle_fn(kind, fired[rid])
            fn.__name__ = r.get("fn_name", r["hook"])
            fn.__qualname__ = fn.__name__
            funcs[rid] = fn
            oracle_register(env, r, fn)
        for rid in unregister:
            r = regs[rid]
            dispatchers[r["scope"]].unregister(funcs[rid])
        for o in env.operations:
            draw_cases(o, test_disp, examples, seed)
    finally:
        env.H.GLOBAL_HOOK_DISPATCHER.unregister_all()
        env.disps[1].unregister_all()
        env.close()
    return fired


def oracle_check(regs, unregister=(), seed=0):
    """-> list of (registration, expected labels, actual labels, region) for registrations that fired on the wrong set."""
    fired = oracle_run(regs, unregister, seed=seed)
    bad = []
    for r in regs:
        target = r["hook"].split("_")[-1] if not r["hook"].endswith("path_parameters") else "path_parameters"
        expected = set()
        if r["id"] not in unregister:
            for f in FACTS:
                if target == "body" and "requestBody" not in RAW["paths"][f["path"]][f["method"]]:
                    continue
                if expected_selected(r, f):
                    expected.add(f["label"])
        if fired[r["id"]] != expected:
            bad.append((r, sorted(expected), sorted(fired[r["id"]]), None))  # no listed region any more: C19-F2 is fixed
    return bad


def gen_auth_registrations(rng, n):
    regs = []
    for i in range(n):
        filters, seen = [], []
        for _ in range(rng.choice([0, 1, 1, 1, 2, 3])):
            c = rng.choice(ORACLE_CRIT)
            if c not in seen:
                seen.append(c)
                filters.append([rng.choice(["apply_to", "apply_to", "skip_for"]), c])
        regs.append({"id": i, "storage": rng.choice(["global", "schema", "schema", "test"]), "form": rng.choice(["register", "register", "requests"]), "filters": filters})
    return regs


def auth_oracle_check(regs):
    """Register providers through the public API; for every operation the credentials must be those of the first provider of
    the storage in charge (test, else schema if it has providers, else global) whose own filters select the operation."""
    import requests.auth

    env = AuthEnv()
    bad = []
    try:
        A = env.A
        test = env.tests[0]
        in_storage = {"global": [], "schema": [], "test": []}
        for r in regs:
            def chain(t, fs):
                for k, c in fs:
                    t = getattr(t, k)(**{a: (list(v) if isinstance(v, list) else v) for a, v in c.items()})
                return t

            if r["storage"] == "test":
                if in_storage["test"]:
                    continue  # one apply per test
                chain(env.schema.auth.apply(make_provider_cls(r["id"])), r["filters"])(test)
            else:
                storage = A.GLOBAL_AUTH_STORAGE if r["storage"] == "global" else env.schema.auth
                if r["form"] == "register":
                    chain(storage.register(), r["filters"])(make_provider_cls(r["id"]))
                else:
                    auth = requests.auth.HTTPBasicAuth("u", "p")
                    auth.cid = r["id"]
                    chain(storage.set_from_requests(auth), r["filters"])
            in_storage[r["storage"]].append(r)
        for with_test in (False, True):
            if with_test and not in_storage["test"]:
                continue
            chargeable = in_storage["test"] if with_test else (in_storage["schema"] or in_storage["global"])
            for o, f in zip(env.operations, FACTS):
                expected = next((r["id"] for r in chargeable if expected_selected(r, f)), None)
                case = o.Case()
                A.set_on_case(case, A.AuthContext(operation=o, app=None), A.AuthStorageMark.get(test) if with_test else None)
                if getattr(case, "_auth", None) is not None:
                    actual = case._auth.cid
                elif case.headers and "Authorization" in case.headers:
                    actual = int(case.headers["Authorization"].split("-")[1])
                else:
                    actual = None
                if actual != expected:
                    bad.append((f["label"], with_test, expected, actual))
    finally:
        env.close()
    return bad


# ----------------------------------------------------------------------------------------
# histories that RE-USE function objects: one function registered several times (other dispatcher, other hook name, other or no
# filters, again after an unregistration).  The property is about registrations: each one applies where ITS OWN chain says.
# ----------------------------------------------------------------------------------------
DISP_NAMES = ["global", "schema", "test"]
FAKE_KIND = {"call": "before_generate", "filter": "filter", "map": "map", "flatmap": "flatmap"}
APPLY_ORDER = ["before_generate", "filter", "map", "flatmap"]  # order of HookDispatcher.apply_to_container


def is_hook_name(name):
    return any(name == f"{k}_{t}" for k in ORACLE_KINDS for t in ORACLE_TARGETS)


def _rr(i, fn, scope, form, hook, filters):
    return ["register", {"id": i, "fn": fn, "scope": scope, "form": form, "hook": hook, "filters": filters}]


# always run first
REUSE_FIXED = [
    # global, function form: filtered -> unregistered -> the same function without filters
    {"slots": [{"kind": "map", "name": "map_query"}],
     "events": [_rr(0, 0, "global", "function", "map_query", [["apply_to", {"path": "/users"}]]), ["unregister", 0, 0],
                _rr(1, 0, "global", "function", "map_query", [])]},
    # schema.hook, named forms, a function whose name is no hook name: skip_for -> unregistered -> unfiltered, then a second name
    {"slots": [{"kind": "filter", "name": "marker"}],
     "events": [_rr(0, 0, "schema_hook", "named_inner", "filter_headers", [["skip_for", {"method": "GET"}]]), ["unregister", 1, 0],
                _rr(1, 0, "schema_hook", "named", "filter_headers", []), _rr(2, 0, "schema", "named", "filter_cookies", [])]},
    # filtered on one dispatcher, then (first registration still there) unfiltered on another one; a second function in between
    {"slots": [{"kind": "flatmap", "name": "flatmap_headers"}, {"kind": "map", "name": "map_case"}],
     "events": [_rr(0, 0, "global", "function", "flatmap_headers", [["apply_to", {"method": "GET"}]]),
                _rr(1, 1, "schema", "function", "map_case", [["apply_to", {"tag": "admin"}]]),
                _rr(2, 0, "schema", "function", "flatmap_headers", []), ["unregister", 0, 0],
                _rr(3, 1, "test", "named", "map_case", [])]},
    # a function with filters, unregistered, then attached to one test through hooks.apply (no filter expression at all)
    {"slots": [{"kind": "before_generate", "name": "custom_hook_0"}],
     "events": [_rr(0, 0, "schema", "named", "before_generate_query", [["apply_to", {"operation_id": "getUser"}]]), ["unregister", 1, 0],
                _rr(1, 0, "test", "apply", "before_generate_query", [])]},
    # three registrations of one function: filters A on global, filters B on test, nothing on schema under another name; unregister_all in between
    {"slots": [{"kind": "map", "name": "map_headers"}],
     "events": [_rr(0, 0, "global", "function", "map_headers", [["apply_to", {"tag": "users"}], ["skip_for", {"method": "post"}]]),
                _rr(1, 0, "test", "named_split", "map_cookies", [["apply_to", {"path": "/users/{id}"}], ["skip_for", {"method": "put"}]]),
                ["unregister_all", 0], ["unregister", 2, 0], _rr(2, 0, "schema_hook", "named", "map_body", [])]},
]


def gen_reuse(rng):
    """1-3 function objects, 2-6 complete registration expressions that mostly re-use function object 0 (different / empty
    chains, all scopes and forms, several hook names of the function's kind), unregistrations in between."""
    n_slots = rng.choice([1, 1, 2, 2, 3])
    slots = []
    for k in range(n_slots):
        kind = rng.choice(ORACLE_KINDS)
        slots.append({"kind": kind, "name": f"{kind}_{rng.choice(ORACLE_TARGETS)}" if rng.random() < 0.6 else f"custom_hook_{k}"})
    events, live, rid, n_regs = [], [], 0, rng.choice([2, 3, 3, 4, 5, 6])
    while rid < n_regs:
        if live and rng.random() < 0.3:
            if rng.random() < 0.12:
                di = rng.choice(live)[0]
                events.append(["unregister_all", di])
                live = [p for p in live if p[0] != di]
            else:
                di, slot = rng.choice(live)
                events.append(["unregister", di, slot])
                live = [p for p in live if p != (di, slot)]
            continue
        slot = 0 if rng.random() < 0.6 else rng.randrange(n_slots)
        sl = slots[slot]
        hooky = is_hook_name(sl["name"])
        form = rng.choice(["named", "named", "named_inner", "named_split", "apply"] + (["function"] * 4 if hooky else []))
        scope = "test" if form == "apply" else rng.choice(["global", "schema", "schema_hook", "test"])
        if form == "function" or (hooky and rng.random() < 0.5):
            hook = sl["name"]
        else:
            hook = f"{sl['kind']}_{rng.choice(ORACLE_TARGETS)}"
        filters = []
        if form != "apply" and rng.random() < 0.55:
            for c in rng.sample(ORACLE_CRIT, rng.choice([1, 1, 2])):
                filters.append([rng.choice(["apply_to", "apply_to", "skip_for"]), c])
        events.append(_rr(rid, slot, scope, form, hook, filters))
        live.append((SCOPE_DISP[scope], slot))
        rid += 1
    if live and rng.random() < 0.3:
        di, slot = rng.choice(live)
        events.append(["unregister", di, slot])
    return {"slots": slots, "events": events}


def make_reuse_fn(kind, slot, name, fired):
    """One function object; works under a real Hypothesis strategy (records the operation it ran for) and under FakeStrategy."""
    from hypothesis import strategies as st

    def record(ctx):
        RAN.append(slot)
        fired.add(ctx.operation.label)

    if kind == "map":
        def fn(ctx, value):
            record(ctx)
            return value
    elif kind == "filter":
        def fn(ctx, value):
            record(ctx)
            return True
    elif kind == "flatmap":
        def fn(ctx, value):
            record(ctx)
            return st.just(value)
    else:
        def fn(ctx, strategy):
            if isinstance(strategy, FakeStrategy):
                strategy.log.append(("call", slot))
                return strategy
            return strategy.map(lambda v: (record(ctx), v)[1])
    fn.__name__ = fn.__qualname__ = name
    fn.fid = slot
    return fn


def reuse_chain(r):
    """The chain written in the registration expression, as a value (order of the calls does not matter)."""
    def norm(c):
        return {a: ([x.upper() for x in v] if isinstance(v, list) else v.upper()) if a == "method" else v for a, v in c.items()}

    return sorted(json.dumps([k, norm(c)], sort_keys=True) for k, c in (r["filters"] if r["form"] != "apply" else []))


def reuse_states(events):
    """The property text read directly, after every event: (live registrations in registration order, {slot: chain of the last
    registration expression of that function object that carries a chain}).  unregister(f) on a dispatcher removes the
    registrations of f there."""
    live, last, out = [], {}, []
    for ev in events:
        if ev[0] == "register":
            live = live + [ev[1]]
            if ev[1]["form"] != "apply":
                last = {**last, ev[1]["fn"]: reuse_chain(ev[1])}
        elif ev[0] == "unregister":
            live = [r for r in live if not (SCOPE_DISP[r["scope"]] == ev[1] and r["fn"] == ev[2])]
        else:
            live = [r for r in live if SCOPE_DISP[r["scope"]] != ev[1]]
        out.append((live, last))
    return out


def reuse_is_current(r, last):
    """Outside finding C19-F5: the function object was not given another chain by a later (or, for hooks.apply, any) expression."""
    return reuse_chain(r) == last.get(r["fn"], [])


def reuse_region(mine, last):
    """The listed finding that explains a deviation of these registrations of one function object, None if there is none."""
    stale = [r for r in mine if not reuse_is_current(r, last)]
    if not stale:
        return None
    # C19-F6: hooks.apply (no filter expression at all) inherits what an earlier expression left on the function; C19-F5: a later expression replaced the chain
    return "unfiltered_apply_inherits_filters" if all(r["form"] == "apply" for r in stale) else "function_registered_twice"


def reuse_run(hist, seed=0, examples=2):
    """Execute on real dispatchers -> (cells after every event, {slot: labels the function ran for in real generation at the end}).
    cells[op][dispatcher][target] = [[kind, slot], ...] applied by HookDispatcher.apply_to_container, in order."""
    env = Env()
    fired = {k: set() for k in range(len(hist["slots"]))}
    fns = [make_reuse_fn(sl["kind"], k, sl["name"], fired[k]) for k, sl in enumerate(hist["slots"])]
    steps = []
    try:
        for ev in hist["events"]:
            if ev[0] == "register":
                oracle_register(env, ev[1], fns[ev[1]["fn"]])
            elif ev[0] == "unregister":
                env.disps[ev[1]].unregister(fns[ev[2]])
            else:
                env.disps[ev[1]].unregister_all()
            cells = []
            for o in env.operations:
                ctx = env.H.HookContext(o)
                row = []
                for d in env.disps:
                    per_target = []
                    for tg in ORACLE_TARGETS_COQ:
                        log = []
                        d.apply_to_container(FakeStrategy(log), tg, ctx)
                        per_target.append([[FAKE_KIND[k], fid] for k, fid in resolve_log(log)])
                    row.append(per_target)
                cells.append(row)
            steps.append(cells)
        for st_ in fired.values():
            st_.clear()
        for o in env.operations:
            draw_cases(o, env.disps[2], examples, seed)
    finally:
        env.H.GLOBAL_HOOK_DISPATCHER.unregister_all()
        env.disps[1].unregister_all()
        env.close()
    return steps, {k: sorted(v) for k, v in fired.items()}


ORACLE_TARGETS_COQ = ["path_parameters", "query", "headers", "cookies", "body", "case"]  # Model_C19.all_targets


def reuse_oracle(hist, steps, fired):
    """-> list of (message, region) : registrations that fire / do not fire contrary to their own chain."""
    bad = []
    states = reuse_states(hist["events"])
    for j, ((live, last), cells) in enumerate(zip(states, steps)):
        for oi, f in enumerate(FACTS):
            for di in range(3):
                for ti, tg in enumerate(ORACLE_TARGETS_COQ):
                    real = cells[oi][di][ti]
                    here = [r for r in live if SCOPE_DISP[r["scope"]] == di and hook_target(r["hook"]) == tg]
                    if not real and not here:
                        continue
                    for kind in APPLY_ORDER:
                        regs_k = [r for r in here if r["hook"] == f"{kind}_{tg}"]
                        slots = {r["fn"] for r in regs_k} | {fid for k, fid in real if k == kind}
                        for slot in sorted(slots):
                            mine = [r for r in regs_k if r["fn"] == slot]
                            want = sum(1 for r in mine if expected_selected(r, f))
                            got = sum(1 for k, fid in real if k == kind and fid == slot)
                            if want == got:
                                continue
                            region = reuse_region(mine, last)
                            desc = "; ".join(
                                f"registration {r['id']} ({r['form']} form on {r['scope']}, own filters {r['filters'] or 'none'})" for r in mine
                            ) or "no registration"
                            bad.append((
                                f"after event {j} ({hist['events'][j][0]}): hook {kind}_{tg} of function object #{slot} ({hist['slots'][slot]['name']}) ran "
                                f"{got} time(s) on the {DISP_NAMES[di]} dispatcher for {f['label']}, its own filters say {want}: {desc}",
                                region,
                            ))
    # real data generation at the end: per function object, the union over its live registrations
    live, last = states[-1] if states else ([], {})
    for slot in range(len(hist["slots"])):
        mine = [r for r in live if r["fn"] == slot]
        expected = sorted({f["label"] for r in mine for f in FACTS if expected_selected(r, f) and (hook_target(r["hook"]) != "body" or has_body(f))})
        if fired[slot] != expected:
            region = reuse_region(mine, last)
            bad.append((
                f"real data generation after the whole history: function object #{slot} ({hist['slots'][slot]['name']}) ran for {fired[slot]}, "
                f"the own filters of its registrations {[(r['id'], r['scope'], r['hook'], r['filters'] or 'none') for r in mine]} select {expected}",
                region,
            ))
    return bad


def reuse_ops(hist, upto):
    """The first `upto` events as low-level operations of Model_C19 (h_id = function object number)."""
    out, n_dec = [], 0
    for ev in hist["events"][:upto]:
        if ev[0] == "unregister":
            out.append(f"(OUnregister {cnat(ev[1])} {cN(ev[2])})")
        elif ev[0] == "unregister_all":
            out.append(f"(OUnregisterAll {cnat(ev[1])})")
        else:
            r = ev[1]
            c = cnat(SCOPE_CLOSURE[r["scope"]])
            fn = "{| h_id := %s; h_name := %s; h_arity := 2%%nat |}" % (cN(r["fn"]), c_hname(hist["slots"][r["fn"]]["name"]))
            fl = [(cbool(k == "apply_to"), c_call(crit_call(cr))) for k, cr in r["filters"]]
            if r["form"] == "apply":
                out.append(f"(ODirect 2%nat {fn} {c_hname(r['hook'])})")
                continue
            if r["form"] == "function":
                outer, inner = fl, None
            elif r["form"] == "named":
                outer, inner = fl, []
            elif r["form"] == "named_inner":
                outer, inner = [], fl
            else:
                half = len(fl) // 2
                outer, inner = fl[:half], fl[half:]
            out += [f"(OFilter {c} {i} {call})" for i, call in outer]
            if inner is None:
                out.append(f"(ORegFn {c} {fn})")
            else:
                out.append(f"(ORegName {c} {c_hname(r['hook'])})")
                out += [f"(ODecFilter {cnat(n_dec)} {i} {call})" for i, call in inner]
                out.append(f"(ODecApply {cnat(n_dec)} {fn})")
                n_dec += 1
    return out


def c_ledger_observe(hist, upto):
    return "(ledger_observe [Global; Schema; Test] %s %s %s)" % (
        clist([cnat(c) for c in CLOSURES], "nat"), clist(reuse_ops(hist, upto), "op"), c_universe())


def ledger_key(ledger):
    return [[d, name, slot] for d, name, slot, _ in ledger]


def canon_ledger_observation(v):
    """-> (cells of the model of the code, cells of the per-registration specification, ledger [(disp, hook, slot, current)])"""
    cells, ledger = unsym(v)
    code = [[[canon_model_applied(pair[0]) for pair in per_t] for per_t in row] for row in cells]
    spec = [[[canon_model_applied(pair[1]) for pair in per_t] for per_t in row] for row in cells]
    return code, spec, [[e[0], p_hname(e[1]), e[2], bool(e[3])] for e in ledger]


# ----------------------------------------------------------------------------------------
# listed findings: canonical witnesses replayed on the implementation
# ----------------------------------------------------------------------------------------
def witness_fails(w) -> bool:
    kind = w.get("kind")
    if kind == "history":
        # {"ops": [...low level ops...], "function": id, "expected_filter_set": [incl, excl] | None}
        outs, obs = run_history_real(w["ops"], False)
        if "expected_outcomes" in w and outs != w["expected_outcomes"]:
            return True
        if "function" in w and obs["filter_sets"][w["function"]] != w["expected_filter_set"]:
            return True
        if "fires" in w:
            fw = w["fires"]
            got = obs["per_dispatcher"][fw["operation"] + 1][fw["dispatcher"]][PARAM_TARGETS.index(fw["target"])]
            return got != fw["expected"]
        return False
    if kind == "generation":
        return bool(oracle_check(w["registrations"], tuple(w.get("unregister", ()))))
    raise ValueError(f"unknown witness kind {kind!r}")


def spec_table_real():
    from schemathesis.hooks import HookDispatcher

    return {name: (sorted(s.name for s in spec.scopes), len(spec.signature.parameters)) for name, spec in HookDispatcher._specs.items()}


# ----------------------------------------------------------------------------------------
def run(chk: core.Check):
    quick = chk.tier == "quick"
    chk.trusted = [
        "Coq 8.16.1 kernel, vm_compute (witness lemmas and model evaluation); no axioms",
        "hand-written model theories/C19/Model_C19.v of filters.py (matchers, FilterSet.match, _add_filter), hooks.py "
        "(to_filterable_hook closures over a heap of FilterSet objects, dispatcher, _should_skip_hook, scope order) and auths.py "
        "(AuthStorage.register/apply/set_from_requests/set, set_on_case)",
        "correspondence harness harness/props/c19.py (encoders, Coq output parser, canonicalisers, generators, the recording "
        "FakeStrategy that stands in for a Hypothesis strategy in apply_to_container: it keeps the callbacks and calls them after "
        "construction, the instrumented hook functions report which of them ran)",
        "user predicates and compiled regexes are opaque matchers given by their truth table over the 6 operations of the harness "
        "schema, in the several-schemas stage over the 15 operations of its three documents (table computed by the harness with re.search / "
        "a reading of the raw document)",
    ]
    chk.assumptions = [
        "Hypothesis applies .filter/.map/.flatmap callbacks of a strategy to every drawn value (oracle stage)",
        "a provider class's get() returns non-None data; provider classes passed to auth registration are valid AuthProvider classes",
        "method names are ASCII (str.upper = ASCII upper-casing)",
        "hash collisions between matcher labels / function hashes do not occur",
        "apply_to/skip_for proxies are called through the attribute of the object that currently carries them (a proxy saved in a "
        "variable and called after a later registration is outside the modelled histories)",
    ]
    chk.rule = (
        "registration histories drawn from one PRNG (VERIF_SEED): 0-24 steps over 4 closures (global register, schema.hooks.register, "
        "schema.hook, test dispatcher register) x {complete decorator expression in function / named form with 0-3 outer and 0-2 decorator "
        "filter calls, lone filter call, lone register(name), late decorator filter/apply, direct register_hook_with_name / hooks.apply, "
        "unregister, unregister_all} x 24 function objects (duplicate names, wrong arity, unknown and non-filterable names) x filter calls "
        "over name/method/path/tag/operation_id values, lists, regexes, predicates, incl. empty, duplicate and value+regex calls; "
        "non-trivial = at least two registrations with different filter sets; distinct by canonical JSON.  Oracle: 5 fixed + generated sets of 1-6 "
        "complete registrations (function / named / named-inner / named-split / hooks.apply form; in the named forms the Python function name is "
        "mostly no hook name at all, sometimes another hook's name) on global, schema.hooks, schema.hook and test scope, about a third unregistered "
        "afterwards, then real data generation for all 6 operations.  Interleaved stage: 2 fixed + generated event lists "
        "generate(op) / register(complete expression) / unregister on ONE schema object and one test dispatcher, 1-3 operations generated repeatedly; "
        "after each generate the set of registrations whose hook ran is compared with Model_C19.gen_trace and with the direct reading of the property.  "
        "Re-use stage: 5 fixed + generated histories over 1-3 function OBJECTS, 2-6 complete registration expressions of which ~60% register function "
        "object 0 again (function / named / named-inner / named-split / hooks.apply form, global / schema.hooks / schema.hook / test, the function's own "
        "hook name or another name of its kind, 45% without filters), unregister / unregister_all in between; after EVERY event every dispatcher is "
        "asked (apply_to_container with a recording strategy) for all 6 operations x 6 targets, real data generation at the end; expected = each "
        "registration fires where the filters written in its own expression say (mismatches where the function object was given another chain by a "
        "later expression = region function_registered_twice, finding C19-F5).  Same-name stage: 4 fixed + generated event lists with 1-2 groups of 2-4 registrations "
        "under ONE hook name (mostly filter_case / map_case / flatmap_case / before_generate_case) on ONE dispatcher with pairwise different filter chains, all "
        "forms and scopes, unregistrations and generations in between; per generated case (as_strategy built once, 3 draws) the hook functions that ran, "
        "in order and with multiplicity, vs the property read directly, Model_C19.gen_trace and the sentinel gen_trace_late.  Several-schemas stage: 4 fixed + generated histories on 2-3 REAL schema "
        "objects whose documents share labels (GET /users, POST /users, ...) but differ in tags / operationId / deprecated / requestBody: 1-4 hook "
        "registrations (global 45%, test, schema.hooks, schema.hook; all forms) and 0-3 auth providers (global / schema / test storage, register / "
        "set_from_requests) with 0-3 apply_to / skip_for calls by name, method, path, tag, operation_id, *_regex and matcher functions (deprecated, "
        "tagged, has body), then 3-8 evaluations (75%: one label from all schemas that have it, shuffled order, first one often repeated; with / "
        "without the test dispatcher and storage), a quarter with registrations / unregistrations between two evaluation runs; each evaluation = "
        "apply_to_all_dispatchers for 5 containers + as_strategy case level, real Hypothesis draws (hooks record the operation of their context, "
        "cases their credentials) and auths.set_on_case; non-trivial = two different operations with one label evaluated and a filtered global / "
        "test extension present"
    )
    chk.proofs(["Common", "C19"])
    rng = chk.rng

    # ---- the model's spec table vs HookDispatcher._specs
    real_specs = spec_table_real()
    names = sorted(real_specs)
    exprs = [f"spec_of {c_hname(n)}" for n in names] + [f"spec_of {c_hname(u)}" for u in UNKNOWN]
    vals = unsym(core.coq_eval(IMPORTS, exprs))
    for n, v in zip(names + UNKNOWN, vals):
        model = None if v is None else (sorted(s.upper() for s in v[1][0]), v[1][1])
        real = real_specs.get(n)
        if model != (None if real is None else (real[0], real[1])):
            chk.disagree("HookDispatcher._specs vs Model_C19.spec_of", n, real, model)
    chk.stages["spec_table"] = {"names": len(names)}

    # ---- corpus + generated histories
    corpus = [json.loads(p.read_text()) for p in sorted((core.VERIF / "corpus" / "C19").glob("*.json"))]
    n_hist = 360 if quick else 4000
    cases = []
    for c in corpus:
        if c.get("kind") == "hooks":
            outs, obs = run_history_real(c["ops"], c.get("with_test", True))
            cases.append((c["ops"], c.get("with_test", True), outs, obs))
    for _ in range(n_hist):
        env = Env()
        try:
            ops, outs = gen_history(rng, env, rng.choice([0, 1, 2, 3, 4, 5, 6, 8, 10, 14, 18, 24]))
            with_test = rng.random() < 0.7
            obs = env.observe(with_test)
        finally:
            env.close()
        cases.append((ops, with_test, outs, obs))
    model = core.coq_eval(IMPORTS, [c_observe(ops, wt) for ops, wt, _, _ in cases], shard=40)
    agree = 0
    f2_distinguishing = 0
    sentinel_cases = []
    for (ops, wt, outs, obs), mv in zip(cases, model):
        m_outs, m_obs = canon_model_observation(mv)
        # regression sentinel for C19-F2 (fixed): what the pre-fix as_strategy would apply (no filter check, the same for every operation)
        case_prefix = m_obs.pop("case_level_prefix")
        if any(c != case_prefix for c in m_obs["case_level"]):
            f2_distinguishing += 1
            if all(c == case_prefix for c in obs["case_level"]):
                chk.fail("case-level hooks are applied without looking at their filters again (C19-F2 is back)", {"ops": ops, "with_test": wt})
        # the specification side of C19_hook_gets_own_filter (value semantics) against the real filter_set attributes
        spec_sets = m_obs.pop("own_chain")
        if spec_sets != obs["filter_sets"]:
            chk.disagree("own_chain (spec_run ..) vs real filter_set attributes", {"ops": ops, "with_test": wt}, obs["filter_sets"], spec_sets)
            continue
        distinct_sets = {json.dumps(x) for x in obs["filter_sets"] if x is not None}
        chk.seen({"ops": ops, "t": wt}, len(distinct_sets) >= 2)
        chk.count(f"history_len:{min(len(ops) // 5 * 5, 40)}+")
        for o in outs:
            chk.count(f"outcome:{o}")
        for op in ops:
            chk.count(f"op:{op[0]}")
        if outs != m_outs:
            i = next((i for i, (a, b) in enumerate(zip(outs, m_outs)) if a != b), None)
            chk.disagree("outcomes of registration operations", {"ops": ops, "first_difference_at": i}, outs, m_outs)
            continue
        d = first_diff(obs, m_obs)
        if d:
            chk.disagree(f"registration history: {d[:300]}", {"ops": ops, "with_test": wt}, "see difference", "see difference")
            continue
        agree += 1
        if len(distinct_sets) >= 2:
            sentinel_cases.append((ops, wt, obs))
        if len(ops) >= 4:
            chk.sample({"history": ops[:6], "outcomes": outs[:6], "filter_sets": [x for x in obs["filter_sets"] if x][:3]})
    chk.stages["correspondence_hooks"] = {
        "histories": len(cases), "corpus": len(corpus), "agree": agree,
        "histories_where_case_hooks_with_and_without_filter_check_differ": f2_distinguishing,
    }

    # ---- regression sentinel: the pre-fix model must NOT describe the code on histories where hooks carry different filters
    sent = sentinel_cases[: (60 if quick else 400)]
    if sent:
        pm = core.coq_eval(IMPORTS, [c_observe(ops, wt, fixed=False) for ops, wt, _ in sent], shard=40)
        differs = sum(1 for (ops, wt, obs), mv in zip(sent, pm) if canon_model_observation(mv)[1]["filter_sets"] != obs["filter_sets"])
        chk.stages["prefix_model_sentinel"] = {"histories": len(sent), "pre_fix_model_differs_from_code": differs}
        if differs == 0:
            chk.fail("the code behaves like the pre-fix model register_prefix on every sampled history (shared filter set is back?)", sent[0][0], region=None)

    # ---- histories that re-use function objects (a registration, not a function, is what the property speaks of): real dispatchers
    #      after every event + real generation at the end vs (a) the property read directly (oracle: concrete failing inputs),
    #      (b) Model_C19.apply_to_container (model of the code), (c) Model_C19.spec_apply_to_container on the ledger, in the region
    #      of C19_each_registration_own_chain_container_partial
    n_ru = 40 if quick else 400
    ru_runs = []
    for i in range(len(REUSE_FIXED) + n_ru):
        hist = REUSE_FIXED[i] if i < len(REUSE_FIXED) else gen_reuse(rng)
        try:
            steps, fired = reuse_run(hist, seed=rng.randrange(1 << 30))
        except Exception as exc:  # noqa: BLE001
            chk.fail(f"registration history re-using a function object crashed: {type(exc).__name__}: {exc}"[:300], {"reuse_history": hist})
            continue
        ru_runs.append((hist, steps, fired))
    ru_exprs = [(k, j) for k, (hist, steps, _) in enumerate(ru_runs) for j in range(1, len(steps) + 1)]
    ru_model = core.coq_eval(IMPORTS, [c_ledger_observe(ru_runs[k][0], j) for k, j in ru_exprs], shard=40)
    ru_by_hist = {}
    for (k, j), mv in zip(ru_exprs, ru_model):
        ru_by_hist.setdefault(k, []).append((j, canon_ledger_observation(mv)))
    ru_wrong = ru_inside = ru_disagree = ru_steps = ru_spec_cells = 0
    for k, (hist, steps, fired) in enumerate(ru_runs):
        regs_ = [e[1] for e in hist["events"] if e[0] == "register"]
        per_fn = {}
        for r in regs_:
            per_fn[r["fn"]] = per_fn.get(r["fn"], 0) + 1
        reused = max(per_fn.values(), default=0)
        chk.seen({"reuse_history": hist}, reused >= 2 and len({json.dumps(reuse_chain(r)) for r in regs_}) >= 2)
        chk.count(f"reuse:registrations_of_one_function_object:{min(reused, 4)}{'+' if reused >= 4 else ''}")
        chk.count("reuse:unregister_events", sum(1 for e in hist["events"] if e[0] != "register"))
        chk.count("reuse:dispatchers_one_function_is_on:%d" % max((len({SCOPE_DISP[r["scope"]] for r in regs_ if r["fn"] == s}) for s in per_fn), default=0))
        for r in regs_:
            chk.count(f"reuse:form:{r['form']}:{'filtered' if r['filters'] else 'unfiltered'}")
        ru_steps += len(steps)
        bad = reuse_oracle(hist, steps, fired)
        outside = [m for m, region in bad if region is None]
        ru_inside += len(bad) - len(outside)
        for m, region in bad:
            if region is not None:
                chk.fail(m, {"reuse_history": hist}, region=region)
        if outside:
            ru_wrong += 1
            chk.fail(outside[0], {"reuse_history": hist}, detail={"further_mismatches_in_this_history": len(outside) - 1})
        states = reuse_states(hist["events"])
        for j, (code, spec, ledger) in ru_by_hist.get(k, []):
            real = steps[j - 1]
            live, last = states[j - 1]
            if ledger_key(ledger) != [[SCOPE_DISP[r["scope"]], r["hook"], r["fn"]] for r in live]:
                ru_disagree += 1
                chk.disagree("re-use history: Model_C19.ledger vs the live registrations read from the events", {"reuse_history": hist, "events": j},
                             [[SCOPE_DISP[r["scope"]], r["hook"], r["fn"]] for r in live], ledger)
                break
            if any(cur and not reuse_is_current(r, last) for (_, _, _, cur), r in zip(ledger, live)):
                ru_disagree += 1
                chk.disagree("re-use history: Model_C19.entry_current vs the region read from the events", {"reuse_history": hist, "events": j},
                             [reuse_is_current(r, last) for r in live], ledger)
                break
            if code != real:
                ru_disagree += 1
                chk.disagree("re-use history: real dispatchers vs Model_C19.apply_to_container: " + (first_diff(real, code) or "")[:200],
                             {"reuse_history": hist, "events": j}, "see difference", "see difference")
                break
            stop = False
            for oi in range(len(FACTS)):
                for di in range(3):
                    for ti, tg in enumerate(ORACLE_TARGETS_COQ):
                        if all(cur for d_, name, _, cur in ledger if d_ == di and hook_target(name) == tg):
                            ru_spec_cells += 1
                            if spec[oi][di][ti] != real[oi][di][ti] and not stop:
                                stop = True
                                ru_disagree += 1
                                chk.disagree(
                                    "re-use history: real dispatchers vs Model_C19.spec_apply_to_container in the region of "
                                    "C19_each_registration_own_chain_container_partial",
                                    {"reuse_history": hist, "events": j, "operation": FACTS[oi]["label"], "dispatcher": DISP_NAMES[di], "target": tg},
                                    real[oi][di][ti], spec[oi][di][ti])
            if stop:
                break
    chk.stages["reuse_histories"] = {
        "histories": len(ru_runs), "fixed": len(REUSE_FIXED), "observed_states": ru_steps, "oracle_wrong_histories": ru_wrong,
        "mismatches_inside_listed_regions": ru_inside, "cells_compared_with_per_registration_spec": ru_spec_cells, "model_disagrees": ru_disagree,
    }
    # ---- SEVERAL hooks under ONE name on one dispatcher (harness/props/c19_same.py): real data generation, per generated case which
    #      hook functions ran, in which order, how often vs the property read directly (oracle), Model_C19.gen_trace
    #      (C19_same_name_hooks_in_order / _each_once / _all_scopes) and the sentinel gen_trace_late (C19_late_binding_refuted)
    from harness.props import c19_same

    c19_same.stage(chk, boost=10 if chk.broken and not chk.failures else 1)
    # ---- evaluation sequences over the operations of 2-3 real schema objects that SHARE labels (harness/props/c19_multi.py): real
    #      dispatch, real data generation and auth application vs the property read directly (oracle), Model_C19.eval_trace /
    #      auth_trace with match_plain (C19_filter_evaluation_pure, C19_auth_evaluation_pure) and the sentinel match_cached
    from harness.props import c19_multi

    c19_multi.stage(chk, boost=10 if chk.broken and not chk.failures else 1)
    # a concrete failing input is what the tenfold search budget is for; once there is one, the normal budget will do
    boost = 10 if chk.broken and not chk.failures else 1

    # ---- auth providers
    n_auth = 300 if quick else 3000
    acases = []
    for c in corpus:
        if c.get("kind") == "auth":
            outs, obs = run_auth_history_real(c["ops"])
            acases.append((c["ops"], outs, obs))
    for _ in range(n_auth):
        env = AuthEnv()
        try:
            ops, outs = gen_auth_history(rng, env, rng.choice([0, 1, 2, 3, 4, 6, 8, 12]))
            obs = env.observe()
        finally:
            env.close()
        acases.append((ops, outs, obs))
    amodel = core.coq_eval(IMPORTS, [c_aobserve(ops) for ops, _, _ in acases], shard=60)
    a_agree = 0
    for (ops, outs, obs), mv in zip(acases, amodel):
        m_outs, m_obs = canon_model_aobservation(mv)
        nontrivial = sum(1 for s in obs["providers"] for p in s if p[1] is not None) >= 1 and sum(len(s) for s in obs["providers"]) >= 2
        chk.seen({"auth_ops": ops}, nontrivial)
        for op in ops:
            chk.count(f"auth_op:{op[0]}")
        if outs != m_outs:
            chk.disagree("outcomes of auth registration operations", {"ops": ops}, outs, m_outs)
            continue
        d = first_diff(obs, m_obs)
        if d:
            chk.disagree(f"auth history: {d[:300]}", {"ops": ops}, "see difference", "see difference")
            continue
        a_agree += 1
    chk.stages["correspondence_auth"] = {"histories": len(acases), "agree": a_agree}

    # ---- oracle: real data generation
    n_or = (60 if quick else 600) * boost
    wrong = inside = 0
    for i in range(n_or):
        if i < len(ORACLE_FIXED):
            regs, unreg = ORACLE_FIXED[i]
        else:
            regs = gen_registrations(rng, rng.choice([1, 2, 3, 4, 6]))
            unreg = gen_unregister(rng, regs)
        chk.count("oracle:unregistered_with_own_function_name", sum(1 for r in regs if r["id"] in unreg and r["fn_name"] != r["hook"]))
        chk.count("oracle:unregistered_by_hook_name", sum(1 for r in regs if r["id"] in unreg and r["fn_name"] == r["hook"]))
        for r in regs:
            chk.count(f"oracle:form:{r['form']}:{r['scope']}")
        try:
            bad = oracle_check(regs, unreg, seed=rng.randrange(1 << 30))
        except Exception as exc:  # noqa: BLE001
            chk.count(f"oracle_error:{type(exc).__name__}")
            chk.fail(f"data generation with hooks crashed: {type(exc).__name__}: {exc}"[:300], {"registrations": regs, "unregister": unreg})
            continue
        chk.seen({"oracle": regs, "unregister": unreg}, len(regs) >= 2)
        for r, exp, act, region in bad:
            if region:
                inside += 1
            else:
                wrong += 1
            what = "UNREGISTERED hook" if r["id"] in unreg else "hook"
            chk.fail(
                f"{what} {r['hook']} (function {r.get('fn_name')}) registered on {r['scope']} ({r['form']} form) fired for {act}, "
                f"{'nothing may fire after unregister' if r['id'] in unreg else 'its own filters select ' + str(exp)}",
                {"registrations": regs, "unregister": list(unreg), "registration": r["id"]},
                region=region,
            )
        if i < 1:
            chk.sample({"oracle_registrations": regs[:3], "wrong": len(bad)})
    chk.stages["oracle_generation"] = {"runs": n_or, "hooks_firing_on_wrong_operations": wrong, "inside_listed_regions": inside}

    # ---- generation INTERLEAVED with (un)registration on one schema object: real draws vs the model's gen_trace (correspondence of
    #      C19_generation_uses_current_registrations) vs the property text read directly (oracle)
    n_il = (45 if quick else 450) * boost
    il_runs = []
    for i in range(n_il):
        events = INTERLEAVED_FIXED[i] if i < len(INTERLEAVED_FIXED) else gen_events(rng, rng.choice([1, 2, 2, 3, 4]))
        try:
            real = interleaved_run(events, seed=rng.randrange(1 << 30))
        except Exception as exc:  # noqa: BLE001
            chk.fail(f"interleaved generation crashed: {type(exc).__name__}: {exc}"[:300], {"events": events})
            continue
        il_runs.append((events, real))
    traces = core.coq_eval(IMPORTS, [c_events(ev) for ev, _ in il_runs], shard=40)
    il_wrong = il_disagree = n_gen = 0
    for (events, real), trace in zip(il_runs, traces):
        n_gen += len(real)
        repeated = len(real) - len({g[0] for g in real})
        chk.seen({"events": events}, repeated >= 1 and any(e[0] != "generate" for e in events))
        chk.count("interleaved:generate_events", len(real))
        chk.count("interleaved:repeated_generations_of_an_operation", repeated)
        chk.count("interleaved:unregister_events", sum(1 for e in events if e[0] == "unregister"))
        expected = interleaved_expected(events)
        if real != expected:
            il_wrong += 1
            j = next(j for j, (a, b) in enumerate(zip(real, expected)) if a != b)
            chk.fail(
                f"generation #{j} for {FACTS[real[j][0]]['label']}: hooks of registrations {real[j][1]} ran, the registrations in force at that moment "
                f"whose own filters select it are {expected[j][1]}",
                {"events": events},
            )
        model = model_interleaved(events, trace)
        if model != real:
            il_disagree += 1
            chk.disagree("interleaved generation: real draws vs Model_C19.gen_trace", {"events": events}, real, model)
    chk.stages["interleaved_generation"] = {"histories": len(il_runs), "generate_events": n_gen, "oracle_wrong": il_wrong, "model_disagrees": il_disagree}

    # ---- oracle: auth providers through the public API
    n_ao = (150 if quick else 2000) * boost
    a_wrong = 0
    for _ in range(n_ao):
        aregs = gen_auth_registrations(rng, rng.choice([1, 2, 3, 4]))
        try:
            abad = auth_oracle_check(aregs)
        except Exception as exc:  # noqa: BLE001
            chk.fail(f"auth registration crashed: {type(exc).__name__}: {exc}"[:300], {"auth_registrations": aregs})
            continue
        chk.seen({"auth_oracle": aregs}, len(aregs) >= 2 and any(r["filters"] for r in aregs))
        for label, with_test, expected, actual in abad[:1]:
            a_wrong += 1
            chk.fail(
                f"operation {label} ({'test' if with_test else 'schema/global'} storage) authenticated by provider {actual}, own filters select provider {expected}",
                {"auth_registrations": aregs},
            )
    chk.stages["oracle_auth"] = {"runs": n_ao, "wrong_provider": a_wrong}

    # ---- listed findings
    for f in chk.findings:
        chk.known(f, witness_fails(f["witness"]))


def replay(payload) -> int:
    for f in payload.get("failing_inputs", []):
        inp = f.get("input") or {}
        if isinstance(inp, dict) and "registrations" in inp:
            bad = oracle_check(inp["registrations"], tuple(inp.get("unregister", ())))
            print("registrations", inp["registrations"])
            for r, exp, act, region in bad:
                print(f"  registration {r['id']} {r['hook']}: fired for {act}, own filters select {exp} (region {region})")
            print("->", "FAILS" if bad else "passes")
        if isinstance(inp, dict) and "reuse_history" in inp:
            hist = inp["reuse_history"]
            steps, fired = reuse_run(hist)
            bad = reuse_oracle(hist, steps, fired)
            print("function objects", hist["slots"])
            for j, ev in enumerate(hist["events"]):
                print(f"  event {j}: {ev}")
            for m, region in bad:
                print(f"  [{region or 'VIOLATION'}] {m}")
            print("->", "FAILS" if any(region is None for _, region in bad) else "passes (outside the listed regions)")
        if isinstance(inp, dict) and "same_name_events" in inp:
            from harness.props import c19_same

            c19_same.replay_one(inp["same_name_events"])
        if isinstance(inp, dict) and "multi_schema_history" in inp:
            from harness.props import c19_multi

            c19_multi.replay_one(inp["multi_schema_history"])
        if isinstance(inp, dict) and "events" in inp and "reuse_history" not in inp:
            real = interleaved_run(inp["events"])
            expected = interleaved_expected(inp["events"])
            print("events", inp["events"])
            for j, (a, b) in enumerate(zip(real, expected)):
                print(f"  generation #{j} {FACTS[a[0]]['label']}: ran {a[1]}, in force and selecting it {b[1]}" + ("   <-- differs" if a != b else ""))
            print("->", "FAILS" if real != expected else "passes")
        if isinstance(inp, dict) and "auth_registrations" in inp:
            abad = auth_oracle_check(inp["auth_registrations"])
            print("auth registrations", inp["auth_registrations"])
            for row in abad:
                print("  operation %s test-storage=%s: own filters select provider %s, authenticated by %s" % row)
            print("->", "FAILS" if abad else "passes")
    for b in payload.get("broken_obligations_or_correspondence", []):
        print("broken:", b.get("kind"), b.get("what"))
        inp = b.get("input")
        if b.get("kind") == "correspondence" and isinstance(inp, dict) and "ops" in inp:
            ops = inp["ops"]
            if ops and ops[0][0] in ("register", "apply", "from_requests") or any(o[0] in ("from_requests", "call") for o in ops):
                outs, obs = run_auth_history_real(ops)
                m_outs, m_obs = canon_model_aobservation(core.coq_eval(IMPORTS, [c_aobserve(ops)])[0])
            else:
                wt = inp.get("with_test", True)
                outs, obs = run_history_real(ops, wt)
                m_outs, m_obs = canon_model_observation(core.coq_eval(IMPORTS, [c_observe(ops, wt)])[0])
                m_obs.pop("case_level_prefix")
                print("  spec own_chain         :", m_obs.pop("own_chain"))
            print("  implementation outcomes:", outs)
            print("  model outcomes         :", m_outs)
            print("  first difference       :", first_diff(obs, m_obs))
    return 0
