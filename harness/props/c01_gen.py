"""Regenerates coq/theories/C01/Gen_C01.v from /repo/src on every run (fail closed): the numeric kernel of the pattern rewriter."""
from __future__ import annotations

from harness import core, translate
from harness.props.c12_gen import src_root


def regenerate() -> dict:
    path_src = src_root() / "specs" / "openapi" / "patterns.py"
    src = path_src.read_text()
    parts = [
        "(* GENERATED on every run by harness/props/c01_gen.py from the Python source - do not edit.\n"
        f"   specs/openapi/patterns.py sha256 {translate.source_hash(path_src)} *)\n"
        "From Coq Require Import ZArith Bool.\nFrom Verif Require Import C01.Model_C01.\nLocal Open Scope Z_scope.\n\n",
        translate.translate_function(src, "_build_size", [("min_repeat", "Z"), ("max_repeat", "Z"), ("min_length", "optZ"), ("max_length", "optZ")],
                                     "gen_build_size", {"MAXREPEAT": "MAXREPEAT"}),
    ]
    path = core.THEORIES / "C01" / "Gen_C01.v"
    return {"file": str(path), "changed": translate.write_if_changed(path, "".join(parts)), "sources": [str(path_src)]}
